#!/bin/sh
# Build the static-analysis binaries from files on disk only (offline).
set -e
cd "$(dirname "$0")/sa"
export GOFLAGS=-mod=mod GOPROXY=off GOSUMDB=off GOTOOLCHAIN=local
unset GOWORK
mkdir -p ../bin
go build -o ../bin/mtailsa ./cmd/mtailsa
go build -o ../bin/goyacc golang.org/x/tools/cmd/goyacc
