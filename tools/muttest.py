#!/usr/bin/env python3
"""Checker self-test: apply each single-defect variant (mutants/<ID>/*.patch and
seeded/<ID>-*/patch.diff) to a scratch copy of /repo's current tree and require
that the property's check reports a VIOLATION (exit 1).  Scratch copies live
under $TMPDIR and are removed.  Usage: muttest.py [-j N] [ID ...]"""
import glob, json, os, shutil, subprocess, sys, tempfile
from concurrent.futures import ThreadPoolExecutor
import queue
ROOT = os.path.dirname(os.path.dirname(os.path.abspath(__file__)))
args = sys.argv[1:]
jobs = 6
if args and args[0] == "-j":
    jobs = int(args[1]); args = args[2:]
jsonout = None
if args and args[0] == "--json":
    jsonout = args[1]; args = args[2:]
ids = args
env = dict(os.environ, GOFLAGS="-mod=mod", GOPROXY="off", GOSUMDB="off", GOTOOLCHAIN="local")
env.pop("GOWORK", None)
known_miss = set()
def variants():
    out = []
    for p in sorted(glob.glob(f"{ROOT}/mutants/*/*.patch")):
        if os.environ.get("SEEDS_ONLY"):
            break
        out.append((os.path.basename(os.path.dirname(p)), os.path.basename(p)[:-6], p))
    for p in sorted(glob.glob(f"{ROOT}/seeded/*/patch.diff")):
        d = os.path.basename(os.path.dirname(p))
        pid = d.split("-")[0]
        also = []
        mp = os.path.join(os.path.dirname(p), "meta.json")
        if os.path.exists(mp):
            meta = json.load(open(mp))
            if meta.get("obsolete"):
                continue  # no longer breaks the property on the repaired tree; see meta.json
            also = meta.get("also_checked_by", [])
            if meta.get("known_miss"):
                known_miss.add("seeded-" + d)
            if meta.get("checked_by"):  # decided by other properties' checks than the one it was written against
                if isinstance(meta["checked_by"], str):
                    meta["checked_by"] = [meta["checked_by"]]
                for a in meta["checked_by"]:
                    out.append((a, "seeded-" + d, p))
                continue
        out.append((pid, "seeded-" + d, p))
        for a in also:
            out.append((a, "seeded-" + d, p))
    return [v for v in out if not ids or v[0] in ids]
def run(v):
    pid, name, patch = v
    # One scratch directory per worker slot, always at the same path: the Go build cache is keyed by the
    # directory of the packages compiled, so a fresh random path per variant made every variant a cold
    # build and grew the cache by gigabytes per run.
    slot = SLOTS.get()
    tmp = os.path.join(tempfile.gettempdir(), f"verif-mut-slot{slot}-{os.getuid()}")
    shutil.rmtree(tmp, ignore_errors=True)
    os.makedirs(tmp)
    try:
        src = os.path.join(tmp, "repo"); vd = os.path.join(tmp, "verif")
        subprocess.run(["rsync", "-a", "--exclude=.git", "/repo/", src + "/"], check=True)
        os.makedirs(vd + "/evidence")
        shutil.copy(f"{ROOT}/known_findings.jsonl", vd)
        os.symlink(f"{ROOT}/bin", vd + "/bin")
        p = subprocess.run(["patch", "-p1", "-s", "--no-backup-if-mismatch", "-i", patch], cwd=src, stdout=subprocess.PIPE, stderr=subprocess.STDOUT, text=True)
        if p.returncode != 0:
            return (pid, name, "SKIP(patch does not apply)", p.stdout.strip()[:200])
        # no separate `go build`: the analyser type-checks every package and reports a tree that does not compile as BROKEN
        c = subprocess.run([f"{ROOT}/bin/mtailsa", "check", "-property", pid, "-tier", "quick", "-root", src, "-verif", vd], env=env, stdout=subprocess.PIPE, stderr=subprocess.STDOUT, text=True)
        if c.returncode == 2 and "cannot load" in c.stdout:
            return (pid, name, "SKIP(does not build)", c.stdout.strip()[:300])
        fails = [l for l in c.stdout.splitlines() if l.startswith("FAILED") or l.startswith("UNDECIDED")]
        st = {0: "MISSED", 1: "detected", 2: "BROKEN(undecided)"}.get(c.returncode, f"rc={c.returncode}")
        if name in known_miss and st != "detected":
            st = "known-miss(" + st + ")"
        return (pid, name, st, " ;; ".join(f[:230] for f in fails[:3]))
    finally:
        shutil.rmtree(tmp, ignore_errors=True)
        SLOTS.put(slot)
vs = variants()
SLOTS = queue.Queue()
for _i in range(jobs):
    SLOTS.put(_i)
with ThreadPoolExecutor(jobs) as ex:
    res = list(ex.map(run, vs))
bad = 0
for pid, name, st, info in res:
    if st != "detected" and not st.startswith("known-miss"):
        bad += 1
    print(f"{pid:4} {st:24} {name}\n       {info}")
print(f"variants: {len(res)}, not detected: {bad}")
if jsonout:
    json.dump([{"property": a, "variant": b, "status": c, "info": d[:300]} for a, b, c, d in res], open(jsonout, "w"), indent=1)
sys.exit(1 if bad else 0)
