#!/usr/bin/env python3
"""Confirm a seeded change delivered under /tmp/seed/<ID>/<V>/ in a scratch
worktree of /repo's HEAD: the patch applies and builds, the baseline suite
still passes with it, the demonstration fails with it and passes without it.
With --adopt, store it as /verif/seeded/<ID>-<V>/ (patch.diff rebased onto
HEAD, demo, meta.json).  Usage: seedcheck.py C12 A [--adopt] [--no-baseline]"""
import json, os, re, shutil, subprocess, sys, tempfile
ID, V = sys.argv[1], sys.argv[2]
adopt = "--adopt" in sys.argv
src = os.environ.get("SEED_DIR", "/tmp/seed") + f"/{ID}/{V}"
AS = V
for i, a in enumerate(sys.argv):
    if a == "--as":
        AS = sys.argv[i + 1]
env = dict(os.environ, GOFLAGS="-mod=mod", GOPROXY="off", GOSUMDB="off", GOTOOLCHAIN="local")
env.pop("GOWORK", None)
def sh(cmd, cwd=None, check=False, timeout=1800):
    p = subprocess.run(cmd, shell=True, cwd=cwd, env=env, stdout=subprocess.PIPE, stderr=subprocess.STDOUT, text=True, timeout=timeout)
    if check and p.returncode != 0:
        print(p.stdout); raise SystemExit(f"failed: {cmd}")
    return p.returncode, p.stdout
wt = tempfile.mkdtemp(prefix=f"sc-{ID}{V}-", dir="/tmp")
os.rmdir(wt)
sh(f"git -C /repo worktree add -q --detach {wt} HEAD", check=True)
res = {"id": ID, "variant": V}
try:
    rc, out = sh(f"git apply --3way {src}/patch.diff", cwd=wt)
    if rc != 0:
        rc, out = sh(f"git apply {src}/patch.diff", cwd=wt)
    res["applies"] = rc == 0
    if rc != 0:
        print(out); raise SystemExit("patch does not apply to HEAD")
    sh("git reset -q", cwd=wt)
    rc, diff = sh("git diff", cwd=wt)
    res["files"] = re.findall(r"^\+\+\+ b/(.*)$", diff, re.M)
    rc, out = sh("go build ./...", cwd=wt)
    res["builds"] = rc == 0
    if rc != 0:
        print(out); raise SystemExit("does not build")
    where = open(f"{src}/demo_where.txt").read()
    m = re.search(r"(internal|cmd)/[\w/.-]+_test\.go", where)
    demo_path = m.group(0)
    mrun = re.search(r"go test[^\n`]*", where)
    cmd = mrun.group(0).strip()
    cmd = re.sub(r"cd \S+ && ", "", cmd)
    res["demo_path"], res["demo_cmd"] = demo_path, cmd
    shutil.copy(f"{src}/demo_test.go", os.path.join(wt, demo_path))
    rc1, out1 = sh(cmd, cwd=wt)
    res["demo_fails_with_change"] = rc1 != 0
    if "--no-baseline" not in sys.argv:
        os.remove(os.path.join(wt, demo_path))
        rc, out = sh(f"python3 /verif/tools/baseline.py {wt}")
        if rc != 0:  # timing-sensitive tests under load: one retry
            rc, out = sh(f"python3 /verif/tools/baseline.py {wt}")
        res["baseline_passes_with_change"] = rc == 0
        res["baseline_tail"] = out.strip().splitlines()[-3:]
        shutil.copy(f"{src}/demo_test.go", os.path.join(wt, demo_path))
    sh("git checkout -- .", cwd=wt)
    rc2, out2 = sh(cmd, cwd=wt)
    res["demo_passes_without_change"] = rc2 == 0
    if rc1 == 0 or rc2 != 0:
        print("--- demo with change ---\n", out1[-1500:], "\n--- demo without ---\n", out2[-1500:])
    ok = res["demo_fails_with_change"] and res["demo_passes_without_change"] and res.get("baseline_passes_with_change", True)
    res["confirmed"] = ok
    if adopt and ok:
        dst = f"/verif/seeded/{ID}-{AS}"
        os.makedirs(dst, exist_ok=True)
        open(f"{dst}/patch.diff", "w").write(diff)
        shutil.copy(f"{src}/demo_test.go", f"{dst}/demo_test.go")
        notes = open(f"{src}/notes.md").read() if os.path.exists(f"{src}/notes.md") else ""
        head = sh("git -C /repo rev-parse --short HEAD")[1].strip()
        json.dump({"property": ID, "variant": AS, "breaks": ID, "files": res["files"], "demo_path": demo_path, "demo_cmd": cmd,
                   "needs_to_manifest": notes[:3000], "confirmed_against_repo_head": head,
                   "what_i_ran": ["git apply patch onto scratch worktree of /repo HEAD; go build ./...",
                                   "tools/baseline.py with the change: all 653 stable tests pass" if "baseline_passes_with_change" in res else "baseline not re-run",
                                   f"{cmd} with the change: FAIL", f"{cmd} without the change: PASS"],
                   "source": "independent sub-agent given only the property text"}, open(f"{dst}/meta.json", "w"), indent=1)
finally:
    sh(f"git -C /repo worktree remove --force {wt}")
print(json.dumps(res, indent=1))
