#!/usr/bin/env python3
"""Run the repository's test suite in DIR (default /repo) and compare with the
pinned list of stable-pass tests.  Exit 0 iff every stable test passed."""
import json, os, subprocess, sys
here = os.path.dirname(os.path.abspath(__file__))
d = sys.argv[1] if len(sys.argv) > 1 else "/repo"
stable = [l.strip() for l in open(os.path.join(here, "stable_pass.txt")) if l.strip()]
env = dict(os.environ, GOFLAGS="-mod=mod", GOPROXY="off", GOSUMDB="off", GOTOOLCHAIN="local")
env.pop("GOWORK", None)
p = subprocess.run(["go", "test", "-json", "-vet=off", "-count=1", "-timeout", "25m", "./..."],
                   cwd=d, env=env, stdout=subprocess.PIPE, stderr=subprocess.STDOUT, text=True)
res = {}
build_fail = []
for line in p.stdout.splitlines():
    try:
        e = json.loads(line)
    except Exception:
        continue
    if e.get("Action") in ("pass", "fail", "skip") and e.get("Test"):
        res[e["Package"] + "::" + e["Test"]] = e["Action"]
    if e.get("Action") == "fail" and not e.get("Test"):
        build_fail.append(e.get("Package"))
bad = [t for t in stable if res.get(t) != "pass"]
print("stable tests: %d, passed: %d, not passed: %d" % (len(stable), len(stable) - len(bad), len(bad)))
for t in bad[:40]:
    print("  NOT PASSED:", t, res.get(t))
sys.exit(1 if bad else 0)
