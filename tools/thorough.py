#!/usr/bin/env python3
"""Thorough tier of one property: the quick analysis on the default build
configuration (writes the evidence file), the same analysis under two more
build configurations (-tags gofuzz, GOARCH=386) whose verdicts must agree, and
the checker self-test: every single-defect variant under mutants/<ID>/ and
seeded/<ID>-*/ is applied to a scratch copy of /repo's current tree (under
$TMPDIR, removed afterwards) and the rules must report it; every
behaviour-preserving refactor under benign/<ID>/ is applied the same way and
must NOT be reported as a violation.
Exit 1 + VIOLATION lines if any configuration reports a violation; exit 2 if
the checker is broken (undecided, or a variant that applies and builds is not
detected); exit 0 otherwise."""
import json, os, shutil, subprocess, sys, tempfile, time
ROOT = os.path.dirname(os.path.dirname(os.path.abspath(__file__)))
pid = sys.argv[1]
repo = os.environ.get("VERIF_ROOT", "/repo")
env = dict(os.environ, GOFLAGS="-mod=mod", GOPROXY="off", GOSUMDB="off", GOTOOLCHAIN="local", VERIF_TIER="thorough")
env.pop("GOWORK", None)
t0 = time.time()
def run(extra, verif):
    p = subprocess.run([f"{ROOT}/bin/mtailsa", "check", "-property", pid, "-tier", "thorough", "-root", repo, "-verif", verif] + extra,
                       env=env, stdout=subprocess.PIPE, stderr=subprocess.STDOUT, text=True)
    return p.returncode, p.stdout
rc, out = run([], ROOT)
sys.stdout.write(out)
worst = rc
configs = [{"config": "default", "exit": rc}]
viol_lines = [l for l in out.splitlines() if l.startswith("VIOLATION")]
for name, extra in (("tags=gofuzz", ["-tags", "gofuzz"]), ("GOARCH=386", ["-goarch", "386"])):
    tmp = tempfile.mkdtemp(prefix="verif-cfg-")
    try:
        shutil.copy(f"{ROOT}/known_findings.jsonl", tmp)
        os.symlink(f"{ROOT}/bin", os.path.join(tmp, "bin"))  # C01-R1 runs bin/goyacc from the verif directory
        rc2, out2 = run(extra, tmp)
        configs.append({"config": name, "exit": rc2})
        print(f"config {name}: exit {rc2}")
        if rc2 != rc:
            for l in out2.splitlines():
                if l.startswith(("FAILED", "UNDECIDED", "BROKEN")):
                    print(f"  [{name}] {l}")
            if rc2 == 1:
                # keep the replay files of violations only this configuration shows
                os.makedirs(f"{ROOT}/evidence/replay", exist_ok=True)
                for l in out2.splitlines():
                    if l.startswith("VIOLATION"):
                        src = l.split("replay=")[1].strip()
                        dst = f"{ROOT}/evidence/replay/{pid}-{name.replace('=', '-')}-{os.path.basename(src)}"
                        shutil.copy(src, dst)
                        print(f"VIOLATION property={pid} replay={dst}")
            worst = max(worst, rc2) if 1 not in (worst, rc2) else 1
    finally:
        shutil.rmtree(tmp, ignore_errors=True)
# self-test
st = {"applied": 0, "detected": 0, "skipped": 0, "missed": []}
if rc != 1:  # on a tree that already violates the property every variant is trivially "detected"
    jf = tempfile.mktemp(prefix="verif-mut-", suffix=".json")
    p = subprocess.run([sys.executable, f"{ROOT}/tools/muttest.py", "-j", "8", "--json", jf, pid], env=env, stdout=subprocess.PIPE, stderr=subprocess.STDOUT, text=True)
    try:
        res = json.load(open(jf))
    except Exception:
        res = []
        print("BROKEN selftest: " + p.stdout[-500:])
        worst = max(worst, 2) if worst != 1 else 1
    finally:
        if os.path.exists(jf):
            os.remove(jf)
    for r in res:
        if r["status"].startswith("SKIP"):
            st["skipped"] += 1
            print(f"selftest: skipped {r['variant']} ({r['status']})")
            continue
        st["applied"] += 1
        if r["status"].startswith("known-miss"):
            st.setdefault("known_misses", []).append(r["variant"])
            st["applied"] -= 1
            print(f"selftest: {r['variant']} is a recorded miss ({r['status']}), see its meta.json")
        elif r["status"] == "detected":
            st["detected"] += 1
        else:
            st["missed"].append(r["variant"])
            print(f"BROKEN selftest: variant {r['variant']} is {r['status']}")
    print(f"selftest: {st['detected']}/{st['applied']} single-defect variants detected, {st['skipped']} skipped")
    if st["missed"] and worst != 1:
        worst = 2
else:
    print("selftest: not run (the tree violates the property)")
# silence self-test: behaviour-preserving refactors must not be reported
bt = {"applied": 0, "silent": 0, "undecided": 0, "skipped": 0, "false_alarms": []}
if rc != 1 and os.path.isdir(f"{ROOT}/benign/{pid}"):
    jf = tempfile.mktemp(prefix="verif-ben-", suffix=".json")
    subprocess.run([sys.executable, f"{ROOT}/tools/benigntest.py", "-j", "8", "--json", jf, pid], env=env, stdout=subprocess.PIPE, stderr=subprocess.STDOUT, text=True)
    try:
        res = json.load(open(jf))
    except Exception:
        res = []
    finally:
        if os.path.exists(jf):
            os.remove(jf)
    for r in res:
        if r["status"].startswith("SKIP"):
            bt["skipped"] += 1
            continue
        bt["applied"] += 1
        if r["status"] == "silent":
            bt["silent"] += 1
        elif r["status"] == "undecided":
            bt["undecided"] += 1
        else:
            bt["false_alarms"].append(r["variant"])
            print(f"BROKEN selftest: benign refactor {r['variant']} is reported as a violation: {r['info'][:200]}")
    print(f"selftest: {bt['silent']}/{bt['applied']} behaviour-preserving refactors silent, {bt['undecided']} undecided, {bt['skipped']} skipped")
    if bt["false_alarms"] and worst != 1:
        worst = 2
# amend the evidence file
ef = f"{ROOT}/evidence/{pid}.json"
try:
    ev = json.load(open(ef))
    ev["tier"] = "thorough"
    ev["coverage"]["configs"] = configs
    ev["coverage"]["selftest"] = st
    ev["coverage"]["silence_selftest"] = bt
    ev["wall_s"] = time.time() - t0
    json.dump(ev, open(ef, "w"), indent=1)
except Exception as e:
    print("BROKEN: cannot amend evidence:", e)
    worst = max(worst, 2) if worst != 1 else 1
sys.exit(worst)
