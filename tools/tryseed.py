#!/usr/bin/env python3
"""Apply a patch to a scratch copy of /repo and run the named checks on it.
Usage: tryseed.py <patch> <ID> [<ID> ...]   (prints exit code and first failures per check)"""
import os, shutil, subprocess, sys, tempfile
ROOT = os.path.dirname(os.path.dirname(os.path.abspath(__file__)))
patch, ids = sys.argv[1], sys.argv[2:]
env = dict(os.environ, GOFLAGS="-mod=mod", GOPROXY="off", GOSUMDB="off", GOTOOLCHAIN="local")
env.pop("GOWORK", None)
tmp = tempfile.mkdtemp(prefix="try-")
try:
    src = os.path.join(tmp, "repo"); vd = os.path.join(tmp, "verif")
    subprocess.run(["rsync", "-a", "--exclude=.git", "/repo/", src + "/"], check=True)
    os.makedirs(vd + "/evidence"); shutil.copy(f"{ROOT}/known_findings.jsonl", vd); os.symlink(f"{ROOT}/bin", vd + "/bin")
    p = subprocess.run(["patch", "-p1", "-s", "--no-backup-if-mismatch", "-i", os.path.abspath(patch)], cwd=src, stdout=subprocess.PIPE, stderr=subprocess.STDOUT, text=True)
    if p.returncode != 0:
        print("patch does not apply:", p.stdout[:300]); sys.exit(3)
    for pid in ids:
        c = subprocess.run([f"{ROOT}/bin/mtailsa", "check", "-property", pid, "-tier", "quick", "-root", src, "-verif", vd], env=env, stdout=subprocess.PIPE, stderr=subprocess.STDOUT, text=True)
        fails = [l[:260] for l in c.stdout.splitlines() if l.startswith(("FAILED", "UNDECIDED", "BROKEN"))]
        print(f"{pid}: exit {c.returncode}" + ("" if not fails else "\n   " + "\n   ".join(fails[:3])))
finally:
    shutil.rmtree(tmp, ignore_errors=True)
