#!/usr/bin/env python3
"""Silence self-test: apply each behaviour-preserving refactor under
benign/<ID>/*.patch to a scratch copy of /repo's current tree and require that
the property's check does NOT report a violation (exit 1).  Exit 2 (undecided)
is reported but tolerated.  Usage: benigntest.py [-j N] [--json out] [ID ...]"""
import glob, json, os, shutil, subprocess, sys, tempfile
from concurrent.futures import ThreadPoolExecutor
import queue
ROOT = os.path.dirname(os.path.dirname(os.path.abspath(__file__)))
args = sys.argv[1:]
jobs = 6
jsonout = None
if args and args[0] == "-j":
    jobs = int(args[1]); args = args[2:]
if args and args[0] == "--json":
    jsonout = args[1]; args = args[2:]
ids = args
env = dict(os.environ, GOFLAGS="-mod=mod", GOPROXY="off", GOSUMDB="off", GOTOOLCHAIN="local")
env.pop("GOWORK", None)
vs = []
for p in sorted(glob.glob(f"{ROOT}/benign/*/*.patch")):
    pid = os.path.basename(os.path.dirname(p))
    if not ids or pid in ids:
        vs.append((pid, os.path.basename(p)[:-6], p))
def run(v):
    pid, name, patch = v
    # One scratch directory per worker slot, always at the same path: the Go build cache is keyed by the
    # directory of the packages compiled, so a fresh random path per variant made every variant a cold
    # build and grew the cache by gigabytes per run.
    slot = SLOTS.get()
    tmp = os.path.join(tempfile.gettempdir(), f"verif-ben-slot{slot}-{os.getuid()}")
    shutil.rmtree(tmp, ignore_errors=True)
    os.makedirs(tmp)
    try:
        src = os.path.join(tmp, "repo"); vd = os.path.join(tmp, "verif")
        subprocess.run(["rsync", "-a", "--exclude=.git", "/repo/", src + "/"], check=True)
        os.makedirs(vd + "/evidence")
        shutil.copy(f"{ROOT}/known_findings.jsonl", vd)
        os.symlink(f"{ROOT}/bin", vd + "/bin")
        p = subprocess.run(["patch", "-p1", "-s", "--no-backup-if-mismatch", "-i", patch], cwd=src, stdout=subprocess.PIPE, stderr=subprocess.STDOUT, text=True)
        if p.returncode != 0:
            return (pid, name, "SKIP(patch does not apply)", p.stdout.strip()[:200])
        c = subprocess.run([f"{ROOT}/bin/mtailsa", "check", "-property", pid, "-tier", "quick", "-root", src, "-verif", vd], env=env, stdout=subprocess.PIPE, stderr=subprocess.STDOUT, text=True)
        if c.returncode == 2 and "cannot load" in c.stdout:
            return (pid, name, "SKIP(does not build)", c.stdout.strip()[:300])
        fails = [l for l in c.stdout.splitlines() if l.startswith("FAILED") or l.startswith("UNDECIDED")]
        st = {0: "silent", 1: "FALSE-ALARM", 2: "undecided"}.get(c.returncode, f"rc={c.returncode}")
        return (pid, name, st, " ;; ".join(f[:230] for f in fails[:3]))
    finally:
        shutil.rmtree(tmp, ignore_errors=True)
        SLOTS.put(slot)
SLOTS = queue.Queue()
for _i in range(jobs):
    SLOTS.put(_i)
with ThreadPoolExecutor(jobs) as ex:
    res = list(ex.map(run, vs))
bad = 0
for pid, name, st, info in res:
    if st == "FALSE-ALARM":
        bad += 1
    print(f"{pid:4} {st:28} {name}\n       {info}")
print(f"benign refactors: {len(res)}, false alarms: {bad}")
if jsonout:
    json.dump([{"property": a, "variant": b, "status": c, "info": d[:300]} for a, b, c, d in res], open(jsonout, "w"), indent=1)
sys.exit(1 if bad else 0)
