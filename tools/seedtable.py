#!/usr/bin/env python3
"""Print a markdown table: every seeded change, what it needs to manifest (first
line of its notes), and which check/rule reports it, from a muttest --json run.
Usage: seedtable.py <muttest.json>"""
import json, os, re, sys, glob
ROOT = os.path.dirname(os.path.dirname(os.path.abspath(__file__)))
res = json.load(open(sys.argv[1]))
by = {}
for r in res:
    if r["variant"].startswith("seeded-"):
        by.setdefault(r["variant"][7:], []).append(r)
print("| seed | change (from its notes) | reported by |")
print("|---|---|---|")
for d in sorted(os.listdir(f"{ROOT}/seeded")):
    mp = f"{ROOT}/seeded/{d}/meta.json"
    if not os.path.exists(mp):
        continue
    m = json.load(open(mp))
    note = m.get("needs_to_manifest", "").strip().splitlines()
    title = ""
    for l in note:
        l = l.strip("# ").strip()
        if l:
            title = l
            break
    title = re.sub(r"^C\d\d variant [A-D]\s*[—:-]*\s*", "", title)[:150].replace("|", "/")
    if m.get("obsolete"):
        rep = "obsolete: " + m.get("obsolete_reason", "")[:160].replace("|", "/")
    else:
        parts = []
        for r in by.get(d, []):
            rules = sorted(set(re.findall(r"FAILED (C\d\d-R\w+)", r["info"])))
            parts.append(f"{r['property']}: {r['status']}" + (" (" + ", ".join(rules) + ")" if rules else ""))
        rep = "; ".join(parts) or "not run"
        if m.get("known_miss"):
            rep += " — recorded miss: " + m.get("known_miss_reason", "")[:200].replace("|", "/")
    print(f"| {d} | {title} | {rep} |")
