#!/usr/bin/env python3
# run with python3-vt (tooling venv has jsonschema)
import json, glob, jsonschema, sys
jsonschema.validate(json.load(open('/verif/MANIFEST.json')), json.load(open('/root/.vp/MANIFEST.schema.json')))
es = json.load(open('/root/.vp/EVIDENCE.schema.json'))
bad = 0
for f in sorted(glob.glob('/verif/evidence/C*.json')):
    try:
        jsonschema.validate(json.load(open(f)), es)
    except Exception as e:
        bad += 1; print('INVALID', f, str(e)[:300])
print('manifest valid; evidence files checked:', len(glob.glob('/verif/evidence/C*.json')), 'invalid:', bad)
sys.exit(1 if bad else 0)
