#!/usr/bin/env python3
"""Regenerate /verif/MANIFEST.json from the table below (claimed checks) and
the not-applicable reasons.  The binary is rebuilt by setup.sh; every check
re-analyses /repo's current working tree."""
import json, os
ROOT = os.path.dirname(os.path.dirname(os.path.abspath(__file__)))
ids = [json.loads(l)["id"] for l in open(os.path.join(ROOT, "properties.jsonl"))]
NOTE = ("Trusted: go/types, go/packages, x/tools v0.29.0 go/cfg (+go/ssa where named), the Go standard library and third-party "
        "packages behaving as documented, and the checker's slot extraction (printed in the evidence). Decides the named structural "
        "clauses, which are necessary conditions of the behaviour, not the behaviour itself; what is not covered is listed in the "
        "evidence file's assumptions and in DESIGN.md.")
claimed = json.load(open(os.path.join(ROOT, "tools", "claims.json")))
na = json.load(open(os.path.join(ROOT, "tools", "not_applicable.json")))
checks = []
for pid in ids:
    if pid not in claimed:
        continue
    c = claimed[pid]
    checks.append({
        "property_id": pid,
        "quick_cmd": f"./check.sh {pid} quick",
        "thorough_cmd": f"./check.sh {pid} thorough",
        "evidence_file": f"/verif/evidence/{pid}.json",
        "replay_cmd_template": "cat {path}",
        "engine": "mtailsa",
        "level_claimed": {"category": c.get("level", "other"), "text": c["text"], "design_ref": c.get("design_ref", f"DESIGN.md §3 {pid}")},
        "level_note": c.get("note", NOTE),
        "technique": c["technique"],
    })
m = {
    "version": 1,
    "setup_cmd": "./setup.sh",
    "hooks": {"guard": "verif", "enable": "none: static analysis reads /repo's source as it is; there are no hooks",
              "baseline_off_cmd": "python3 /verif/tools/baseline.py /repo", "source_commits": [], "add_only": True},
    "engines": [{"name": "mtailsa", "path": "sa/", "serves_properties": sorted(claimed),
                 "kind_free_text": "repository-specific static analyser (go/packages type-checked ASTs, go/cfg path queries, lockset dataflow, table extraction and agreement, go/ssa write sets); never runs mtail or its tests"}],
    "checks": checks,
    "notes": "Technique family: static analysis only. Known genuine defects that were not repaired are listed in known_findings.jsonl and printed as KNOWN-FINDING lines; repaired ones are `fixed` entries there and suppress nothing.",
    "not_applicable": [{"property_id": pid, "reason": na.get(pid, "designed in DESIGN.md, checker not built yet")} for pid in ids if pid not in claimed],
}
json.dump(m, open(os.path.join(ROOT, "MANIFEST.json"), "w"), indent=1)
print("claimed:", len(checks), "not applicable:", len(m["not_applicable"]))
