#!/usr/bin/env python3
"""Create a single-edit mutant patch: mkmut.py ID name file OLD NEW [file OLD NEW ...]
OLD must occur exactly once in file (relative to /repo).  Writes mutants/ID/name.patch (diff -u against /repo HEAD working tree)."""
import os, subprocess, sys, tempfile, shutil
ID, name = sys.argv[1], sys.argv[2]
edits = sys.argv[3:]
tmp = tempfile.mkdtemp(prefix="mkmut-")
try:
    out = ""
    for i in range(0, len(edits), 3):
        f, old, new = edits[i], edits[i+1], edits[i+2]
        old = old.encode().decode('unicode_escape'); new = new.encode().decode('unicode_escape')
        src = open(os.path.join("/repo", f)).read()
        if src.count(old) != 1:
            sys.exit(f"OLD occurs {src.count(old)} times in {f}")
        os.makedirs(os.path.join(tmp, "a", os.path.dirname(f)), exist_ok=True)
        os.makedirs(os.path.join(tmp, "b", os.path.dirname(f)), exist_ok=True)
        open(os.path.join(tmp, "a", f), "w").write(src)
        open(os.path.join(tmp, "b", f), "w").write(src.replace(old, new))
        p = subprocess.run(["diff", "-u", os.path.join("a", f), os.path.join("b", f)], cwd=tmp, stdout=subprocess.PIPE, text=True)
        out += p.stdout
    d = os.path.join(os.path.dirname(os.path.dirname(os.path.abspath(__file__))), "mutants", ID)
    os.makedirs(d, exist_ok=True)
    open(os.path.join(d, name + ".patch"), "w").write(out)
    print("wrote", os.path.join(d, name + ".patch"), len(out.splitlines()), "lines")
finally:
    shutil.rmtree(tmp)
