// Package core holds the shared mechanics of the mtail static checkers:
// loading and indexing the type-checked program, control-flow graphs with
// path queries, callee/access-path resolution and the obligation report.
package core

import (
	"fmt"
	"go/ast"
	"go/token"
	"go/types"
	"os"
	"sort"
	"strings"

	"golang.org/x/tools/go/packages"
)

// ModPath is the module analysed.
const ModPath = "github.com/google/mtail"

// Prog is the loaded, type-checked program rooted at Root.
type Prog struct {
	Root    string
	Fset    *token.FileSet
	All     []*packages.Package          // module packages, sorted by path
	Pkgs    map[string]*packages.Package // by path relative to the module ("internal/metrics")
	Funcs   map[string]*Func             // by key
	FuncOf  map[ast.Node]*Func           // *ast.FuncDecl / *ast.FuncLit -> Func
	ByObj   map[*types.Func]*Func
	Initial []*packages.Package
	Tags    string
}

// Func is one function body: a declaration or a function literal.
type Func struct {
	Key    string // "internal/metrics.(*Store).Add" or "...Add$1" for the 1st literal inside it
	Pkg    *packages.Package
	Decl   *ast.FuncDecl // enclosing declaration (for literals too)
	Lit    *ast.FuncLit  // nil for declarations
	Body   *ast.BlockStmt
	Type   *ast.FuncType
	Parent *Func // immediately enclosing function for literals
	Obj    *types.Func
	Lits   []*Func // literals nested directly or indirectly, in source order (declarations only)
	g      *Graph
	prog   *Prog
}

func (f *Func) Info() *types.Info { return f.Pkg.TypesInfo }
func (f *Func) Pos() token.Pos {
	if f.Lit != nil {
		return f.Lit.Pos()
	}
	return f.Decl.Pos()
}

// Rel returns the package path relative to the module.
func Rel(path string) string {
	if path == ModPath {
		return "."
	}
	return strings.TrimPrefix(path, ModPath+"/")
}

// Load loads every package of the module rooted at root.
// With allSyntax the dependencies are type-checked from source too (needed
// for go/ssa); otherwise export data from the build cache is used.
func Load(root string, tags string, goarch string, allSyntax bool) (*Prog, error) {
	env := append(os.Environ(), "GOFLAGS=-mod=mod", "GOPROXY=off", "GOSUMDB=off", "GOTOOLCHAIN=local", "GOWORK=off")
	if goarch != "" {
		env = append(env, "GOARCH="+goarch)
	}
	cfg := &packages.Config{
		Mode:  packages.LoadSyntax,
		Dir:   root,
		Tests: false,
		Env:   env,
	}
	if allSyntax {
		cfg.Mode = packages.LoadAllSyntax
	}
	if tags != "" {
		cfg.BuildFlags = []string{"-tags=" + tags}
	}
	initial, err := packages.Load(cfg, "./...")
	if err != nil {
		return nil, fmt.Errorf("packages.Load: %w", err)
	}
	p := &Prog{Root: root, Pkgs: map[string]*packages.Package{}, Funcs: map[string]*Func{},
		FuncOf: map[ast.Node]*Func{}, ByObj: map[*types.Func]*Func{}, Initial: initial, Tags: tags}
	for _, pkg := range initial {
		if !strings.HasPrefix(pkg.PkgPath, ModPath) {
			continue
		}
		if len(pkg.Errors) > 0 {
			return nil, fmt.Errorf("package %s has errors: %v", pkg.PkgPath, pkg.Errors[0])
		}
		if pkg.IllTyped {
			return nil, fmt.Errorf("package %s is ill-typed", pkg.PkgPath)
		}
		p.Fset = pkg.Fset
		p.Pkgs[Rel(pkg.PkgPath)] = pkg
		p.All = append(p.All, pkg)
	}
	if len(p.All) == 0 {
		return nil, fmt.Errorf("no module packages loaded from %s", root)
	}
	sort.Slice(p.All, func(i, j int) bool { return p.All[i].PkgPath < p.All[j].PkgPath })
	for _, pkg := range p.All {
		p.index(pkg)
	}
	return p, nil
}

func recvName(fd *ast.FuncDecl) string {
	if fd.Recv == nil || len(fd.Recv.List) == 0 {
		return ""
	}
	t := fd.Recv.List[0].Type
	star := ""
	if s, ok := t.(*ast.StarExpr); ok {
		star = "*"
		t = s.X
	}
	if ix, ok := t.(*ast.IndexExpr); ok {
		t = ix.X
	}
	if id, ok := t.(*ast.Ident); ok {
		if star != "" {
			return "(*" + id.Name + ")"
		}
		return id.Name
	}
	return "?"
}

func (p *Prog) index(pkg *packages.Package) {
	rel := Rel(pkg.PkgPath)
	for _, file := range pkg.Syntax {
		for _, d := range file.Decls {
			fd, ok := d.(*ast.FuncDecl)
			if !ok || fd.Body == nil {
				continue
			}
			name := fd.Name.Name
			if r := recvName(fd); r != "" {
				name = r + "." + name
			}
			key := rel + "." + name
			if _, dup := p.Funcs[key]; dup { // e.g. several init functions
				for i := 2; ; i++ {
					k := fmt.Sprintf("%s#%d", key, i)
					if _, d := p.Funcs[k]; !d {
						key = k
						break
					}
				}
			}
			f := &Func{Key: key, Pkg: pkg, Decl: fd, Body: fd.Body, Type: fd.Type, prog: p}
			if o, ok := pkg.TypesInfo.Defs[fd.Name].(*types.Func); ok {
				f.Obj = o
				p.ByObj[o] = f
			}
			p.Funcs[key] = f
			p.FuncOf[fd] = f
			// literals, pre-order
			n := 0
			var stack []*Func
			stack = append(stack, f)
			var visit func(node ast.Node) bool
			visit = func(node ast.Node) bool {
				lit, ok := node.(*ast.FuncLit)
				if !ok {
					return true
				}
				n++
				lf := &Func{Key: fmt.Sprintf("%s$%d", key, n), Pkg: pkg, Decl: fd, Lit: lit, Body: lit.Body,
					Type: lit.Type, Parent: stack[len(stack)-1], prog: p}
				p.Funcs[lf.Key] = lf
				p.FuncOf[lit] = lf
				f.Lits = append(f.Lits, lf)
				stack = append(stack, lf)
				ast.Inspect(lit.Body, visit)
				stack = stack[:len(stack)-1]
				return false
			}
			ast.Inspect(fd.Body, visit)
		}
	}
}

// Fn returns the function with the given key or nil.
func (p *Prog) Fn(key string) *Func {
	if f := p.Funcs[key]; f != nil {
		return f
	}
	// An unexported type that was exported (or the reverse) is the same anchor: fall back to a
	// case-insensitive match when it is unique.
	var hit *Func
	for k, f := range p.Funcs {
		if strings.EqualFold(k, key) {
			if hit != nil {
				return nil
			}
			hit = f
		}
	}
	return hit
}

// Position renders a position relative to the root.
func (p *Prog) Position(pos token.Pos) string {
	if !pos.IsValid() {
		return "-"
	}
	ps := p.Fset.Position(pos)
	fn := strings.TrimPrefix(ps.Filename, p.Root+"/")
	return fmt.Sprintf("%s:%d:%d", fn, ps.Line, ps.Column)
}

// SortedFuncKeys lists all function keys.
func (p *Prog) SortedFuncKeys() []string {
	ks := make([]string, 0, len(p.Funcs))
	for k := range p.Funcs {
		ks = append(ks, k)
	}
	sort.Strings(ks)
	return ks
}

// IsTestSupport says whether a module package/file is test scaffolding that is
// not part of the shipped binaries.
func (p *Prog) IsTestSupport(f *Func) bool {
	rel := Rel(f.Pkg.PkgPath)
	if rel == "internal/testutil" || rel == "internal/mtail/golden" {
		return true
	}
	fn := p.Fset.Position(f.Pos()).Filename
	// fuzz.go is the go-fuzz harness (build tag gofuzz): it compiles and runs programs on its own, outside the daemon
	return strings.HasSuffix(fn, "/testing.go") || strings.HasSuffix(fn, "/testwaker.go") || strings.HasSuffix(fn, "/fuzz.go")
}
