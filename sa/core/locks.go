package core

import (
	"go/ast"
	"sort"
	"strings"

	"golang.org/x/tools/go/cfg"
)

// LockEv is an acquire or release of a sync.Mutex / sync.RWMutex.
type LockEv struct {
	Path     string // access path of the mutex owner, e.g. "m" (embedded) or "s.searchMu"
	Mode     string // "W" or "R"
	Acquire  bool
	Deferred bool // the call is the operand of a defer statement (or inside a deferred literal)
	P        Point
	Call     *ast.CallExpr
	Ordinal  int // k-th event of the same (Path, Mode, Acquire) in source order, from 1
}

var lockMethods = map[string]struct {
	mode    string
	acquire bool
}{
	"sync.(*Mutex).Lock":      {"W", true},
	"sync.(*Mutex).Unlock":    {"W", false},
	"sync.(*RWMutex).Lock":    {"W", true},
	"sync.(*RWMutex).Unlock":  {"W", false},
	"sync.(*RWMutex).RLock":   {"R", true},
	"sync.(*RWMutex).RUnlock": {"R", false},
}

// LockEvents lists the lock events of a function body in source order.  A
// release inside a function literal that is the operand of a defer statement
// is attributed to the defer statement's point.
func (g *Graph) LockEvents() []LockEv {
	var out []LockEv
	f := g.F
	add := func(p Point, call *ast.CallExpr, deferred bool) {
		lm, ok := lockMethods[f.CalleeID(call)]
		if !ok {
			return
		}
		recv := RecvExpr(call)
		if recv == nil {
			return
		}
		out = append(out, LockEv{Path: PathOf(recv), Mode: lm.mode, Acquire: lm.acquire, Deferred: deferred, P: p, Call: call})
	}
	for _, b := range g.C.Blocks {
		if !b.Live {
			continue
		}
		for i, n := range b.Nodes {
			p := Point{b, i}
			ds, isDefer := n.(*ast.DeferStmt)
			InspectNoLit(n, func(x ast.Node) bool {
				if c, ok := x.(*ast.CallExpr); ok {
					add(p, c, isDefer)
				}
				return true
			})
			if isDefer {
				if lit, ok := Unparen(ds.Call.Fun).(*ast.FuncLit); ok {
					ast.Inspect(lit.Body, func(x ast.Node) bool {
						if c, ok := x.(*ast.CallExpr); ok {
							add(p, c, true)
						}
						return true
					})
				}
			}
		}
	}
	sort.SliceStable(out, func(i, j int) bool { return out[i].Call.Pos() < out[j].Call.Pos() })
	cnt := map[string]int{}
	for i := range out {
		k := out[i].Path + "|" + out[i].Mode
		if out[i].Acquire {
			k += "|a"
		}
		cnt[k]++
		out[i].Ordinal = cnt[k]
	}
	return out
}

// Held is the must-hold lockset ("path:mode") at every point of a function.
type Held struct {
	g   *Graph
	in  map[*cfg.Block]map[string]bool
	evs map[Point][]LockEv
}

func (ev LockEv) key() string { return ev.Path + ":" + ev.Mode }

// MustHold computes, by forward dataflow with intersection at joins, the set
// of locks certainly held at each point.  initial is the set held on entry.
func (g *Graph) MustHold(initial ...string) *Held {
	h := &Held{g: g, in: map[*cfg.Block]map[string]bool{}, evs: map[Point][]LockEv{}}
	for _, ev := range g.LockEvents() {
		if ev.Deferred {
			continue // a deferred release keeps the lock until exit
		}
		h.evs[ev.P] = append(h.evs[ev.P], ev)
	}
	var live []*cfg.Block
	for _, b := range g.C.Blocks {
		if b.Live {
			live = append(live, b)
		}
	}
	preds := map[*cfg.Block][]*cfg.Block{}
	for _, b := range live {
		for _, s := range b.Succs {
			preds[s] = append(preds[s], b)
		}
	}
	out := map[*cfg.Block]map[string]bool{}
	top := map[*cfg.Block]bool{} // not yet computed = universe
	for _, b := range live {
		top[b] = true
	}
	entry := g.C.Blocks[0]
	init := map[string]bool{}
	for _, k := range initial {
		init[k] = true
	}
	transfer := func(b *cfg.Block, in map[string]bool) map[string]bool {
		cur := map[string]bool{}
		for k := range in {
			cur[k] = true
		}
		for i := range b.Nodes {
			for _, ev := range h.evs[Point{b, i}] {
				if ev.Acquire {
					cur[ev.key()] = true
				} else {
					delete(cur, ev.key())
				}
			}
		}
		return cur
	}
	changed := true
	for iter := 0; changed && iter < 1000; iter++ {
		changed = false
		for _, b := range live {
			var in map[string]bool
			if b == entry {
				in = init
			} else {
				first := true
				for _, p := range preds[b] {
					if top[p] {
						continue
					}
					if first {
						in = map[string]bool{}
						for k := range out[p] {
							in[k] = true
						}
						first = false
					} else {
						for k := range in {
							if !out[p][k] {
								delete(in, k)
							}
						}
					}
				}
				if first {
					continue // no computed predecessor yet
				}
			}
			o := transfer(b, in)
			if top[b] || !sameSet(o, out[b]) || !sameSet(in, h.in[b]) {
				top[b] = false
				out[b] = o
				h.in[b] = in
				changed = true
			}
		}
	}
	return h
}

func sameSet(a, b map[string]bool) bool {
	if len(a) != len(b) {
		return false
	}
	for k := range a {
		if !b[k] {
			return false
		}
	}
	return true
}

// At returns the locks certainly held just before the node at p executes.
func (h *Held) At(p Point) map[string]bool {
	cur := map[string]bool{}
	for k := range h.in[p.B] {
		cur[k] = true
	}
	for i := 0; i < p.I && i < len(p.B.Nodes); i++ {
		for _, ev := range h.evs[Point{p.B, i}] {
			if ev.Acquire {
				cur[ev.key()] = true
			} else {
				delete(cur, ev.key())
			}
		}
	}
	return cur
}

// Holds says whether path is held in at least the given mode ("R" is
// satisfied by "W").
func Holds(set map[string]bool, path, mode string) bool {
	if set[path+":W"] {
		return true
	}
	return mode == "R" && set[path+":R"]
}

// SetString renders a lockset.
func SetString(set map[string]bool) string {
	var ks []string
	for k := range set {
		ks = append(ks, k)
	}
	sort.Strings(ks)
	return "{" + strings.Join(ks, ",") + "}"
}

// PointOf finds the CFG point whose node contains n (not entering literals).
func (g *Graph) PointOf(n ast.Node) (Point, bool) {
	for _, b := range g.C.Blocks {
		if !b.Live {
			continue
		}
		for i, x := range b.Nodes {
			if x.Pos() <= n.Pos() && n.End() <= x.End() {
				found := false
				InspectNoLit(x, func(y ast.Node) bool {
					if y == n {
						found = true
					}
					return !found
				})
				if found {
					return Point{b, i}, true
				}
			}
		}
	}
	return Point{}, false
}
