package core

import (
	"bufio"
	"encoding/json"
	"fmt"
	"os"
	"path/filepath"
	"sort"
	"strings"
	"time"
)

// Status of an obligation.
type Status string

const (
	OK        Status = "ok"
	Violation Status = "violation"
	Undecided Status = "undecided"
	Note      Status = "note"
)

// Obligation is one rule instance and its verdict.
type Obligation struct {
	Rule      string   `json:"rule"`
	Construct string   `json:"construct"` // stable key: function + slot values + ordinal; never a line number
	Pos       string   `json:"pos"`
	Status    Status   `json:"status"`
	Detail    string   `json:"detail,omitempty"`
	Path      []string `json:"path,omitempty"`
	Known     string   `json:"known_finding,omitempty"`
}

// Finding is a line of known_findings.jsonl.
type Finding struct {
	Status    string `json:"status"` // "known" or "fixed"
	Property  string `json:"property"`
	Rule      string `json:"rule"`
	Construct string `json:"construct"`
	What      string `json:"what"`
	Commit    string `json:"commit,omitempty"`
}

// Check collects the obligations of one property run.
type Check struct {
	Property string
	Tier     string
	Seed     int64
	Level    string
	Prog     *Prog
	Obs      []*Obligation
	floors   []floor
	Rules    map[string]string // rule id -> text
	ruleOrd  []string
	Assume   []string
	Explain  string
	Extra    map[string]any
	start    time.Time
	VerifDir string
	funcs    map[string]bool
	exempt   map[string]string
}

// Exempt registers a reasoned exception for exactly one construct of one
// rule: a failing obligation with that key is reported as a note carrying the
// reason instead of a violation.
func (c *Check) Exempt(rule, construct, reason string) {
	if c.exempt == nil {
		c.exempt = map[string]string{}
	}
	c.exempt[rule+"|"+construct] = reason
}

type floor struct {
	rule string
	n    int
}

func NewCheck(prop, tier string, p *Prog, verifDir string) *Check {
	seed := int64(0)
	fmt.Sscan(os.Getenv("VERIF_SEED"), &seed)
	return &Check{Property: prop, Tier: tier, Seed: seed, Level: "other", Prog: p, Rules: map[string]string{},
		Extra: map[string]any{}, start: time.Now(), VerifDir: verifDir, funcs: map[string]bool{}}
}

// Rule registers the text of a rule.
func (c *Check) Rule(id, text string) {
	if _, ok := c.Rules[id]; !ok {
		c.ruleOrd = append(c.ruleOrd, id)
	}
	c.Rules[id] = text
}

// Analysed records that a function body was inspected.
func (c *Check) Analysed(fs ...*Func) {
	for _, f := range fs {
		if f != nil {
			c.funcs[f.Key] = true
		}
	}
}

func (c *Check) add(rule, construct, pos string, st Status, detail string, path []string) *Obligation {
	// make construct keys unique per rule by ordinal suffix
	base := construct
	n := 1
	for _, o := range c.Obs {
		if o.Rule == rule && (o.Construct == construct) {
			n++
			construct = fmt.Sprintf("%s #%d", base, n)
		}
	}
	if st == Violation {
		if why, ok := c.exempt[rule+"|"+construct]; ok {
			st = Note
			detail = "reasoned exception: " + why + " (rule reported: " + detail + ")"
			path = nil
		}
	}
	o := &Obligation{Rule: rule, Construct: construct, Pos: pos, Status: st, Detail: detail, Path: path}
	c.Obs = append(c.Obs, o)
	return o
}

func (c *Check) Ok(rule, construct, pos, detail string) {
	c.add(rule, construct, pos, OK, detail, nil)
}
func (c *Check) Fail(rule, construct, pos, detail string, path ...string) {
	c.add(rule, construct, pos, Violation, detail, path)
}
func (c *Check) Undecided(rule, construct, pos, detail string) {
	c.add(rule, construct, pos, Undecided, detail, nil)
}
func (c *Check) Note(rule, construct, pos, detail string) {
	c.add(rule, construct, pos, Note, detail, nil)
}

// Verdict records ok or violation.
func (c *Check) Verdict(ok bool, rule, construct, pos, okDetail, failDetail string, path ...string) {
	if ok {
		c.Ok(rule, construct, pos, okDetail)
	} else {
		c.Fail(rule, construct, pos, failDetail, path...)
	}
}

// Floor demands at least n instances (obligations of any status) of rule.
func (c *Check) Floor(rule string, n int) { c.floors = append(c.floors, floor{rule, n}) }

// MustFn resolves a function key; an unresolved anchor is an undecided obligation.
func (c *Check) MustFn(rule, key string) *Func {
	f := c.Prog.Fn(key)
	if f == nil {
		c.Undecided(rule, key, "-", "anchor function not found in the loaded program")
		return nil
	}
	c.Analysed(f)
	return f
}

func loadFindings(path string) ([]Finding, error) {
	fh, err := os.Open(path)
	if err != nil {
		if os.IsNotExist(err) {
			return nil, nil
		}
		return nil, err
	}
	defer fh.Close()
	var out []Finding
	sc := bufio.NewScanner(fh)
	sc.Buffer(make([]byte, 1<<20), 1<<20)
	for sc.Scan() {
		line := strings.TrimSpace(sc.Text())
		if line == "" || strings.HasPrefix(line, "#") {
			continue
		}
		var f Finding
		if err := json.Unmarshal([]byte(line), &f); err != nil {
			return nil, fmt.Errorf("known_findings: %v in %q", err, line)
		}
		out = append(out, f)
	}
	return out, sc.Err()
}

// Finish evaluates floors, matches known findings, writes evidence and
// replay files, prints the verdict lines and returns the exit code.
func (c *Check) Finish() int {
	counts := map[string]int{}
	for _, o := range c.Obs {
		counts[o.Rule]++
	}
	for _, fl := range c.floors {
		if counts[fl.rule] < fl.n {
			c.Undecided(fl.rule, "floor", "-", fmt.Sprintf("rule went vacuous: %d instances found, at least %d were confirmed by reading", counts[fl.rule], fl.n))
		}
	}
	findings, err := loadFindings(filepath.Join(c.VerifDir, "known_findings.jsonl"))
	if err != nil {
		fmt.Println("ERROR:", err)
		return 2
	}
	known := map[string]Finding{}
	for _, f := range findings {
		if f.Status == "known" && f.Property == c.Property {
			known[f.Rule+"|"+f.Construct] = f
		}
	}
	nviol, nund, nknown := 0, 0, 0
	replayDir := filepath.Join(c.VerifDir, "evidence", "replay")
	var lines []string
	for _, o := range c.Obs {
		switch o.Status {
		case Violation:
			if f, ok := known[o.Rule+"|"+o.Construct]; ok {
				o.Known = f.What
				nknown++
				lines = append(lines, fmt.Sprintf("KNOWN-FINDING: property=%s %s [%s %s @ %s]", c.Property, f.What, o.Rule, o.Construct, o.Pos))
				continue
			}
			nviol++
			os.MkdirAll(replayDir, 0o755)
			rp := filepath.Join(replayDir, fmt.Sprintf("%s-%d.json", c.Property, nviol))
			b, _ := json.MarshalIndent(map[string]any{"property": c.Property, "obligation": o, "rule_text": c.Rules[o.Rule], "root": c.Prog.Root}, "", " ")
			os.WriteFile(rp, b, 0o644)
			fmt.Printf("FAILED %s %s at %s: %s\n", o.Rule, o.Construct, o.Pos, o.Detail)
			for _, p := range o.Path {
				fmt.Printf("    via %s\n", p)
			}
			lines = append(lines, fmt.Sprintf("VIOLATION property=%s replay=%s", c.Property, rp))
		case Undecided:
			nund++
			lines = append(lines, fmt.Sprintf("UNDECIDED property=%s rule=%s construct=%s at %s: %s", c.Property, o.Rule, o.Construct, o.Pos, o.Detail))
		}
	}
	c.writeEvidence(counts, nviol, nund, nknown)
	// summary
	var rules []string
	for r := range counts {
		rules = append(rules, r)
	}
	sort.Strings(rules)
	fmt.Printf("%s tier=%s root=%s: %d functions analysed, %d obligations over %d rules\n", c.Property, c.Tier, c.Prog.Root, len(c.funcs), len(c.Obs), len(rules))
	for _, r := range rules {
		ok, bad, und, note := 0, 0, 0, 0
		for _, o := range c.Obs {
			if o.Rule != r {
				continue
			}
			switch o.Status {
			case OK:
				ok++
			case Violation:
				bad++
			case Undecided:
				und++
			case Note:
				note++
			}
		}
		fmt.Printf("  %-8s instances=%d ok=%d failed=%d undecided=%d notes=%d\n", r, counts[r], ok, bad, und, note)
	}
	for _, l := range lines {
		fmt.Println(l)
	}
	switch {
	case nviol > 0:
		return 1
	case nund > 0:
		return 2
	}
	fmt.Printf("PASS property=%s (known findings matched: %d)\n", c.Property, nknown)
	return 0
}

func (c *Check) writeEvidence(counts map[string]int, nviol, nund, nknown int) {
	discharged := 0
	distinct := map[string]bool{}
	var samples []any
	perRule := map[string]map[string]int{}
	for _, o := range c.Obs {
		if perRule[o.Rule] == nil {
			perRule[o.Rule] = map[string]int{}
		}
		perRule[o.Rule][string(o.Status)]++
		if o.Status == OK || o.Status == Note || (o.Status == Violation && o.Known != "") {
			discharged++
		}
		if o.Status != Note {
			distinct[o.Rule+"|"+o.Construct] = true
		}
	}
	// samples: every non-ok obligation plus the first two ok per rule
	seen := map[string]int{}
	for _, o := range c.Obs {
		if o.Status == OK {
			seen[o.Rule]++
			if seen[o.Rule] > 2 {
				continue
			}
		}
		samples = append(samples, o)
	}
	floors := map[string]int{}
	for _, f := range c.floors {
		floors[f.rule] = f.n
	}
	var fns []string
	for k := range c.funcs {
		fns = append(fns, k)
	}
	sort.Strings(fns)
	ruleTexts := []string{}
	for _, id := range c.ruleOrd {
		ruleTexts = append(ruleTexts, id+": "+c.Rules[id])
	}
	cov := map[string]any{
		"explanation":            c.Explain,
		"obligations":            len(c.Obs),
		"discharged":             discharged,
		"evaluations":            len(c.Obs),
		"distinct_nontrivial":    len(distinct),
		"rule":                   "one obligation per rule instance found in /repo's current source (key = rule + construct, never a line); distinct = distinct (rule, construct) pairs that are not mere notes. Rules: " + strings.Join(ruleTexts, " || "),
		"samples":                samples,
		"per_rule":               perRule,
		"floors":                 floors,
		"functions_analysed":     fns,
		"packages_loaded":        len(c.Prog.All),
		"known_findings_matched": nknown,
		"undecided":              nund,
		"checker_cmd":            fmt.Sprintf("bin/mtailsa check -property %s -tier %s", c.Property, c.Tier),
		"trusted_base":           []string{"go/types, go/packages, golang.org/x/tools v0.29.0 go/cfg (and go/ssa where used)", "the rule slot extraction printed in samples", "documented behaviour of the Go standard library and third-party packages"},
		"exhaustive":             true,
		"build_tags":             c.Prog.Tags,
	}
	for k, v := range c.Extra {
		cov[k] = v
	}
	ev := map[string]any{
		"property_id": c.Property,
		"tier":        c.Tier,
		"seed":        c.Seed,
		"level":       c.Level,
		"coverage":    cov,
		"assumptions": c.Assume,
		"wall_s":      time.Since(c.start).Seconds(),
		"violations":  nviol,
	}
	b, _ := json.MarshalIndent(ev, "", " ")
	dir := filepath.Join(c.VerifDir, "evidence")
	os.MkdirAll(dir, 0o755)
	os.WriteFile(filepath.Join(dir, c.Property+".json"), b, 0o644)
}
