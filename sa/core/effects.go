package core

import (
	"go/ast"
)

// Callees lists the module functions called (statically resolved) from f's
// body, including calls made inside its nested function literals.
func (f *Func) Callees() []*Func {
	seen := map[*Func]bool{}
	var out []*Func
	ast.Inspect(f.Body, func(n ast.Node) bool {
		if c, ok := n.(*ast.CallExpr); ok {
			if cf := f.CalleeFunc(c); cf != nil && !seen[cf] {
				seen[cf] = true
				out = append(out, cf)
			}
		}
		return true
	})
	return out
}

// Reaching computes the set of declared functions whose body — or the body of
// a function they (transitively, through statically resolved calls) call —
// satisfies local.  Function literals are part of their enclosing declaration.
func (p *Prog) Reaching(local func(f *Func) bool) map[*Func]bool {
	res := map[*Func]bool{}
	var decls []*Func
	for _, k := range p.SortedFuncKeys() {
		f := p.Funcs[k]
		if f.Lit == nil {
			decls = append(decls, f)
			if local(f) {
				res[f] = true
			}
		}
	}
	for changed := true; changed; {
		changed = false
		for _, f := range decls {
			if res[f] {
				continue
			}
			for _, c := range f.Callees() {
				if res[c] {
					res[f] = true
					changed = true
					break
				}
			}
		}
	}
	return res
}
