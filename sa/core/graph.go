package core

import (
	"fmt"
	"go/ast"
	"go/token"
	"go/types"
	"strings"

	"golang.org/x/tools/go/cfg"
	"golang.org/x/tools/go/types/typeutil"
)

// Point is a position in a control-flow graph: node I of block B.
// I == len(B.Nodes) denotes the virtual point at the end of the block.
type Point struct {
	B *cfg.Block
	I int
}

func (p Point) Node() ast.Node {
	if p.B == nil || p.I >= len(p.B.Nodes) {
		return nil
	}
	return p.B.Nodes[p.I]
}

// Graph is the CFG of one function body.
type Graph struct {
	F *Func
	C *cfg.CFG
}

// noReturn lists functions that never return.
var noReturn = map[string]bool{
	"os.Exit": true, "log.Fatal": true, "log.Fatalf": true, "log.Fatalln": true, "log.Panic": true, "log.Panicf": true,
	"github.com/golang/glog.Fatal": true, "github.com/golang/glog.Fatalf": true, "github.com/golang/glog.Fatalln": true,
	"github.com/golang/glog.Exit": true, "github.com/golang/glog.Exitf": true, "github.com/golang/glog.Exitln": true,
	"runtime.Goexit": true,
}

// Graph builds (once) the CFG of f.
func (f *Func) Graph() *Graph {
	if f.g != nil {
		return f.g
	}
	info := f.Info()
	mayReturn := func(call *ast.CallExpr) bool {
		if id, ok := call.Fun.(*ast.Ident); ok && id.Name == "panic" {
			if _, isB := info.Uses[id].(*types.Builtin); isB {
				return false
			}
		}
		return !noReturn[FuncID(typeutil.Callee(info, call))]
	}
	f.g = &Graph{F: f, C: cfg.New(f.Body, mayReturn)}
	return f.g
}

// Entry is the first point of the function.
func (g *Graph) Entry() Point { return Point{g.C.Blocks[0], 0} }

// Exit is a way of leaving the function.
type Exit struct {
	P       Point
	Kind    string          // "return", "end" (falls off the end) or "panic"
	Ret     *ast.ReturnStmt // for Kind=="return"
	Ordinal int             // k-th exit of that kind in source order, from 1
}

func (e Exit) String() string { return fmt.Sprintf("%s#%d", e.Kind, e.Ordinal) }

// Exits lists the live exits of the function in source order.
func (g *Graph) Exits() []Exit {
	var out []Exit
	for _, b := range g.C.Blocks {
		if !b.Live || len(b.Succs) > 0 {
			continue
		}
		if b.Kind == cfg.KindSelectAfterCase && len(b.Nodes) == 0 {
			continue // "no case ready" of a select without default: blocks, not an exit
		}
		if n := len(b.Nodes); n > 0 {
			if r, ok := b.Nodes[n-1].(*ast.ReturnStmt); ok {
				out = append(out, Exit{P: Point{b, n - 1}, Kind: "return", Ret: r})
				continue
			}
			if es, ok := b.Nodes[n-1].(*ast.ExprStmt); ok {
				if c, ok := es.X.(*ast.CallExpr); ok {
					id := FuncID(typeutil.Callee(g.F.Info(), c))
					if noReturn[id] || id == "builtin.panic" {
						out = append(out, Exit{P: Point{b, n - 1}, Kind: "panic"})
						continue
					}
				}
			}
		}
		out = append(out, Exit{P: Point{b, len(b.Nodes)}, Kind: "end"})
	}
	pos := func(e Exit) token.Pos {
		if n := e.P.Node(); n != nil {
			return n.Pos()
		}
		return g.F.Body.End()
	}
	for i := 1; i < len(out); i++ {
		for j := i; j > 0 && pos(out[j]) < pos(out[j-1]); j-- {
			out[j], out[j-1] = out[j-1], out[j]
		}
	}
	cnt := map[string]int{}
	for i := range out {
		cnt[out[i].Kind]++
		out[i].Ordinal = cnt[out[i].Kind]
	}
	return out
}

// Hit is a sub-node found inside a CFG node.
type Hit struct {
	P       Point
	N       ast.Node
	InDefer bool // inside a defer statement (call operands, not literal bodies)
	InGo    bool
}

// Find returns, in CFG block order, every node (searched inside each CFG node
// without entering function literals) for which pred holds.
func (g *Graph) Find(pred func(n ast.Node) bool) []Hit {
	var out []Hit
	for _, b := range g.C.Blocks {
		if !b.Live {
			continue
		}
		for i, n := range b.Nodes {
			inDefer, inGo := false, false
			switch n.(type) {
			case *ast.DeferStmt:
				inDefer = true
			case *ast.GoStmt:
				inGo = true
			}
			InspectNoLit(n, func(x ast.Node) bool {
				if pred(x) {
					out = append(out, Hit{P: Point{b, i}, N: x, InDefer: inDefer, InGo: inGo})
				}
				return true
			})
		}
	}
	// source order
	for i := 1; i < len(out); i++ {
		for j := i; j > 0 && out[j].N.Pos() < out[j-1].N.Pos(); j-- {
			out[j], out[j-1] = out[j-1], out[j]
		}
	}
	return out
}

// InspectNoLit walks n without entering function literals.  A RangeStmt,
// IfStmt etc. never appears as a CFG node, so only expressions and simple
// statements are seen.
func InspectNoLit(n ast.Node, f func(ast.Node) bool) {
	ast.Inspect(n, func(x ast.Node) bool {
		if x == nil {
			return false
		}
		if _, ok := x.(*ast.FuncLit); ok {
			f(x)
			return false
		}
		return f(x)
	})
}

// Query describes a path search.
type Query struct {
	From      *Point                            // search starts just after this point; nil = function entry
	Goal      func(Point) bool                  // a path ends successfully at the first point satisfying Goal
	Avoid     func(Point) bool                  // paths may not pass through such a point (tested before Goal)
	AvoidEdge func(b *cfg.Block, succ int) bool // paths may not follow such an edge
}

// Search looks for a path.  It returns the block trail of the witness.
func (g *Graph) Search(q Query) ([]*cfg.Block, bool) {
	type item struct {
		b    *cfg.Block
		i    int
		prev *item
	}
	trail := func(it *item) []*cfg.Block {
		var r []*cfg.Block
		for ; it != nil; it = it.prev {
			r = append([]*cfg.Block{it.b}, r...)
		}
		return r
	}
	seen := map[*cfg.Block]bool{}
	var queue []*item
	if q.From == nil {
		queue = append(queue, &item{b: g.C.Blocks[0], i: 0})
		seen[g.C.Blocks[0]] = true
	} else {
		queue = append(queue, &item{b: q.From.B, i: q.From.I + 1})
	}
	for len(queue) > 0 {
		it := queue[0]
		queue = queue[1:]
		blocked := false
		for i := it.i; i <= len(it.b.Nodes); i++ {
			p := Point{it.b, i}
			if q.Avoid != nil && q.Avoid(p) {
				blocked = true
				break
			}
			if q.Goal != nil && q.Goal(p) {
				return trail(it), true
			}
		}
		if blocked {
			continue
		}
		for si, s := range it.b.Succs {
			if q.AvoidEdge != nil && q.AvoidEdge(it.b, si) {
				continue
			}
			if seen[s] {
				continue
			}
			seen[s] = true
			queue = append(queue, &item{b: s, i: 0, prev: it})
		}
	}
	return nil, false
}

// At builds a predicate true exactly at the given points.
func At(ps ...Point) func(Point) bool {
	m := map[Point]bool{}
	for _, p := range ps {
		m[p] = true
	}
	return func(p Point) bool { return m[p] }
}

// HitPoints extracts the points of hits.
func HitPoints(hs []Hit) []Point {
	var r []Point
	for _, h := range hs {
		r = append(r, h.P)
	}
	return r
}

// ExitPoints extracts the points of exits.
func ExitPoints(es []Exit) []Point {
	var r []Point
	for _, e := range es {
		r = append(r, e.P)
	}
	return r
}

// Or combines predicates.
func Or(fs ...func(Point) bool) func(Point) bool {
	return func(p Point) bool {
		for _, f := range fs {
			if f != nil && f(p) {
				return true
			}
		}
		return false
	}
}

// Trail renders a block trail as source lines.
func (g *Graph) Trail(bs []*cfg.Block) []string {
	var r []string
	for _, b := range bs {
		pos := "-"
		if len(b.Nodes) > 0 {
			pos = g.F.prog.Position(b.Nodes[0].Pos())
		} else if b.Stmt != nil {
			pos = g.F.prog.Position(b.Stmt.Pos())
		}
		r = append(r, fmt.Sprintf("%s(%s)", b.Kind, pos))
	}
	return r
}

// CondBlock returns the block whose last node is the condition of s,
// whose Succs[0] is the then-branch and Succs[1] the else/done branch.
func (g *Graph) CondBlock(s *ast.IfStmt) *cfg.Block {
	for _, b := range g.C.Blocks {
		if n := len(b.Nodes); n > 0 && b.Nodes[n-1] == ast.Node(s.Cond) && len(b.Succs) == 2 {
			return b
		}
	}
	return nil
}

// EnclosingIfs returns the if statements of the function (not entering
// literals) whose then- or else-branch lexically contains pos, innermost last,
// with the branch taken.
type IfCtx struct {
	If     *ast.IfStmt
	InThen bool
}

func (f *Func) EnclosingIfs(pos token.Pos) []IfCtx {
	var out []IfCtx
	var walk func(n ast.Node)
	walk = func(n ast.Node) {
		ast.Inspect(n, func(x ast.Node) bool {
			if x == nil {
				return false
			}
			if lit, ok := x.(*ast.FuncLit); ok && lit != f.Lit {
				return false
			}
			if is, ok := x.(*ast.IfStmt); ok {
				if is.Body.Pos() <= pos && pos < is.Body.End() {
					out = append(out, IfCtx{is, true})
				} else if is.Else != nil && is.Else.Pos() <= pos && pos < is.Else.End() {
					out = append(out, IfCtx{is, false})
				}
			}
			return true
		})
	}
	walk(f.Body)
	return out
}

// FuncID names a callee: "sync.(*RWMutex).RLock", "internal/metrics.(*Store).Add"
// (module packages relative to the module), "builtin.close", or "" if unknown.
func FuncID(obj types.Object) string {
	switch o := obj.(type) {
	case *types.Builtin:
		return "builtin." + o.Name()
	case *types.Func:
		pkg := ""
		if o.Pkg() != nil {
			pkg = Rel(o.Pkg().Path())
		}
		sig, _ := o.Type().(*types.Signature)
		if sig != nil && sig.Recv() != nil {
			t := sig.Recv().Type()
			star := false
			if p, ok := t.(*types.Pointer); ok {
				t = p.Elem()
				star = true
			}
			name := "?"
			switch tt := t.(type) {
			case *types.Named:
				name = tt.Obj().Name()
				if tt.Obj().Pkg() != nil {
					pkg = Rel(tt.Obj().Pkg().Path())
				}
			case *types.Interface:
				name = "interface"
			}
			if star {
				return fmt.Sprintf("%s.(*%s).%s", pkg, name, o.Name())
			}
			return fmt.Sprintf("%s.%s.%s", pkg, name, o.Name())
		}
		return pkg + "." + o.Name()
	}
	return ""
}

// CalleeID resolves the callee of call.
func (f *Func) CalleeID(call *ast.CallExpr) string {
	return FuncID(typeutil.Callee(f.Info(), call))
}

// CalleeFunc resolves a call to a function of the module, or nil.
func (f *Func) CalleeFunc(call *ast.CallExpr) *Func {
	if o, ok := typeutil.Callee(f.Info(), call).(*types.Func); ok {
		return f.prog.ByObj[o.Origin()]
	}
	return nil
}

// Unparen strips parentheses.
func Unparen(e ast.Expr) ast.Expr {
	for {
		p, ok := e.(*ast.ParenExpr)
		if !ok {
			return e
		}
		e = p.X
	}
}

// PathOf renders an access path: identifiers, selectors, indexes; *x and &x
// are transparent.  Other expressions are rendered with types.ExprString.
func PathOf(e ast.Expr) string {
	switch x := Unparen(e).(type) {
	case *ast.Ident:
		return x.Name
	case *ast.SelectorExpr:
		return PathOf(x.X) + "." + x.Sel.Name
	case *ast.StarExpr:
		return PathOf(x.X)
	case *ast.UnaryExpr:
		if x.Op == token.AND {
			return PathOf(x.X)
		}
	case *ast.IndexExpr:
		return PathOf(x.X) + "[" + types.ExprString(x.Index) + "]"
	}
	return types.ExprString(e)
}

// Recv returns the receiver expression of a method call, or nil.
func RecvExpr(call *ast.CallExpr) ast.Expr {
	if s, ok := Unparen(call.Fun).(*ast.SelectorExpr); ok {
		return s.X
	}
	return nil
}

// Calls finds calls whose callee id satisfies match.
func (g *Graph) Calls(match func(id string, call *ast.CallExpr) bool) []Hit {
	return g.Find(func(n ast.Node) bool {
		c, ok := n.(*ast.CallExpr)
		if !ok {
			return false
		}
		return match(g.F.CalleeID(c), c)
	})
}

// CallsTo finds calls to any of the given callee ids.
func (g *Graph) CallsTo(ids ...string) []Hit {
	return g.Calls(func(id string, _ *ast.CallExpr) bool {
		for _, x := range ids {
			if id == x {
				return true
			}
		}
		return false
	})
}

// HasSuffixAny reports whether s ends in one of the suffixes.
func HasSuffixAny(s string, suf ...string) bool {
	for _, x := range suf {
		if strings.HasSuffix(s, x) {
			return true
		}
	}
	return false
}

// Cnt is the minimum and maximum number of events on the paths reaching a
// point, both capped at 2 ("many").
type Cnt struct{ Min, Max int }

func (c Cnt) String() string {
	f := func(n int) string {
		if n >= 2 {
			return "many"
		}
		return fmt.Sprint(n)
	}
	if c.Min == c.Max {
		return f(c.Min)
	}
	return f(c.Min) + ".." + f(c.Max)
}

// Counter holds the result of a Count dataflow.
type Counter struct {
	g      *Graph
	in     map[*cfg.Block]Cnt
	events map[Point]int
	start  Point
}

// Count computes, for every point reachable from start (nil: function entry;
// otherwise the search starts just after the point, a point with I == -1
// denotes the beginning of its block), the minimum and maximum number of event
// points passed on the way.  Blocks in stop are not left.
func (g *Graph) Count(start *Point, events []Point, stop map[*cfg.Block]bool) *Counter {
	c := &Counter{g: g, in: map[*cfg.Block]Cnt{}, events: map[Point]int{}}
	for _, e := range events {
		c.events[e]++
	}
	sb, si := g.C.Blocks[0], 0
	if start != nil {
		sb, si = start.B, start.I+1
	}
	c.start = Point{sb, si}
	out := func(b *cfg.Block, in Cnt, from int) Cnt {
		for i := from; i < len(b.Nodes); i++ {
			n := c.events[Point{b, i}]
			in.Min += n
			in.Max += n
		}
		if in.Min > 2 {
			in.Min = 2
		}
		if in.Max > 2 {
			in.Max = 2
		}
		return in
	}
	type st struct {
		c   Cnt
		set bool
	}
	in := map[*cfg.Block]*st{}
	// the start block's tail is a pseudo source
	work := []*cfg.Block{}
	push := func(b *cfg.Block, v Cnt) {
		s := in[b]
		if s == nil {
			in[b] = &st{v, true}
			work = append(work, b)
			return
		}
		nv := s.c
		if v.Min < nv.Min {
			nv.Min = v.Min
		}
		if v.Max > nv.Max {
			nv.Max = v.Max
		}
		if nv != s.c {
			s.c = nv
			work = append(work, b)
		}
	}
	srcOut := out(sb, Cnt{}, si)
	if !stop[sb] || start == nil {
		for _, s := range sb.Succs {
			push(s, srcOut)
		}
	}
	for len(work) > 0 {
		b := work[0]
		work = work[1:]
		if stop[b] {
			continue
		}
		o := out(b, in[b].c, 0)
		for _, s := range b.Succs {
			push(s, o)
		}
	}
	for b, s := range in {
		c.in[b] = s.c
	}
	return c
}

// At returns the count just before the node at p executes; ok is false when
// p is not reachable from the start.
func (c *Counter) At(p Point) (Cnt, bool) {
	var base Cnt
	from := 0
	viaIn, reach := c.in[p.B]
	inStartTail := p.B == c.start.B && p.I >= c.start.I
	if !reach && !inStartTail {
		return Cnt{}, false
	}
	res := Cnt{Min: 99, Max: -1}
	merge := func(v Cnt) {
		if v.Min < res.Min {
			res.Min = v.Min
		}
		if v.Max > res.Max {
			res.Max = v.Max
		}
	}
	walk := func(b Cnt, from int) Cnt {
		for i := from; i < p.I && i < len(p.B.Nodes); i++ {
			n := c.events[Point{p.B, i}]
			b.Min += n
			b.Max += n
		}
		if b.Min > 2 {
			b.Min = 2
		}
		if b.Max > 2 {
			b.Max = 2
		}
		return b
	}
	if reach {
		merge(walk(viaIn, from))
	}
	if inStartTail {
		merge(walk(base, c.start.I))
	}
	return res, true
}
