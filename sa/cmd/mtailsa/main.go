// Command mtailsa decides structural clauses of mtail's semantic properties by
// static analysis of the source under -root.
package main

import (
	"flag"
	"fmt"
	"os"
	"path/filepath"
	"strings"

	"verif/sa/core"
	"verif/sa/props"
)

func main() {
	if len(os.Args) < 2 {
		fmt.Println("usage: mtailsa check -property Cnn [-tier quick|thorough] [-root /repo] | list")
		os.Exit(2)
	}
	switch os.Args[1] {
	case "list":
		fmt.Println(strings.Join(props.IDs(), " "))
	case "check":
		fs := flag.NewFlagSet("check", flag.ExitOnError)
		prop := fs.String("property", "", "property id, or 'all'")
		tier := fs.String("tier", os.Getenv("VERIF_TIER"), "quick or thorough")
		root := fs.String("root", "/repo", "source tree to analyse")
		verif := fs.String("verif", "", "verif directory (default: parent of the binary's directory)")
		tags := fs.String("tags", "", "build tags")
		goarch := fs.String("goarch", "", "GOARCH")
		fs.Parse(os.Args[2:])
		if *tier != "thorough" {
			*tier = "quick"
		}
		if *verif == "" {
			exe, _ := os.Executable()
			*verif = filepath.Dir(filepath.Dir(exe))
		}
		os.Exit(run(*prop, *tier, *root, *verif, *tags, *goarch))
	case "cfg":
		p, err := core.Load("/repo", "", "", false)
		if err != nil {
			fmt.Println(err)
			os.Exit(2)
		}
		f := p.Fn(os.Args[2])
		if f == nil {
			fmt.Println("no such function; keys containing it:")
			for _, k := range p.SortedFuncKeys() {
				if strings.Contains(k, os.Args[2]) {
					fmt.Println(" ", k)
				}
			}
			os.Exit(2)
		}
		fmt.Println(f.Graph().C.Format(p.Fset))
	default:
		fmt.Println("unknown command", os.Args[1])
		os.Exit(2)
	}
}

func run(prop, tier, root, verif, tags, goarch string) (code int) {
	ids := []string{prop}
	if prop == "all" {
		ids = props.IDs()
	}
	defer func() {
		if r := recover(); r != nil {
			fmt.Printf("CHECKER PANIC property=%s: %v\n", prop, r)
			panic(r)
		}
	}()
	ssa := false
	for _, id := range ids {
		ssa = ssa || props.NeedsSSA(id)
	}
	p, err := core.Load(root, tags, goarch, ssa)
	if err != nil {
		fmt.Printf("BROKEN property=%s: cannot load %s: %v\n", prop, root, err)
		return 2
	}
	for _, id := range ids {
		r := props.Get(id)
		if r == nil {
			fmt.Printf("BROKEN: no checker registered for %s\n", id)
			return 2
		}
		c := core.NewCheck(id, tier, p, verif)
		r(c)
		if rc := c.Finish(); rc > code {
			code = rc
		}
	}
	return code
}
