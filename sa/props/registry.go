// Package props holds the per-property rules.
package props

import (
	"sort"

	"verif/sa/core"
)

// Runner evaluates one property's rules on a loaded program.
type Runner func(c *core.Check)

var registry = map[string][]Runner{}

// register adds a runner for a property; several files may contribute rules to
// one property (they run in registration order on the same Check).
func register(id string, r Runner) { registry[id] = append(registry[id], r) }

// needSSA lists the properties whose rules use go/ssa (whole-program load).
var needSSA = map[string]bool{}

// NeedsSSA reports whether the property needs dependencies loaded from source.
func NeedsSSA(id string) bool { return needSSA[id] }

// Get returns the runner of a property.
func Get(id string) Runner {
	rs := registry[id]
	if len(rs) == 0 {
		return nil
	}
	return func(c *core.Check) {
		for _, r := range rs {
			r(c)
		}
	}
}

// IDs lists the registered properties.
func IDs() []string {
	var r []string
	for k := range registry {
		r = append(r, k)
	}
	sort.Strings(r)
	return r
}
