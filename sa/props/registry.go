// Package props holds the per-property rules.
package props

import (
	"sort"

	"verif/sa/core"
)

// Runner evaluates one property's rules on a loaded program.
type Runner func(c *core.Check)

var registry = map[string]Runner{}

func register(id string, r Runner) { registry[id] = r }

// needSSA lists the properties whose rules use go/ssa (whole-program load).
var needSSA = map[string]bool{}

// NeedsSSA reports whether the property needs dependencies loaded from source.
func NeedsSSA(id string) bool { return needSSA[id] }

// Get returns the runner of a property.
func Get(id string) Runner { return registry[id] }

// IDs lists the registered properties.
func IDs() []string {
	var r []string
	for k := range registry {
		r = append(r, k)
	}
	sort.Strings(r)
	return r
}
