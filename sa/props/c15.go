package props

import (
	"fmt"
	"go/ast"
	"go/constant"
	"go/token"
	"go/types"
	"sort"
	"strings"

	"verif/sa/core"
)

func init() { register("C15", c15) }

// ---------------------------------------------------------------------------
// A small affine-equality dataflow with trace partitioning.
//
// The three functions of LineReader are loop-free apart from one drain loop;
// their correctness lives in index arithmetic on one buffer.  The analysis
// tracks, for every integer variable and for the reader's offset and buffer
// length, an affine form over a few base symbols (the values at function
// entry and the results of opaque calls), one abstract state per branch
// outcome (states are kept apart at joins instead of being merged, bounded by
// a small constant).  Conditions contribute facts: affine inequalities and
// byte tests.  Nothing is executed; no solver is involved: implications are
// decided by comparing normalised affine forms.
// ---------------------------------------------------------------------------

type aff struct {
	c map[string]int64 // symbol -> coefficient
	k int64
}

func affConst(k int64) aff { return aff{c: map[string]int64{}, k: k} }
func affSym(s string) aff  { return aff{c: map[string]int64{s: 1}} }
func (a aff) add(b aff, sign int64) aff {
	r := aff{c: map[string]int64{}, k: a.k + sign*b.k}
	for s, v := range a.c {
		r.c[s] += v
	}
	for s, v := range b.c {
		r.c[s] += sign * v
	}
	for s, v := range r.c {
		if v == 0 {
			delete(r.c, s)
		}
	}
	return r
}
func (a aff) eq(b aff) bool { d := a.add(b, -1); return len(d.c) == 0 && d.k == 0 }
func (a aff) String() string {
	var ks []string
	for s := range a.c {
		ks = append(ks, s)
	}
	sort.Strings(ks)
	var parts []string
	for _, s := range ks {
		switch a.c[s] {
		case 1:
			parts = append(parts, s)
		case -1:
			parts = append(parts, "-"+s)
		default:
			parts = append(parts, fmt.Sprintf("%d*%s", a.c[s], s))
		}
	}
	if a.k != 0 || len(parts) == 0 {
		parts = append(parts, fmt.Sprint(a.k))
	}
	return strings.Join(parts, "+")
}

// c15Fact is `form >= 0` or a byte test buf[idx] ==/!= ch.
type c15Fact struct {
	ge      *aff // form >= 0
	byteIdx *aff
	ch      int64
	eq      bool
}

type c15Slice struct{ lo, hi aff } // a string/bytes value cut from the buffer

type c15Send struct {
	line *c15Slice
	pos  token.Pos
}

type c15State struct {
	ints    map[types.Object]aff      // integer locals
	slices  map[types.Object]c15Slice // locals holding string(buf[lo:hi])
	bools   map[types.Object]string   // boolean locals holding the result of a call ("send")
	off     aff                       // lr.off
	blen    aff                       // len(lr.buf)
	bcap    aff                       // cap(lr.buf)
	grown   bool
	facts   []c15Fact
	sends   []c15Send
	counts  int // logLines.Add calls
	ret     string
	done    bool
	reads   []c15Slice // arguments of f.Read
	windows []c15Slice // arguments of bytes.IndexByte
	notes   []string
	drained bool // the drain loop was passed
}

func (s *c15State) clone() *c15State {
	n := *s
	n.ints = map[types.Object]aff{}
	for k, v := range s.ints {
		n.ints[k] = v
	}
	n.slices = map[types.Object]c15Slice{}
	for k, v := range s.slices {
		n.slices[k] = v
	}
	n.bools = map[types.Object]string{}
	for k, v := range s.bools {
		n.bools[k] = v
	}
	n.facts = append([]c15Fact{}, s.facts...)
	n.sends = append([]c15Send{}, s.sends...)
	n.reads = append([]c15Slice{}, s.reads...)
	n.windows = append([]c15Slice{}, s.windows...)
	n.notes = append([]string{}, s.notes...)
	return &n
}

// implies reports whether the facts of s imply form >= 0 (by matching the
// variable part of a known inequality or by the form being a constant).
func (s *c15State) implies(form aff) bool {
	if len(form.c) == 0 {
		return form.k >= 0
	}
	for _, f := range s.facts {
		if f.ge == nil {
			continue
		}
		d := form.add(*f.ge, -1) // form - g: if it is a non-negative constant, g>=0 implies form>=0
		if len(d.c) == 0 && d.k >= 0 {
			return true
		}
		// form = g + h + const with two known inequalities g>=0, h>=0
		for _, h := range s.facts {
			if h.ge == nil {
				continue
			}
			d2 := d.add(*h.ge, -1)
			if len(d2.c) == 0 && d2.k >= 0 {
				return true
			}
		}
	}
	return false
}

type c15Interp struct {
	c      *core.Check
	f      *core.Func
	recv   types.Object
	bufFld *types.Var
	offFld *types.Var
	why    string // first unsupported construct
	fresh  int
	sendFn *core.Func
}

func (in *c15Interp) bad(n ast.Node, msg string) {
	if in.why == "" {
		in.why = msg + " at " + in.c.Prog.Position(n.Pos())
	}
}

func (in *c15Interp) isField(e ast.Expr, fv *types.Var) bool {
	sel, ok := core.Unparen(e).(*ast.SelectorExpr)
	if !ok {
		return false
	}
	s := in.f.Info().Selections[sel]
	return s != nil && s.Obj() == fv && identObj(in.f.Info(), sel.X) == in.recv
}

// intExpr evaluates an integer expression to an affine form.
func (in *c15Interp) intExpr(st *c15State, e ast.Expr) (aff, bool) {
	info := in.f.Info()
	e = core.Unparen(e)
	if tv, ok := info.Types[e]; ok && tv.Value != nil && tv.Value.Kind() == constant.Int {
		v, _ := constant.Int64Val(tv.Value)
		return affConst(v), true
	}
	switch x := e.(type) {
	case *ast.Ident:
		if v, ok := st.ints[info.Uses[x]]; ok {
			return v, true
		}
		if v, ok := st.ints[info.Defs[x]]; ok {
			return v, true
		}
	case *ast.SelectorExpr:
		if in.isField(x, in.offFld) {
			return st.off, true
		}
		// other integer fields of the reader are immutable symbols (size)
		if s := info.Selections[x]; s != nil && s.Kind() == types.FieldVal && identObj(info, x.X) == in.recv {
			if b, ok := s.Obj().Type().Underlying().(*types.Basic); ok && b.Info()&types.IsInteger != 0 {
				return affSym("lr." + s.Obj().Name()), true
			}
		}
	case *ast.BinaryExpr:
		a, ok1 := in.intExpr(st, x.X)
		b, ok2 := in.intExpr(st, x.Y)
		if ok1 && ok2 {
			switch x.Op {
			case token.ADD:
				return a.add(b, 1), true
			case token.SUB:
				return a.add(b, -1), true
			}
		}
	case *ast.CallExpr:
		id := in.f.CalleeID(x)
		switch id {
		case "builtin.len", "builtin.cap":
			if len(x.Args) == 1 && in.isField(x.Args[0], in.bufFld) {
				if id == "builtin.len" {
					return st.blen, true
				}
				return st.bcap, true
			}
			if o := identObj(info, x.Args[0]); o != nil {
				if sl, ok := st.slices[o]; ok && id == "builtin.len" {
					return sl.hi.add(sl.lo, -1), true
				}
			}
		case "builtin.min":
			// min(len(buf), cap(buf)) == len(buf)
			if len(x.Args) == 2 {
				a, ok1 := in.intExpr(st, x.Args[0])
				b, ok2 := in.intExpr(st, x.Args[1])
				if ok1 && ok2 {
					if a.eq(st.blen) && b.eq(st.bcap) || b.eq(st.blen) && a.eq(st.bcap) {
						return st.blen, true
					}
				}
			}
		}
	}
	return aff{}, false
}

// bufSlice evaluates lr.buf[lo:hi] (or string(lr.buf[lo:hi])) to bounds.
func (in *c15Interp) bufSlice(st *c15State, e ast.Expr) (c15Slice, bool) {
	e = core.Unparen(e)
	if call, ok := e.(*ast.CallExpr); ok && len(call.Args) == 1 {
		if tv, ok := in.f.Info().Types[call.Fun]; ok && tv.IsType() {
			return in.bufSlice(st, call.Args[0])
		}
	}
	se, ok := e.(*ast.SliceExpr)
	if !ok || !in.isField(se.X, in.bufFld) || se.Max != nil {
		return c15Slice{}, false
	}
	lo, hi := affConst(0), st.blen
	if se.Low != nil {
		v, ok := in.intExpr(st, se.Low)
		if !ok {
			return c15Slice{}, false
		}
		lo = v
	}
	if se.High != nil {
		v, ok := in.intExpr(st, se.High)
		if !ok {
			return c15Slice{}, false
		}
		hi = v
	}
	return c15Slice{lo, hi}, true
}

// cond splits states by a condition; it returns the states where it holds and where it does not.
func (in *c15Interp) cond(st *c15State, e ast.Expr) (yes, no []*c15State) {
	info := in.f.Info()
	e = core.Unparen(e)
	switch x := e.(type) {
	case *ast.BinaryExpr:
		switch x.Op {
		case token.LAND:
			y1, n1 := in.cond(st, x.X)
			for _, s := range y1 {
				y2, n2 := in.cond(s, x.Y)
				yes = append(yes, y2...)
				no = append(no, n2...)
			}
			no = append(no, n1...)
			return
		case token.LOR:
			y1, n1 := in.cond(st, x.X)
			yes = append(yes, y1...)
			for _, s := range n1 {
				y2, n2 := in.cond(s, x.Y)
				yes = append(yes, y2...)
				no = append(no, n2...)
			}
			return
		case token.LSS, token.LEQ, token.GTR, token.GEQ, token.EQL, token.NEQ:
			// byte test: lr.buf[idx] == 'c'
			if ix, ok := core.Unparen(x.X).(*ast.IndexExpr); ok && in.isField(ix.X, in.bufFld) && (x.Op == token.EQL || x.Op == token.NEQ) {
				idx, ok1 := in.intExpr(st, ix.Index)
				tv := info.Types[x.Y]
				if ok1 && tv.Value != nil {
					ch, _ := constant.Int64Val(constant.ToInt(tv.Value))
					a, b := st.clone(), st.clone()
					a.facts = append(a.facts, c15Fact{byteIdx: &idx, ch: ch, eq: x.Op == token.EQL})
					b.facts = append(b.facts, c15Fact{byteIdx: &idx, ch: ch, eq: x.Op != token.EQL})
					return []*c15State{a}, []*c15State{b}
				}
			}
			l, ok1 := in.intExpr(st, x.X)
			r, ok2 := in.intExpr(st, x.Y)
			if ok1 && ok2 {
				d := l.add(r, -1) // l - r
				a, b := st.clone(), st.clone()
				ge := func(f aff) c15Fact { ff := f; return c15Fact{ge: &ff} }
				neg := func(f aff) aff { return affConst(0).add(f, -1) }
				switch x.Op {
				case token.LSS: // l-r <= -1 ; else l-r >= 0
					a.facts = append(a.facts, ge(neg(d).add(affConst(1), -1)))
					b.facts = append(b.facts, ge(d))
				case token.LEQ:
					a.facts = append(a.facts, ge(neg(d)))
					b.facts = append(b.facts, ge(d.add(affConst(1), -1)))
				case token.GTR:
					a.facts = append(a.facts, ge(d.add(affConst(1), -1)))
					b.facts = append(b.facts, ge(neg(d)))
				case token.GEQ:
					a.facts = append(a.facts, ge(d))
					b.facts = append(b.facts, ge(neg(d).add(affConst(1), -1)))
				case token.EQL:
					a.facts = append(a.facts, ge(d), ge(neg(d)))
				case token.NEQ:
					b.facts = append(b.facts, ge(d), ge(neg(d)))
				}
				// an outcome that contradicts what is already known on this path is infeasible: drop it
				feasible := func(ns *c15State) bool {
					for _, f := range ns.facts[len(st.facts):] {
						if f.ge != nil && st.implies(neg(*f.ge).add(affConst(1), -1)) {
							return false
						}
					}
					return true
				}
				var ya, nb []*c15State
				if feasible(a) {
					ya = []*c15State{a}
				}
				if feasible(b) {
					nb = []*c15State{b}
				}
				if len(ya)+len(nb) == 0 { // contradictory knowledge: keep both rather than lose the path
					return []*c15State{a}, []*c15State{b}
				}
				return ya, nb
			}
		}
	case *ast.Ident:
		// a boolean local: split without facts, remember which way
		a, b := st.clone(), st.clone()
		return []*c15State{a}, []*c15State{b}
	}
	// unknown condition: both outcomes, no facts (pointer tests, timers, ...)
	a, b := st.clone(), st.clone()
	a.notes = append(a.notes, "opaque condition "+exprStr(e))
	return []*c15State{a}, []*c15State{b}
}

func (in *c15Interp) block(states []*c15State, stmts []ast.Stmt) []*c15State {
	for _, s := range stmts {
		var next []*c15State
		for _, st := range states {
			if st.done {
				next = append(next, st)
				continue
			}
			next = append(next, in.stmt(st, s)...)
		}
		states = next
		if len(states) > 64 {
			in.bad(s, "too many partitions")
			return states
		}
	}
	return states
}

func (in *c15Interp) stmt(st *c15State, s ast.Stmt) []*c15State {
	info := in.f.Info()
	switch x := s.(type) {
	case *ast.ReturnStmt:
		st.done = true
		st.ret = "return"
		if len(x.Results) == 1 {
			if b, ok := constBool(info, x.Results[0]); ok {
				st.ret = fmt.Sprint(b)
			}
		}
		return []*c15State{st}
	case *ast.IfStmt:
		cur := []*c15State{st}
		if x.Init != nil {
			cur = in.block(cur, []ast.Stmt{x.Init})
		}
		var out []*c15State
		for _, s0 := range cur {
			yes, no := in.cond(s0, x.Cond)
			out = append(out, in.block(yes, x.Body.List)...)
			if x.Else != nil {
				switch e := x.Else.(type) {
				case *ast.BlockStmt:
					out = append(out, in.block(no, e.List)...)
				default:
					out = append(out, in.block(no, []ast.Stmt{e})...)
				}
			} else {
				out = append(out, no...)
			}
		}
		return out
	case *ast.ForStmt:
		// the drain loop: `for ok { ok = lr.send(ctx) }` — decided structurally by the caller; its
		// effect on the offset is summarised as an opaque advance that stays within the buffer
		in.fresh++
		st.off = affSym(fmt.Sprintf("off_after_drain%d", in.fresh))
		st.drained = true
		return []*c15State{st}
	case *ast.AssignStmt:
		if len(x.Lhs) == 1 && len(x.Rhs) == 1 {
			lhs, rhs := x.Lhs[0], x.Rhs[0]
			// lr.off = e
			if in.isField(lhs, in.offFld) {
				v, ok := in.intExpr(st, rhs)
				if !ok {
					in.bad(x, "offset assigned a non-affine value")
					return []*c15State{st}
				}
				st.off = v
				return []*c15State{st}
			}
			// lr.buf = ...
			if in.isField(lhs, in.bufFld) {
				if sl, ok := in.bufSlice(st, rhs); ok {
					// reslice: contents [lo:hi) kept; indices shift by lo
					if !sl.lo.eq(affConst(0)) {
						st.notes = append(st.notes, "reslice from "+sl.lo.String())
						st.reads = append(st.reads, c15Slice{sl.lo, sl.hi}) // reuse: recorded as a drop
						st.ints[nil] = sl.lo                              // remember the dropped prefix under the nil key
					}
					st.blen = sl.hi.add(sl.lo, -1)
					return []*c15State{st}
				}
				// grow: append(make([]byte, 0, N), lr.buf...)
				if call, ok := core.Unparen(rhs).(*ast.CallExpr); ok && in.f.CalleeID(call) == "builtin.append" && len(call.Args) == 2 && call.Ellipsis.IsValid() && in.isField(call.Args[1], in.bufFld) {
					if mk, ok := core.Unparen(call.Args[0]).(*ast.CallExpr); ok && in.f.CalleeID(mk) == "builtin.make" && len(mk.Args) == 3 {
						l0, ok1 := in.intExpr(st, mk.Args[1])
						cp, ok2 := in.intExpr(st, mk.Args[2])
						if ok1 && ok2 && l0.eq(affConst(0)) {
							st.bcap = cp
							st.grown = true
							return []*c15State{st}
						}
					}
				}
				in.bad(x, "buffer assigned something other than a reslice of itself or a grown copy")
				return []*c15State{st}
			}
			o := identObj(info, lhs)
			if o != nil {
				if v, ok := in.intExpr(st, rhs); ok {
					st.ints[o] = v
					return []*c15State{st}
				}
				if sl, ok := in.bufSlice(st, rhs); ok {
					st.slices[o] = sl
					return []*c15State{st}
				}
				if call, ok := core.Unparen(rhs).(*ast.CallExpr); ok {
					id := in.f.CalleeID(call)
					if id == "bytes.IndexByte" && len(call.Args) == 2 {
						if sl, ok := in.bufSlice(st, call.Args[0]); ok {
							st.windows = append(st.windows, sl)
							in.fresh++
							st.ints[o] = affSym(fmt.Sprintf("i%d", in.fresh)) // index relative to the window start
							return []*c15State{st}
						}
					}
					if cf := in.f.CalleeFunc(call); cf != nil && cf == in.sendFn {
						st.bools[o] = "send"
						return []*c15State{st}
					}
				}
				if b, ok := info.TypeOf(lhs).Underlying().(*types.Basic); ok && b.Info()&types.IsInteger != 0 {
					in.fresh++
					st.ints[o] = affSym(fmt.Sprintf("v%d", in.fresh))
					return []*c15State{st}
				}
				return []*c15State{st} // other locals are irrelevant
			}
			return []*c15State{st}
		}
		// count, err = lr.f.Read(lr.buf[a:b])
		if len(x.Lhs) == 2 && len(x.Rhs) == 1 {
			if call, ok := core.Unparen(x.Rhs[0]).(*ast.CallExpr); ok && strings.HasSuffix(in.f.CalleeID(call), ".Read") && len(call.Args) == 1 {
				if sl, ok := in.bufSlice(st, call.Args[0]); ok {
					st.reads = append(st.reads, sl)
					if o := identObj(info, x.Lhs[0]); o != nil {
						st.ints[o] = affSym("count")
						c0 := affSym("count")
						st.facts = append(st.facts, c15Fact{ge: &c0})
					}
					return []*c15State{st}
				}
				in.bad(x, "Read into something other than a slice of the buffer")
			}
		}
		return []*c15State{st}
	case *ast.SendStmt:
		snd := c15Send{pos: x.Pos()}
		if call, ok := core.Unparen(x.Value).(*ast.CallExpr); ok {
			for _, a := range call.Args {
				if o := identObj(info, a); o != nil {
					if sl, ok := st.slices[o]; ok {
						ss := sl
						snd.line = &ss
					}
				}
			}
		}
		st.sends = append(st.sends, snd)
		return []*c15State{st}
	case *ast.ExprStmt:
		if call, ok := x.X.(*ast.CallExpr); ok {
			if len(expvarAddsIn(in.f, call, "logLines")) > 0 {
				st.counts++
			}
		}
		return []*c15State{st}
	case *ast.IncDecStmt:
		d := int64(1)
		if x.Tok == token.DEC {
			d = -1
		}
		if in.isField(x.X, in.offFld) {
			st.off = st.off.add(affConst(d), 1)
		} else if o := identObj(info, x.X); o != nil {
			if v, ok := st.ints[o]; ok {
				st.ints[o] = v.add(affConst(d), 1)
			}
		}
		return []*c15State{st}
	case *ast.DeclStmt:
		return []*c15State{st}
	case *ast.BlockStmt:
		return in.block([]*c15State{st}, x.List)
	}
	in.bad(s, fmt.Sprintf("statement outside the analysed family (%T)", s))
	return []*c15State{st}
}

func expvarAddsIn(f *core.Func, call *ast.CallExpr, varName string) []*ast.CallExpr {
	id := f.CalleeID(call)
	if strings.HasPrefix(id, "expvar.") && strings.HasSuffix(id, ".Add") {
		if r := core.RecvExpr(call); r != nil && strings.HasSuffix(core.PathOf(r), varName) {
			return []*ast.CallExpr{call}
		}
	}
	return nil
}

func (in *c15Interp) run() []*c15State {
	st := &c15State{ints: map[types.Object]aff{}, slices: map[types.Object]c15Slice{}, bools: map[types.Object]string{},
		off: affSym("off0"), blen: affSym("len0"), bcap: affSym("cap0")}
	// entry facts: 0 <= off0 <= len0 <= cap0
	o, l, cp := affSym("off0"), affSym("len0"), affSym("cap0")
	d1 := l.add(o, -1)
	d2 := cp.add(l, -1)
	st.facts = append(st.facts, c15Fact{ge: &o}, c15Fact{ge: &d1}, c15Fact{ge: &d2})
	return in.block([]*c15State{st}, in.f.Body.List)
}

func c15(c *core.Check) {
	c.Explain = "Line framing lives in index arithmetic on one buffer (LineReader.buf, LineReader.off).  This check decides the structural clauses of C15 that an affine-equality dataflow can reach, on every branch outcome of the three reader functions (states are kept apart per branch; conditions contribute affine inequalities and byte facts; implications are decided by comparing normalised affine forms — nothing is executed and no solver is used): (R1) every Read targets exactly the free tail buf[len:cap], the free tail has at least `size` bytes on every path (grow branch) and growing copies the old contents; after the Read the length advances by exactly the count; (R2) in send, the newline search covers exactly the unconsumed bytes buf[off:len]; on every path that delivers a line the line is buf[off : off+i-cr] with cr in {0,1}, cr=1 only under a byte test buf[off+i-1]=='\\r' whose index is proved to lie inside the current line, cr=0 only when that byte is not a carriage return or the line is empty, the offset advances to off+i+1 (so consumed ranges tile the buffer: nothing is skipped, nothing is delivered twice), exactly one line is sent and counted; a path that finds no newline changes nothing; (R3) ReadAndSend calls send until it reports no further line, then drops exactly the consumed prefix buf[:off] and resets the offset, on every path that read something; (R4) Finish delivers buf[off:] iff it is non-empty and then marks it consumed.  Not decided: the behaviour of io.Reader implementations, the scheduler, channel delivery order (FIFO by the language), and that the conditions on run-time bytes are evaluated by the hardware as written."
	c.Assume = append(c.Assume, "0 <= off <= len(buf) <= cap(buf) at function entry (established by the same three functions: checked as their exit condition)", "bytes.IndexByte returns -1 or the index of the first occurrence within its argument", "io.Reader.Read stores count bytes at the start of its argument and 0 <= count <= len(argument)")
	pkg := c.Prog.Pkgs["internal/tailer/logstream"]
	if pkg == nil {
		c.Undecided("C15-R1", "package", "-", "internal/tailer/logstream not loaded")
		return
	}
	lrObj := pkg.Types.Scope().Lookup("LineReader")
	if lrObj == nil {
		c.Undecided("C15-R1", "LineReader", "-", "type not found")
		return
	}
	stt, _ := lrObj.Type().Underlying().(*types.Struct)
	var bufFld, offFld *types.Var
	for i := 0; stt != nil && i < stt.NumFields(); i++ {
		f := stt.Field(i)
		if sl, ok := f.Type().Underlying().(*types.Slice); ok {
			if b, ok := sl.Elem().Underlying().(*types.Basic); ok && b.Kind() == types.Byte || ok && b.Kind() == types.Uint8 {
				bufFld = f
			}
		}
	}
	// the offset is the integer field assigned in send
	sendF := c.MustFn("C15-R2", "internal/tailer/logstream.(*LineReader).send")
	rasF := c.MustFn("C15-R1", "internal/tailer/logstream.(*LineReader).ReadAndSend")
	finF := c.MustFn("C15-R4", "internal/tailer/logstream.(*LineReader).Finish")
	if sendF == nil || rasF == nil || finF == nil || bufFld == nil {
		if bufFld == nil {
			c.Undecided("C15-R1", "LineReader.buf", "-", "no []byte field found")
		}
		return
	}
	ast.Inspect(sendF.Body, func(n ast.Node) bool {
		if as, ok := n.(*ast.AssignStmt); ok && len(as.Lhs) == 1 {
			if sel, ok := as.Lhs[0].(*ast.SelectorExpr); ok {
				if s := sendF.Info().Selections[sel]; s != nil && s.Kind() == types.FieldVal {
					if b, ok := s.Obj().Type().Underlying().(*types.Basic); ok && b.Info()&types.IsInteger != 0 {
						offFld = s.Obj().(*types.Var)
					}
				}
			}
		}
		return true
	})
	if offFld == nil {
		c.Undecided("C15-R2", "LineReader.off", pos(c, sendF.Decl), "send assigns no integer field: offset not recognised")
		return
	}
	c.Extra["buffer_field"] = bufFld.Name()
	c.Extra["offset_field"] = offFld.Name()
	mk := func(f *core.Func) *c15Interp {
		in := &c15Interp{c: c, f: f, bufFld: bufFld, offFld: offFld, sendFn: sendF}
		if f.Decl.Recv != nil && len(f.Decl.Recv.List[0].Names) > 0 {
			in.recv = f.Info().Defs[f.Decl.Recv.List[0].Names[0]]
		}
		return in
	}
	off0, len0 := affSym("off0"), affSym("len0")
	describe := func(st *c15State) string {
		var fs []string
		for _, f := range st.facts[3:] {
			if f.ge != nil {
				fs = append(fs, f.ge.String()+">=0")
			} else {
				op := "=="
				if !f.eq {
					op = "!="
				}
				fs = append(fs, fmt.Sprintf("buf[%s]%s%q", f.byteIdx.String(), op, rune(f.ch)))
			}
		}
		return "path facts {" + strings.Join(fs, ", ") + "}"
	}

	// ------------------------------------------------------------- R2: send
	c.Rule("C15-R2", "TILING (send): the search window is buf[off:len]; on each delivering path line = buf[off : off+i-cr], cr=1 only under buf[off+i-1]=='\\r' with off+i-1 >= off proved, cr=0 only when that byte is not '\\r' or i=0; new off = off+i+1; one send of that line, one count; the no-newline path changes and sends nothing")
	{
		in := mk(sendF)
		states := in.run()
		if in.why != "" {
			c.Undecided("C15-R2", sendF.Key, pos(c, sendF.Decl), in.why)
		}
		nTrue, nFalse := 0, 0
		for k, st := range states {
			key := fmt.Sprintf("%s|path#%d returns %s", sendF.Key, k+1, st.ret)
			p := pos(c, sendF.Decl)
			switch st.ret {
			case "false":
				nFalse++
				okF := st.off.eq(off0) && len(st.sends) == 0 && st.counts == 0
				// must know i < 0
				knowsNeg := false
				for _, w := range st.windows {
					_ = w
				}
				for _, f := range st.facts {
					if f.ge != nil && len(f.ge.c) == 1 && f.ge.k == -1 {
						for s, v := range f.ge.c {
							if strings.HasPrefix(s, "i") && v == -1 {
								knowsNeg = true
							}
						}
					}
				}
				c.Verdict(okF && knowsNeg, "C15-R2", key, p, "nothing consumed, nothing sent, only when no newline was found", fmt.Sprintf("a path of send that reports `no line` consumes or sends something, or is taken although a newline was found (off=%s, sends=%d; %s): bytes are skipped or a complete line is held back", st.off.String(), len(st.sends), describe(st)))
			case "true":
				nTrue++
				if len(st.windows) != 1 {
					c.Undecided("C15-R2", key, p, "newline search not recognised")
					continue
				}
				w := st.windows[0]
				iSym := ""
				for o, v := range st.ints {
					_ = o
					for s := range v.c {
						if strings.HasPrefix(s, "i") && len(v.c) == 1 && v.k == 0 {
							iSym = s
						}
					}
				}
				if iSym == "" {
					c.Undecided("C15-R2", key, p, "index of the newline not tracked")
					continue
				}
				i := affSym(iSym)
				var fails []string
				if !w.lo.eq(off0) || !w.hi.eq(len0) {
					fails = append(fails, fmt.Sprintf("the newline is searched in buf[%s:%s], not in the unconsumed bytes buf[off:len]", w.lo.String(), w.hi.String()))
				}
				nl := w.lo.add(i, 1) // absolute index of the newline
				if len(st.sends) != 1 || st.sends[0].line == nil {
					fails = append(fails, fmt.Sprintf("%d lines are sent on this path (exactly one expected, built from the buffer)", len(st.sends)))
				} else {
					ln := st.sends[0].line
					if !ln.lo.eq(off0) {
						fails = append(fails, "the line starts at "+ln.lo.String()+", not at the offset: bytes are dropped or repeated")
					}
					cr := nl.add(ln.hi, -1) // nl - hi
					switch {
					case len(cr.c) == 0 && cr.k == 0:
						// no CR stripped: need fact byte(nl-1) != '\r' or i == 0 (nl-1 < off)
						okNo := false
						prev := nl.add(affConst(1), -1)
						for _, f := range st.facts {
							if f.byteIdx != nil && f.byteIdx.eq(prev) && f.ch == '\r' && !f.eq {
								okNo = true
							}
						}
						// i <= 0 known?  (off0 - nl >= 0)
						if st.implies(off0.add(nl, -1)) {
							okNo = true
						}
						if !okNo {
							fails = append(fails, "the line is delivered up to the newline without knowing that the byte before it is not a carriage return: a trailing \\r is kept")
						}
					case len(cr.c) == 0 && cr.k == 1:
						prev := nl.add(affConst(1), -1)
						tested := false
						for _, f := range st.facts {
							if f.byteIdx != nil && f.byteIdx.eq(prev) && f.ch == '\r' && f.eq {
								tested = true
							}
						}
						if !tested {
							fails = append(fails, "one byte before the newline is cut off without a test that it is a carriage return")
						}
						// the tested byte belongs to the current line: prev >= off0
						if !st.implies(prev.add(off0, -1)) {
							fails = append(fails, fmt.Sprintf("the carriage-return test reads buf[%s] without a guard that this index is inside the current line (>= off): when the line is empty and the byte before its start is a \\r already delivered (a fragment flushed by Finish), the line end is computed before its start — slice bounds out of range, the process dies", prev.String()))
						}
					default:
						fails = append(fails, "the line ends at "+ln.hi.String()+", neither at the newline nor one byte before it")
					}
				}
				if !st.off.eq(nl.add(affConst(1), 1)) {
					fails = append(fails, "the offset becomes "+st.off.String()+" instead of one past the newline ("+nl.add(affConst(1), 1).String()+"): the next line starts in the wrong place")
				}
				if st.counts != 1 {
					fails = append(fails, fmt.Sprintf("the line is counted %d times", st.counts))
				}
				c.Verdict(len(fails) == 0, "C15-R2", key, p, "line = buf[off:nl-cr], off' = nl+1; "+describe(st), strings.Join(fails, "; ")+" ("+describe(st)+")")
			default:
				c.Undecided("C15-R2", key, p, "send leaves without a boolean constant")
			}
		}
		if nTrue == 0 || nFalse == 0 {
			c.Undecided("C15-R2", sendF.Key+"|paths", pos(c, sendF.Decl), fmt.Sprintf("%d delivering and %d non-delivering paths found", nTrue, nFalse))
		}
	}
	c.Floor("C15-R2", 3)

	// ------------------------------------------------------------- R1 + R3: ReadAndSend
	c.Rule("C15-R1", "READ: every path of ReadAndSend reads into exactly buf[len:cap]; before the read cap-len >= size holds (by the guard or by growing to len+size with the contents copied); after it len' = len+count before any byte is examined")
	c.Rule("C15-R3", "DRAIN: on every path with count > 0, send is called in a loop that ends only when it reports no further line; then buf = buf[off:len] and off = 0 (exactly the consumed prefix is dropped); with count = 0 nothing changes")
	{
		in := mk(rasF)
		states := in.run()
		if in.why != "" {
			c.Undecided("C15-R1", rasF.Key, pos(c, rasF.Decl), in.why)
		}
		size := affSym("lr.size")
		for k, st := range states {
			key := fmt.Sprintf("%s|path#%d", rasF.Key, k+1)
			p := pos(c, rasF.Decl)
			var fails []string
			// the first recorded read is the Read argument; later entries are drops
			if len(st.reads) == 0 {
				c.Undecided("C15-R1", key, p, "no Read recognised on this path")
				continue
			}
			rd := st.reads[0]
			if !rd.lo.eq(len0) {
				fails = append(fails, "Read stores at buf["+rd.lo.String()+":…], not at the end of the data (len): bytes are overwritten or a gap is left")
			}
			// hi == cap (possibly grown)
			capNow := affSym("cap0")
			if st.grown {
				capNow = st.bcapAtRead(len0, size)
			}
			if !rd.hi.eq(capNow) {
				fails = append(fails, "Read is given buf[…:"+rd.hi.String()+"], not up to the capacity")
			}
			// room: cap - len >= size known (not grown: fact from the guard; grown: cap = len+size exactly or more)
			room := capNow.add(len0, -1).add(size, -1)
			if !st.implies(room) {
				fails = append(fails, "the free tail handed to Read is not proved to hold `size` bytes on this path ("+describe(st)+"): with an exactly full buffer the Read gets an empty slice, returns 0 forever and the stream stalls")
			}
			c.Verdict(len(fails) == 0, "C15-R1", key, p, "Read(buf[len:cap]), cap-len>=size; "+describe(st), strings.Join(fails, "; "))
			// R3
			var f3 []string
			cnt := affSym("count")
			wantLen := len0.add(cnt, 1)
			positive := st.implies(cnt.add(affConst(1), -1))
			if positive {
				if !st.drained {
					f3 = append(f3, "bytes were read but send is not called in a loop")
				}
				drop, hasDrop := st.ints[nil]
				if !hasDrop || !strings.HasPrefix(drop.String(), "off_after_drain") {
					f3 = append(f3, "after draining, the consumed prefix buf[:off] is not dropped (buf = buf[off:])")
				}
				if !st.off.eq(affConst(0)) {
					f3 = append(f3, "the offset is not reset to 0 after the consumed prefix was dropped: the next line starts off bytes too late")
				}
				if hasDrop && !st.blen.eq(wantLen.add(drop, -1)) {
					f3 = append(f3, "the buffer length after the drop is "+st.blen.String()+", not len+count-off")
				}
			} else {
				if st.drained {
					// allowed only if count>0 is not excluded; when count = 0 is known nothing may be consumed
				}
				if !st.drained && !st.blen.eq(wantLen) {
					f3 = append(f3, "the length after the read is "+st.blen.String()+", not len+count")
				}
				// count > 0 must be excluded on a path that does not drain: a Read may return bytes together with an error
				if !st.drained && !st.implies(affConst(0).add(cnt, -1)) {
					f3 = append(f3, "this path leaves without calling send although count > 0 is not excluded on it (io.Reader may return n > 0 together with an error): the bytes just read stay unsearched in buf[off:], and Finish, which assumes they hold no newline, later delivers them as ONE line with the newlines inside")
				}
			}
			c.Verdict(len(f3) == 0, "C15-R3", key, p, "len'=len+count; drained and prefix dropped when count>0", strings.Join(f3, "; ")+" ("+describe(st)+")")
		}
		// the drain loop ends only on `no line`: for ok { ok = send }
		okLoop := false
		core.InspectNoLit(rasF.Body, func(n ast.Node) bool {
			fs, ok := n.(*ast.ForStmt)
			if !ok || fs.Init != nil || fs.Post != nil || fs.Cond == nil {
				return true
			}
			cv := identObj(rasF.Info(), fs.Cond)
			if cv == nil || len(fs.Body.List) != 1 {
				return true
			}
			if as, ok := fs.Body.List[0].(*ast.AssignStmt); ok && len(as.Lhs) == 1 && identObj(rasF.Info(), as.Lhs[0]) == cv {
				if call, ok := as.Rhs[0].(*ast.CallExpr); ok && rasF.CalleeFunc(call) == sendF {
					okLoop = true
				}
			}
			return true
		})
		if !okLoop {
			// alternative spelling: for lr.send(ctx) {}
			core.InspectNoLit(rasF.Body, func(n ast.Node) bool {
				if fs, ok := n.(*ast.ForStmt); ok && fs.Cond != nil && len(fs.Body.List) == 0 {
					if call, ok := core.Unparen(fs.Cond).(*ast.CallExpr); ok && rasF.CalleeFunc(call) == sendF {
						okLoop = true
					}
				}
				return true
			})
		}
		if okLoop {
			c.Ok("C15-R3", rasF.Key+"|drain loop", pos(c, rasF.Decl), "send is repeated until it reports no further line")
		} else {
			c.Undecided("C15-R3", rasF.Key+"|drain loop", pos(c, rasF.Decl), "the loop around send is not of the form `for ok { ok = send() }`")
		}
		// growth copies contents: recognised by the interpreter (grown flag) — a grow that is not append(make(0,N), buf...) is reported there
	}
	c.Floor("C15-R1", 2)
	c.Floor("C15-R3", 3)

	// ------------------------------------------------------------- R4: Finish
	c.Rule("C15-R4", "FLUSH: Finish sends exactly buf[off:len] when it is non-empty, counts it once, and afterwards off = len (the fragment is consumed); when it is empty nothing is sent")
	{
		in := mk(finF)
		states := in.run()
		if in.why != "" {
			c.Undecided("C15-R4", finF.Key, pos(c, finF.Decl), in.why)
		}
		for k, st := range states {
			key := fmt.Sprintf("%s|path#%d", finF.Key, k+1)
			p := pos(c, finF.Decl)
			if len(st.sends) == 0 {
				// must know the fragment is empty: len0 - off0 <= 0
				okE := st.implies(off0.add(len0, -1)) && st.off.eq(off0)
				c.Verdict(okE, "C15-R4", key, p, "nothing sent only when buf[off:] is empty", "Finish can leave without delivering a non-empty remainder ("+describe(st)+")")
				continue
			}
			var fails []string
			if len(st.sends) != 1 || st.sends[0].line == nil {
				fails = append(fails, "not exactly one line built from the buffer is sent")
			} else {
				ln := st.sends[0].line
				if !ln.lo.eq(off0) || !ln.hi.eq(len0) {
					fails = append(fails, "the line sent is buf["+ln.lo.String()+":"+ln.hi.String()+"], not the unconsumed remainder buf[off:len]")
				}
			}
			if !st.off.add(st.blen, -1).eq(affConst(0)) {
				fails = append(fails, "after the flush the offset is "+st.off.String()+" with length "+st.blen.String()+": the fragment stays in the buffer and is delivered again, glued to the next data")
			}
			if st.counts != 1 {
				fails = append(fails, fmt.Sprintf("counted %d times", st.counts))
			}
			c.Verdict(len(fails) == 0, "C15-R4", key, p, "buf[off:len] sent once, then consumed", strings.Join(fails, "; "))
		}
	}
	c.Floor("C15-R4", 2)
}

func init() { register("C15", c15OffsetDiscipline) }

// c15OffsetDiscipline: the offset marks how much of the buffer is consumed.
// Outside send (decided by R2) it may only be moved to the end of the buffer
// (everything consumed) or back to 0 together with a buffer that no longer
// holds the consumed bytes.  Setting it back to 0 over an unchanged buffer
// delivers bytes a second time — e.g. the tail of a finished connection in
// front of the next connection's first line when a reader is reused.
func c15OffsetDiscipline(c *core.Check) {
	c.Rule("C15-R5", "OFFSET-DISCIPLINE: every assignment to the reader's offset outside send is `off = len(buf)`, or `off = 0` in a function that on every path to it also gives buf a value without the consumed prefix (`buf[off:…]`, `buf[:0]`, a new slice): an offset reset over the old contents re-delivers consumed bytes")
	pkg := c.Prog.Pkgs["internal/tailer/logstream"]
	sendF := c.Prog.Fn("internal/tailer/logstream.(*LineReader).send")
	if pkg == nil || sendF == nil {
		c.Undecided("C15-R5", "anchors", "-", "package logstream or LineReader.send not found")
		return
	}
	lrObj := pkg.Types.Scope().Lookup("LineReader")
	stt, _ := lrObj.Type().Underlying().(*types.Struct)
	var bufFld, offFld *types.Var
	for i := 0; stt != nil && i < stt.NumFields(); i++ {
		if sl, ok := stt.Field(i).Type().Underlying().(*types.Slice); ok {
			if b, ok := sl.Elem().Underlying().(*types.Basic); ok && (b.Kind() == types.Byte || b.Kind() == types.Uint8) {
				bufFld = stt.Field(i)
			}
		}
	}
	ast.Inspect(sendF.Body, func(n ast.Node) bool {
		if as, ok := n.(*ast.AssignStmt); ok && len(as.Lhs) == 1 {
			if sel, ok := as.Lhs[0].(*ast.SelectorExpr); ok {
				if s := sendF.Info().Selections[sel]; s != nil && s.Kind() == types.FieldVal {
					if b, ok := s.Obj().Type().Underlying().(*types.Basic); ok && b.Info()&types.IsInteger != 0 {
						offFld = s.Obj().(*types.Var)
					}
				}
			}
		}
		return true
	})
	if bufFld == nil || offFld == nil {
		c.Undecided("C15-R5", "fields", "-", "buffer/offset fields not recognised")
		return
	}
	n := 0
	for _, f := range shipped(c) {
		if f.Pkg != pkg || f == sendF {
			continue
		}
		info := f.Info()
		isFld := func(e ast.Expr, fv *types.Var) bool {
			sel, ok := core.Unparen(e).(*ast.SelectorExpr)
			if !ok {
				return false
			}
			s := info.Selections[sel]
			return s != nil && s.Obj() == fv
		}
		var bufAssigns []*ast.AssignStmt
		core.InspectNoLit(f.Body, func(nd ast.Node) bool {
			if as, ok := nd.(*ast.AssignStmt); ok && len(as.Lhs) == 1 && isFld(as.Lhs[0], bufFld) {
				bufAssigns = append(bufAssigns, as)
			}
			return true
		})
		core.InspectNoLit(f.Body, func(nd ast.Node) bool {
			as, ok := nd.(*ast.AssignStmt)
			if !ok || len(as.Lhs) != 1 || !isFld(as.Lhs[0], offFld) {
				return true
			}
			n++
			key := fmt.Sprintf("%s|offset assignment#%d", f.Key, n)
			c.Analysed(f)
			rhs := core.Unparen(as.Rhs[0])
			// off = len(buf)
			if call, ok := rhs.(*ast.CallExpr); ok && f.CalleeID(call) == "builtin.len" && len(call.Args) == 1 && isFld(call.Args[0], bufFld) {
				c.Ok("C15-R5", key, pos(c, as), "off = len(buf): everything consumed")
				return true
			}
			if v, isC := constInt(info, rhs); isC && v == 0 {
				// some assignment to buf in this function drops the consumed prefix and precedes this statement on every path
				g := f.Graph()
				p, okP := g.PointOf(as)
				var drops []core.Point
				for _, ba := range bufAssigns {
					r := core.Unparen(ba.Rhs[0])
					okDrop := false
					if se, ok := r.(*ast.SliceExpr); ok && isFld(se.X, bufFld) {
						if se.Low != nil && isFld(se.Low, offFld) {
							okDrop = true // buf[off:…]
						}
						if se.Low == nil && se.High != nil {
							if hv, isC := constInt(info, se.High); isC && hv == 0 {
								okDrop = true // buf[:0]
							}
						}
					}
					if cl, ok := r.(*ast.CallExpr); ok && f.CalleeID(cl) == "builtin.make" {
						okDrop = true
					}
					if okDrop {
						if bp, ok := g.PointOf(ba); ok {
							drops = append(drops, bp)
						}
					}
				}
				okAll := okP && len(drops) > 0
				if okAll {
					if _, skip := pathAvoiding(g, nil, []core.Point{p}, drops); skip {
						okAll = false
					}
				}
				c.Verdict(okAll, "C15-R5", key, pos(c, as), "offset reset together with a buffer that dropped the consumed bytes", "the reader's offset is set back to 0 while the buffer keeps its old contents: bytes that were already delivered (a fragment flushed by Finish, the tail of a finished connection) are scanned again and come out glued in front of the next data")
				return true
			}
			c.Undecided("C15-R5", key, pos(c, as), "the offset is assigned a value that is neither len(buf) nor 0")
			return true
		})
	}
	c.Floor("C15-R5", 2)
}

// bcapAtRead returns the capacity after the grow statement as recorded.
func (s *c15State) bcapAtRead(len0, size aff) aff { return s.bcap }
