package props

import (
	"fmt"
	"go/ast"
	"go/token"
	"strings"

	"verif/sa/core"
)

func init() { register("C16", c16) }

const (
	lrFinish      = "internal/tailer/logstream.(*LineReader).Finish"
	lrReadAndSend = "internal/tailer/logstream.(*LineReader).ReadAndSend"
	fsStream      = "internal/tailer/logstream.(*fileStream).stream"
)

func c16(c *core.Check) {
	c.Explain = "Decides structural necessary conditions of C16 on the file-stream goroutine and the line reader: (R1) every way a file generation ends — each return of the goroutine and each hand-over to a successor stream — is preceded on every path since the last read by a flush of the partial line (LineReader.Finish), and the flush precedes the hand-over; (R2) Finish consumes what it delivered (it empties the buffer) so a reader that keeps being used after a truncation cannot deliver the fragment a second time glued to new data; (R3) every exit either closes the stream's channel exactly once or has started a successor successfully — a failed successor closes the channel; nothing is flushed or handed over after the close; (R4) successor generations and truncated files are read from offset 0, the first generation from the end unless one-shot; (R5) at EOF-without-data the order is stat -> deleted? -> same file? -> size strictly below offset means truncation. Decided from the CFG of /repo's current source for all paths; file-system behaviour and index arithmetic inside the reader are not decided (C15)."
	c.Assume = append(c.Assume, "the file system reports rotation through os.SameFile and truncation through size < offset as documented", "exits by panic are not considered")
	f := c.MustFn("C16-R1", fsStream)
	if f == nil {
		return
	}
	gl := goLits(c, f)
	if len(gl) != 1 {
		c.Undecided("C16-R1", fsStream, pos(c, f.Decl), fmt.Sprintf("expected one goroutine literal in fileStream.stream, found %d", len(gl)))
		return
	}
	gf := gl[0]
	c.Analysed(gf)
	g := gf.Graph()
	reads := g.CallsTo(lrReadAndSend)
	finishes := g.CallsTo(lrFinish)
	succ := g.CallsTo(fsStream)
	closes := closesOf(g, ".lines")
	exits := normalExits(g)
	if len(reads) == 0 {
		c.Undecided("C16-R1", gf.Key, pos(c, gf.Lit), "no ReadAndSend call found in the stream goroutine")
		return
	}

	c.Rule("C16-R1", "FLUSH: in the file-stream goroutine no path from a LineReader.ReadAndSend call to (a) a return of the goroutine or (b) a call starting the successor stream avoids LineReader.Finish")
	type target struct {
		name string
		p    core.Point
		n    ast.Node
	}
	var targets []target
	for _, e := range exits {
		targets = append(targets, target{"exit=" + e.String(), e.P, e.P.Node()})
	}
	for i, s := range succ {
		targets = append(targets, target{fmt.Sprintf("successor#%d", i+1), s.P, s.N})
	}
	for _, t := range targets {
		bad := false
		for _, r := range reads {
			from := r.P
			if trail, found := pathAvoiding(g, &from, []core.Point{t.p}, core.HitPoints(finishes)); found {
				bad = true
				c.Fail("C16-R1", gf.Key+"|"+t.name, ppos(c, t.p, gf), "a file generation can end here without flushing the unterminated fragment read since the last ReadAndSend: the fragment is lost", trail...)
				break
			}
		}
		if !bad {
			c.Ok("C16-R1", gf.Key+"|"+t.name, ppos(c, t.p, gf), "Finish on every path from the last read")
		}
	}
	c.Floor("C16-R1", 5)

	c.Rule("C16-R2", "CONSUME: LineReader.Finish, on every path after sending the fragment, empties the buffer (lr.off = len(lr.buf), or lr.buf = lr.buf[:0]/nil with lr.off = 0) — required because the truncation branch keeps using the reader after Finish")
	if ff := c.MustFn("C16-R2", lrFinish); ff != nil {
		fg := ff.Graph()
		sends := fg.Find(func(n ast.Node) bool { _, ok := n.(*ast.SendStmt); return ok })
		resets := fg.Find(func(n ast.Node) bool {
			as, ok := n.(*ast.AssignStmt)
			if !ok || len(as.Lhs) != 1 || len(as.Rhs) != 1 {
				return false
			}
			l := core.PathOf(as.Lhs[0])
			r := strings.ReplaceAll(exprStr(as.Rhs[0]), " ", "")
			recv := recvIdent(ff)
			switch l {
			case recv + ".off":
				return r == "len("+recv+".buf)"
			case recv + ".buf":
				return r == recv+".buf[:0]" || r == "nil" || strings.HasPrefix(r, "make(") || r == recv+".buf[len("+recv+".buf):]"
			}
			return false
		})
		// is the reader used again after Finish anywhere?
		reused := []string{}
		for _, sf := range shipped(c) {
			sg := sf.Graph()
			for _, h := range sg.CallsTo(lrFinish) {
				if h.InDefer {
					continue
				}
				from := h.P
				again := append(core.HitPoints(sg.CallsTo(lrReadAndSend)), core.HitPoints(sg.CallsTo(lrFinish))...)
				if _, found := pathAvoiding(sg, &from, again, nil); found {
					reused = append(reused, sf.Key+"@"+pos(c, h.N))
				}
			}
		}
		c.Extra["finish_then_reader_reused_at"] = reused
		if len(sends) == 0 {
			c.Undecided("C16-R2", lrFinish, pos(c, ff.Decl), "no send statement found in Finish")
		}
		for i, s := range sends {
			from := s.P
			trail, found := pathAvoiding(fg, &from, core.ExitPoints(normalExits(fg)), core.HitPoints(resets))
			key := fmt.Sprintf("%s|send#%d", lrFinish, i+1)
			if found && len(reused) > 0 {
				c.Fail("C16-R2", key, pos(c, s.N), "Finish delivers the fragment but leaves it in the buffer, and the reader is used again after Finish at "+strings.Join(reused, ", ")+": after a truncation the fragment is delivered again merged with the first new line", trail...)
			} else if found {
				c.Ok("C16-R2", key, pos(c, s.N), "Finish does not reset the buffer, but no caller uses the reader again after Finish")
			} else {
				c.Ok("C16-R2", key, pos(c, s.N), "buffer emptied on every path after the send")
			}
		}
	}
	c.Floor("C16-R2", 1)

	c.Rule("C16-R3", "END-OR-CONTINUE: (a) no path from a read to a return avoids both close(fs.lines) and a successor start; (b) when the successor start reports an error every path to the return closes fs.lines; (c) no close(fs.lines) is followed by another close, a Finish, a read or a successor start")
	for _, e := range exits {
		bad := false
		for _, r := range reads {
			from := r.P
			if trail, found := pathAvoiding(g, &from, []core.Point{e.P}, append(core.HitPoints(closes), core.HitPoints(succ)...)); found {
				bad = true
				c.Fail("C16-R3", gf.Key+"|a|exit="+e.String(), ppos(c, e.P, gf), "the goroutine can end without closing the lines channel and without a successor: the tailer waits on this stream forever", trail...)
				break
			}
		}
		if !bad {
			c.Ok("C16-R3", gf.Key+"|a|exit="+e.String(), ppos(c, e.P, gf), "closed or continued")
		}
	}
	for i, s := range succ {
		key := fmt.Sprintf("%s|b|successor#%d", gf.Key, i+1)
		is := enclosingErrIf(gf, s.N.(*ast.CallExpr))
		if is == nil {
			c.Fail("C16-R3", key, pos(c, s.N), "the error result of the successor start is not tested: a failed successor leaves the stream neither closed nor continued")
			continue
		}
		start, ok := branchStart(g, is, true)
		if !ok {
			c.Undecided("C16-R3", key, pos(c, is), "cannot locate the error branch in the CFG")
			continue
		}
		if trail, found := pathAvoiding(g, start, core.ExitPoints(exits), core.HitPoints(closes)); found {
			c.Fail("C16-R3", key, pos(c, is), "when the successor stream cannot be started (new file unreadable or removed again) the goroutine returns without closing the lines channel: the path is never tailed again and the tailer never finishes", trail...)
		} else {
			c.Ok("C16-R3", key, pos(c, is), "failed successor closes the channel")
		}
		// on success (else/done branch) the channel must not be closed by this generation
		if done, ok := branchStart(g, is, false); ok {
			if trail, found := pathAvoiding(g, done, core.HitPoints(closes), core.HitPoints(reads)); found {
				c.Fail("C16-R3", key+"|success-closes", pos(c, is), "after a successful hand-over this generation closes the channel its successor sends on", trail...)
			}
		}
	}
	for i, cl := range closes {
		from := cl.P
		after := append(append(append(core.HitPoints(closes), core.HitPoints(finishes)...), core.HitPoints(reads)...), core.HitPoints(succ)...)
		key := fmt.Sprintf("%s|c|close#%d", gf.Key, i+1)
		if trail, found := pathAvoiding(g, &from, after, nil); found {
			c.Fail("C16-R3", key, pos(c, cl.N), "after close(fs.lines) the goroutine can still flush, read, hand over or close again (send on / close of a closed channel)", trail...)
		} else {
			c.Ok("C16-R3", key, pos(c, cl.N), "close is final")
		}
	}
	c.Floor("C16-R3", 8)

	c.Rule("C16-R4", "START-OFFSET: every successor start passes the constant true for streamFromStart; newFileStream passes oneShot == OneShotEnabled; in stream the seek to the end is guarded by !streamFromStart; every Seek in the goroutine is Seek(0, io.SeekCurrent) or Seek(0, io.SeekStart) and the truncation branch reaches Seek(0, io.SeekStart) after Finish on every path")
	pi := paramIndex(f, "streamFromStart")
	if pi < 0 {
		c.Undecided("C16-R4", fsStream, pos(c, f.Decl), "parameter streamFromStart not found")
	} else {
		for i, s := range succ {
			call := s.N.(*ast.CallExpr)
			v, isConst := constBool(gf.Info(), call.Args[pi])
			c.Verdict(isConst && v, "C16-R4", fmt.Sprintf("%s|successor#%d streamFromStart", gf.Key, i+1), pos(c, call), "true",
				"a successor generation is not started from offset 0: lines written to the new file before the hand-over are skipped")
		}
		if nf := c.MustFn("C16-R4", "internal/tailer/logstream.newFileStream"); nf != nil {
			for _, h := range nf.Graph().CallsTo(fsStream) {
				call := h.N.(*ast.CallExpr)
				arg := call.Args[pi]
				okArg := false
				if id, ok := core.Unparen(arg).(*ast.Ident); ok {
					// find its single definition
					core.InspectNoLit(nf.Body, func(n ast.Node) bool {
						if as, ok := n.(*ast.AssignStmt); ok && len(as.Lhs) == 1 && len(as.Rhs) == 1 {
							if l, ok := as.Lhs[0].(*ast.Ident); ok && nf.Info().ObjectOf(l) == nf.Info().ObjectOf(id) {
								r := strings.ReplaceAll(exprStr(as.Rhs[0]), " ", "")
								okArg = r == "oneShot==OneShotEnabled" || r == "OneShotEnabled==oneShot"
							}
						}
						return true
					})
				} else {
					r := strings.ReplaceAll(exprStr(arg), " ", "")
					okArg = r == "oneShot==OneShotEnabled"
				}
				c.Verdict(okArg, "C16-R4", "internal/tailer/logstream.newFileStream|first generation", pos(c, call), "streamFromStart = (oneShot == OneShotEnabled)",
					"the first generation's start offset is not `oneShot == OneShotEnabled`: a tailed file is replayed from the start, or a one-shot file is skipped")
			}
		}
		// seek to end guarded by !streamFromStart
		sg := f.Graph()
		for _, h := range sg.CallsTo("os.(*File).Seek") {
			call := h.N.(*ast.CallExpr)
			wh := exprStr(call.Args[1])
			off, isC := constInt(f.Info(), call.Args[0])
			if wh != "io.SeekEnd" || !isC || off != 0 {
				c.Fail("C16-R4", fsStream+"|initial seek", pos(c, call), "the initial seek is not Seek(0, io.SeekEnd)")
				continue
			}
			guarded := false
			for _, ic := range f.EnclosingIfs(call.Pos()) {
				cond := strings.ReplaceAll(exprStr(ic.If.Cond), " ", "")
				if (cond == "!streamFromStart" && ic.InThen) || (cond == "streamFromStart" && !ic.InThen) {
					guarded = true
				}
			}
			c.Verdict(guarded, "C16-R4", fsStream+"|initial seek", pos(c, call), "seek to end only when !streamFromStart", "the seek to the end of the file is not guarded by !streamFromStart")
		}
	}
	// seeks in the goroutine
	var seekStart, seekCur []core.Hit
	for _, h := range g.CallsTo("os.(*File).Seek") {
		call := h.N.(*ast.CallExpr)
		off, isC := constInt(gf.Info(), call.Args[0])
		wh := exprStr(call.Args[1])
		switch {
		case isC && off == 0 && wh == "io.SeekStart":
			seekStart = append(seekStart, h)
		case isC && off == 0 && wh == "io.SeekCurrent":
			seekCur = append(seekCur, h)
		default:
			c.Fail("C16-R4", gf.Key+"|seek", pos(c, call), "unexpected seek in the stream goroutine: only Seek(0, io.SeekCurrent) (tell) and Seek(0, io.SeekStart) (truncation) keep the read offset consistent with what was delivered")
		}
	}
	// truncation branch
	truncIfs := ifsWhere(gf, func(is *ast.IfStmt) bool {
		return exprCalls(gf, is.Cond, "io/fs.FileInfo.Size", "os.FileInfo.Size") || strings.Contains(exprStr(is.Cond), ".Size()")
	})
	c.Rule("C16-R5", "DETECT: the goroutine stats the tailed path; IsNotExist leads to Finish+close+return; os.SameFile(fi, newfi) compares the generation's own FileInfo with the fresh stat; truncation is `size < offset` (strict) with offset from Seek(0, io.SeekCurrent), and the rotation test precedes the truncation test")
	if len(truncIfs) != 1 {
		c.Undecided("C16-R5", gf.Key+"|truncation test", pos(c, gf.Lit), fmt.Sprintf("expected one `if newfi.Size() < offset`, found %d", len(truncIfs)))
	} else {
		ti := truncIfs[0]
		be, _ := core.Unparen(ti.Cond).(*ast.BinaryExpr)
		okCmp := false
		if be != nil {
			l, r := exprStr(be.X), exprStr(be.Y)
			var offExpr ast.Expr
			if strings.HasSuffix(l, ".Size()") && be.Op == token.LSS {
				offExpr = be.Y
			} else if strings.HasSuffix(r, ".Size()") && be.Op == token.GTR {
				offExpr = be.X
			}
			if offExpr != nil {
				// offset must be the result of a Seek(0, SeekCurrent)
				obj := identObj(gf.Info(), offExpr)
				for _, h := range seekCur {
					if as := assignOf(gf, h.N.(*ast.CallExpr)); as != nil && len(as.Lhs) > 0 && identObj(gf.Info(), as.Lhs[0]) == obj && obj != nil {
						okCmp = true
					}
				}
			}
		}
		c.Verdict(okCmp, "C16-R5", gf.Key+"|truncation test", pos(c, ti), "size < current offset (strict)", "the truncation test is not `new size < current read offset` (strict, offset from Seek(0, io.SeekCurrent)): with <= every idle poll re-reads the whole file; with a different operand truncations are missed")
		// branch: Finish then SeekStart on every path to leaving the branch
		if start, ok := branchStart(g, ti, true); ok {
			head := loopHeadOf(g, gf)
			leave := append(core.ExitPoints(exits), core.HitPoints(reads)...)
			_ = head
			if trail, found := pathAvoiding(g, start, leave, core.HitPoints(seekStart)); found {
				c.Fail("C16-R4", gf.Key+"|truncation seek", pos(c, ti), "the truncation branch can go back to reading without Seek(0, io.SeekStart): the new contents are never read (offset stays beyond the end)", trail...)
			} else {
				c.Ok("C16-R4", gf.Key+"|truncation seek", pos(c, ti), "Seek(0, io.SeekStart) before the next read")
			}
			if trail, found := pathAvoiding(g, start, core.HitPoints(seekStart), core.HitPoints(finishes)); found {
				c.Fail("C16-R1", gf.Key+"|truncation flush", pos(c, ti), "the truncation branch rewinds without first flushing the fragment of the old contents", trail...)
			} else {
				c.Ok("C16-R1", gf.Key+"|truncation flush", pos(c, ti), "Finish before rewinding")
			}
		}
		// rotation test precedes truncation test
		same := g.CallsTo("os.SameFile")
		if len(same) != 1 {
			c.Undecided("C16-R5", gf.Key+"|rotation test", pos(c, gf.Lit), fmt.Sprintf("expected one os.SameFile call, found %d", len(same)))
		} else {
			call := same[0].N.(*ast.CallExpr)
			stats := g.CallsTo("os.Stat")
			okArgs := false
			fiObj := paramObj(f, "fi")
			if len(stats) == 1 {
				if as := assignOf(gf, stats[0].N.(*ast.CallExpr)); as != nil {
					newfi := identObj(gf.Info(), as.Lhs[0])
					a0, a1 := identObj(gf.Info(), call.Args[0]), identObj(gf.Info(), call.Args[1])
					okArgs = newfi != nil && fiObj != nil && ((a0 == fiObj && a1 == newfi) || (a1 == fiObj && a0 == newfi))
				}
				sc := stats[0].N.(*ast.CallExpr)
				okPath := len(sc.Args) == 1 && strings.HasSuffix(core.PathOf(sc.Args[0]), ".pathname")
				c.Verdict(okPath, "C16-R5", gf.Key+"|stat path", pos(c, sc), "stat of the tailed pathname", "the stat that detects rotation is not of the tailed pathname")
			}
			c.Verdict(okArgs, "C16-R5", gf.Key+"|rotation test", pos(c, call), "SameFile(this generation's FileInfo, fresh stat)", "os.SameFile does not compare this generation's FileInfo with the fresh stat of the path")
			// every path to the truncation cond passes SameFile
			if cp, ok := g.PointOf(ti.Cond); ok {
				if trail, found := pathAvoiding(g, nil, []core.Point{cp}, core.HitPoints(same)); found {
					c.Fail("C16-R5", gf.Key+"|order", pos(c, ti), "the truncation test can be reached without the rotation test", trail...)
				} else {
					c.Ok("C16-R5", gf.Key+"|order", pos(c, ti), "rotation test first")
				}
			}
			// successor on rotation gets the fresh FileInfo
			for i, s := range succ {
				sc := s.N.(*ast.CallExpr)
				fiIdx := paramIndex(f, "fi")
				in := false
				for _, ic := range gf.EnclosingIfs(sc.Pos()) {
					if exprCalls(gf, ic.If.Cond, "os.SameFile") {
						in = true
					}
				}
				if in && fiIdx >= 0 && len(stats) == 1 {
					as := assignOf(gf, stats[0].N.(*ast.CallExpr))
					okFi := as != nil && identObj(gf.Info(), sc.Args[fiIdx]) == identObj(gf.Info(), as.Lhs[0])
					c.Verdict(okFi, "C16-R5", fmt.Sprintf("%s|successor#%d fileinfo", gf.Key, i+1), pos(c, sc), "successor receives the new file's FileInfo",
						"the successor started on rotation does not receive the new file's FileInfo: it compares against the old inode and re-opens forever or misses the next rotation")
				}
			}
		}
		// deletion: IsNotExist branch closes
		notEx := ifsWhere(gf, func(is *ast.IfStmt) bool { return exprCalls(gf, is.Cond, "os.IsNotExist") })
		for i, ne := range notEx {
			if start, ok := branchStart(g, ne, true); ok {
				key := fmt.Sprintf("%s|deleted#%d", gf.Key, i+1)
				t1, f1 := pathAvoiding(g, start, append(core.ExitPoints(exits), core.HitPoints(reads)...), core.HitPoints(closes))
				if f1 {
					c.Fail("C16-R5", key, pos(c, ne), "when the file no longer exists the stream does not end (close) before reading again or returning", t1...)
				} else {
					c.Ok("C16-R5", key, pos(c, ne), "deleted file ends the stream")
				}
			}
		}
		if len(notEx) == 0 {
			c.Fail("C16-R5", gf.Key+"|deleted", pos(c, gf.Lit), "no os.IsNotExist test on the stat error: a deleted file is polled forever and a re-created one is never picked up")
		}
	}
	c.Floor("C16-R4", 4)
	c.Floor("C16-R5", 5)
}

// enclosingErrIf finds `if err := <call>; err != nil {` or `err := <call>` followed by
// `if err != nil` for the given call.
func enclosingErrIf(f *core.Func, call *ast.CallExpr) *ast.IfStmt {
	var res *ast.IfStmt
	info := f.Info()
	var errObj = func(as *ast.AssignStmt) interface{} {
		if len(as.Lhs) == 0 {
			return nil
		}
		return identObj(info, as.Lhs[len(as.Lhs)-1])
	}
	ast.Inspect(f.Body, func(n ast.Node) bool {
		is, ok := n.(*ast.IfStmt)
		if !ok {
			return true
		}
		if as, ok := is.Init.(*ast.AssignStmt); ok && len(as.Rhs) == 1 && core.Unparen(as.Rhs[0]) == ast.Expr(call) {
			if be, ok := core.Unparen(is.Cond).(*ast.BinaryExpr); ok && be.Op == token.NEQ && isNilIdent(info, be.Y) {
				if o := identObj(info, be.X); o != nil && o == errObj(as) {
					res = is
				}
			}
		}
		return true
	})
	if res != nil {
		return res
	}
	// separate statement form
	as := assignOf(f, call)
	if as == nil {
		return nil
	}
	eo := errObj(as)
	ast.Inspect(f.Body, func(n ast.Node) bool {
		is, ok := n.(*ast.IfStmt)
		if !ok || res != nil || is.Pos() < as.End() {
			return true
		}
		if be, ok := core.Unparen(is.Cond).(*ast.BinaryExpr); ok && be.Op == token.NEQ && isNilIdent(info, be.Y) {
			if o := identObj(info, be.X); o != nil && o == eo {
				res = is
			}
		}
		return true
	})
	return res
}

// assignOf finds the assignment statement whose single right-hand side is call.
func assignOf(f *core.Func, call *ast.CallExpr) *ast.AssignStmt {
	var res *ast.AssignStmt
	ast.Inspect(f.Body, func(n ast.Node) bool {
		if as, ok := n.(*ast.AssignStmt); ok && len(as.Rhs) == 1 && core.Unparen(as.Rhs[0]) == ast.Expr(call) {
			res = as
		}
		return res == nil
	})
	return res
}

func loopHeadOf(g *core.Graph, f *core.Func) interface{} { return nil }
