package props

import (
	"fmt"
	"go/ast"
	"go/token"
	"go/types"
	"strings"

	"verif/sa/core"
)

func init() { register("C16", c16) }

const (
	lrFinish      = "internal/tailer/logstream.(*LineReader).Finish"
	lrReadAndSend = "internal/tailer/logstream.(*LineReader).ReadAndSend"
	fsStream      = "internal/tailer/logstream.(*fileStream).stream"
)

// whence values of io.Seek*: resolved as constants, not as spellings.
const (
	c16SeekStart   = 0
	c16SeekCurrent = 1
	c16SeekEnd     = 2
)

// c16IsFileInfo reports whether t is os.FileInfo (= io/fs.FileInfo).
func c16IsFileInfo(t types.Type) bool {
	n, ok := t.(*types.Named)
	if !ok {
		if a, isAlias := t.(*types.Alias); isAlias {
			return c16IsFileInfo(types.Unalias(a))
		}
		return false
	}
	return n.Obj().Name() == "FileInfo" && n.Obj().Pkg() != nil && (n.Obj().Pkg().Path() == "io/fs" || n.Obj().Pkg().Path() == "os")
}

func c16IsBool(t types.Type) bool {
	b, ok := t.(*types.Basic)
	return ok && b.Kind() == types.Bool
}

// c16Seek decomposes a call of (*os.File).Seek with constant arguments.
func c16Seek(f *core.Func, call *ast.CallExpr) (off, whence int64, ok bool) {
	if len(call.Args) != 2 {
		return 0, 0, false
	}
	o, ok1 := constInt(f.Info(), call.Args[0])
	w, ok2 := constInt(f.Info(), call.Args[1])
	return o, w, ok1 && ok2
}

// c16Succ is a start of a successor generation seen from the goroutine: a
// direct call of fileStream.stream, or a call of a helper that calls it.
type c16Succ struct {
	hit    core.Hit
	call   *ast.CallExpr
	helper *core.Func // nil for a direct call
}

func c16(c *core.Check) {
	c.Explain = "Decides structural necessary conditions of C16 on the file-stream goroutine and the line reader: (R1) every way a file generation ends — each return of the goroutine and each hand-over to a successor stream — is preceded on every path since the last read by a flush of the partial line (LineReader.Finish), and the flush precedes the hand-over; (R2) Finish consumes what it delivered (it empties the buffer) so a reader that keeps being used after a truncation cannot deliver the fragment a second time glued to new data; (R3) every exit either closes the stream's channel exactly once or has started a successor successfully — a failed successor closes the channel; nothing is flushed or handed over after the close; (R4) successor generations and truncated files are read from offset 0, the first generation from the end unless one-shot; (R5) at EOF-without-data the order is stat -> deleted? -> same file? -> size strictly below offset means truncation. Decided from the CFG of /repo's current source for all paths; conditions are recognised through the branch edges they label (either polarity, if/switch/early exit, single-assignment locals), the goroutine body may be a literal or a method started with go, and a hand-over may go through a helper that calls stream. File-system behaviour and index arithmetic inside the reader are not decided (C15)."
	c.Assume = append(c.Assume, "the file system reports rotation through os.SameFile and truncation through size < offset as documented", "exits by panic are not considered",
		"a local variable with exactly one definition keeps the value of its defining expression")
	f := c.MustFn("C16-R1", fsStream)
	if f == nil {
		return
	}
	// the goroutine that reads: a literal or a declared function started with `go` in stream
	var gf *core.Func
	var goCall *ast.CallExpr
	ngo := 0
	core.InspectNoLit(f.Body, func(n ast.Node) bool {
		gs, ok := n.(*ast.GoStmt)
		if !ok {
			return true
		}
		var cand *core.Func
		if lit, ok := core.Unparen(gs.Call.Fun).(*ast.FuncLit); ok {
			cand = c.Prog.FuncOf[lit]
		} else {
			cand = f.CalleeFunc(gs.Call)
		}
		if cand != nil && len(cand.Graph().CallsTo(lrReadAndSend)) > 0 {
			ngo++
			gf, goCall = cand, gs.Call
		}
		return true
	})
	if ngo != 1 {
		c.Undecided("C16-R1", fsStream, pos(c, f.Decl), fmt.Sprintf("expected one goroutine (literal or method started with go) calling ReadAndSend in fileStream.stream, found %d", ngo))
		return
	}
	c.Analysed(gf)
	g := gf.Graph()
	ginfo := gf.Info()
	reads := g.CallsTo(lrReadAndSend)
	finishes := g.CallsTo(lrFinish)
	closes := g.Calls(func(id string, call *ast.CallExpr) bool {
		return id == "builtin.close" && len(call.Args) == 1 && isChanOfLogLine(ginfo, call.Args[0])
	})
	exits := normalExits(g)
	// successor starts
	var succ []c16Succ
	for _, h := range g.Find(func(n ast.Node) bool { _, ok := n.(*ast.CallExpr); return ok }) {
		call := h.N.(*ast.CallExpr)
		if gf.CalleeID(call) == fsStream {
			succ = append(succ, c16Succ{hit: h, call: call})
			continue
		}
		if cf := gf.CalleeFunc(call); cf != nil && cf != f && cf != gf && cf.Lit == nil && len(cf.Graph().CallsTo(fsStream)) > 0 {
			c.Analysed(cf)
			succ = append(succ, c16Succ{hit: h, call: call, helper: cf})
		}
	}
	// helpers (one level) that flush and/or close on every path through them count as
	// a Finish / a close at their call site
	isSuccHelper := map[*core.Func]bool{}
	for _, s := range succ {
		if s.helper != nil {
			isSuccHelper[s.helper] = true
		}
	}
	for _, h := range g.Find(func(n ast.Node) bool { _, ok := n.(*ast.CallExpr); return ok }) {
		call := h.N.(*ast.CallExpr)
		cf := gf.CalleeFunc(call)
		if cf == nil || cf == f || cf == gf || cf.Lit != nil || isSuccHelper[cf] || gf.CalleeID(call) == lrFinish || gf.CalleeID(call) == lrReadAndSend {
			continue
		}
		hg := cf.Graph()
		hF := core.HitPoints(hg.CallsTo(lrFinish))
		hC := core.HitPoints(hg.Calls(func(id string, c2 *ast.CallExpr) bool {
			return id == "builtin.close" && len(c2.Args) == 1 && isChanOfLogLine(cf.Info(), c2.Args[0])
		}))
		if len(hF) == 0 && len(hC) == 0 {
			continue
		}
		c.Analysed(cf)
		hexits := core.ExitPoints(normalExits(hg))
		if len(hF) > 0 {
			if _, some := pathAvoiding(hg, nil, hexits, hF); some {
				c.Undecided("C16-R1", gf.Key+"|helper "+cf.Key, pos(c, call), "the callee flushes the reader on some of its paths only; whether this call site flushes is not decided")
			} else {
				finishes = append(finishes, h)
			}
		}
		if len(hC) > 0 {
			if _, some := pathAvoiding(hg, nil, hexits, hC); some {
				c.Undecided("C16-R3", gf.Key+"|helper "+cf.Key, pos(c, call), "the callee closes the lines channel on some of its paths only; whether this call site ends the stream is not decided")
			} else {
				closes = append(closes, h)
				// inside the helper nothing may follow the close
				for _, cp := range hC {
					from := cp
					if tr, bad := pathAvoiding(hg, &from, append(append([]core.Point{}, hF...), hC...), nil); bad {
						c.Fail("C16-R3", gf.Key+"|c|helper "+cf.Key, pos(c, call), "in the callee the lines channel is closed and then flushed into or closed again (send on / close of a closed channel)", tr...)
					}
				}
			}
		}
	}
	byPos := func(hs []core.Hit) {
		for i := 1; i < len(hs); i++ {
			for j := i; j > 0 && hs[j].N.Pos() < hs[j-1].N.Pos(); j-- {
				hs[j], hs[j-1] = hs[j-1], hs[j]
			}
		}
	}
	byPos(finishes)
	byPos(closes)
	succPts := func() []core.Point {
		var r []core.Point
		for _, s := range succ {
			r = append(r, s.hit.P)
		}
		return r
	}()

	c.Rule("C16-R1", "FLUSH: in the file-stream goroutine no path from a LineReader.ReadAndSend call to (a) a return of the goroutine or (b) a call starting the successor stream (directly or through a helper) avoids LineReader.Finish")
	type target struct {
		name string
		p    core.Point
	}
	var targets []target
	for _, e := range exits {
		targets = append(targets, target{"exit=" + e.String(), e.P})
	}
	for i, s := range succ {
		targets = append(targets, target{fmt.Sprintf("successor#%d", i+1), s.hit.P})
	}
	for _, t := range targets {
		bad := false
		for _, r := range reads {
			from := r.P
			if trail, found := pathAvoiding(g, &from, []core.Point{t.p}, core.HitPoints(finishes)); found {
				bad = true
				c.Fail("C16-R1", gf.Key+"|"+t.name, ppos(c, t.p, gf), "a file generation can end here without flushing the unterminated fragment read since the last ReadAndSend: the fragment is lost", trail...)
				break
			}
		}
		if !bad {
			c.Ok("C16-R1", gf.Key+"|"+t.name, ppos(c, t.p, gf), "Finish on every path from the last read")
		}
	}
	c.Floor("C16-R1", 5)

	c.Rule("C16-R2", "CONSUME: LineReader.Finish, on every path after sending the fragment, empties the buffer: off = len(buf), or buf = buf[:0]/nil/make/buf[len(buf):] together with off = 0 (directly or in a method of the reader it calls) — required because the truncation branch keeps using the reader after Finish")
	c16Finish(c)
	c.Floor("C16-R2", 1)

	c.Rule("C16-R3", "END-OR-CONTINUE: (a) no path from a read to a return avoids both close(lines) and a successor start; (b) when the successor start reports an error every path to the return closes the channel (in the goroutine, or in the hand-over helper) and a successful hand-over is not followed by a close; (c) no close(lines) is followed by another close, a Finish, a read or a successor start")
	for _, e := range exits {
		bad := false
		for _, r := range reads {
			from := r.P
			if trail, found := pathAvoiding(g, &from, []core.Point{e.P}, append(core.HitPoints(closes), succPts...)); found {
				bad = true
				c.Fail("C16-R3", gf.Key+"|a|exit="+e.String(), ppos(c, e.P, gf), "the goroutine can end without closing the lines channel and without a successor: the tailer waits on this stream forever", trail...)
				break
			}
		}
		if !bad {
			c.Ok("C16-R3", gf.Key+"|a|exit="+e.String(), ppos(c, e.P, gf), "closed or continued")
		}
	}
	for i, s := range succ {
		key := fmt.Sprintf("%s|b|successor#%d", gf.Key, i+1)
		site, errOnTrue, found, _ := hbErrTest(gf, g, s.call)
		switch {
		case found:
			if trail, bad := pathAvoiding(g, hbBranch(site, errOnTrue), core.ExitPoints(exits), core.HitPoints(closes)); bad {
				c.Fail("C16-R3", key, pos(c, site.Cond), "when the successor stream cannot be started (new file unreadable or removed again) the goroutine returns without closing the lines channel: the path is never tailed again and the tailer never finishes", trail...)
			} else {
				c.Ok("C16-R3", key, pos(c, site.Cond), "failed successor closes the channel")
			}
			if trail, bad := pathAvoiding(g, hbBranch(site, !errOnTrue), core.HitPoints(closes), core.HitPoints(reads)); bad {
				c.Fail("C16-R3", key+"|success-closes", pos(c, site.Cond), "after a successful hand-over this generation closes the channel its successor sends on", trail...)
			}
		case s.helper != nil:
			// the helper starts the successor and must close on failure; the goroutine must not close after it
			hg := s.helper.Graph()
			hcloses := hg.Calls(func(id string, call *ast.CallExpr) bool {
				return id == "builtin.close" && len(call.Args) == 1 && isChanOfLogLine(s.helper.Info(), call.Args[0])
			})
			hexits := normalExits(hg)
			okAll := true
			for _, hh := range hg.CallsTo(fsStream) {
				hs, hErrOnTrue, hfound, _ := hbErrTest(s.helper, hg, hh.N.(*ast.CallExpr))
				if !hfound {
					okAll = false
					c.Fail("C16-R3", key, pos(c, hh.N), "the error result of the successor start is not tested in the hand-over helper "+s.helper.Key+": a failed successor leaves the stream neither closed nor continued")
					continue
				}
				if trail, bad := pathAvoiding(hg, hbBranch(hs, hErrOnTrue), core.ExitPoints(hexits), core.HitPoints(hcloses)); bad {
					okAll = false
					c.Fail("C16-R3", key, pos(c, hs.Cond), "when the successor stream cannot be started the hand-over helper "+s.helper.Key+" returns without closing the lines channel: the path is never tailed again and the tailer never finishes", trail...)
				}
				if trail, bad := pathAvoiding(hg, hbBranch(hs, !hErrOnTrue), core.HitPoints(hcloses), nil); bad {
					okAll = false
					c.Fail("C16-R3", key+"|success-closes", pos(c, hs.Cond), "after a successful hand-over the helper closes the channel the successor sends on", trail...)
				}
			}
			from := s.hit.P
			if trail, bad := pathAvoiding(g, &from, core.HitPoints(closes), core.HitPoints(reads)); bad {
				okAll = false
				c.Fail("C16-R3", key+"|success-closes", pos(c, s.call), "after the hand-over helper (which closes the channel itself when the successor cannot be started) this generation closes the channel again, or closes the channel its successor sends on", trail...)
			}
			if okAll {
				c.Ok("C16-R3", key, pos(c, s.call), "hand-over helper "+s.helper.Key+" closes the channel when the successor fails")
			}
		default:
			c.Fail("C16-R3", key, pos(c, s.call), "the error result of the successor start is not tested: a failed successor leaves the stream neither closed nor continued")
		}
	}
	for i, cl := range closes {
		from := cl.P
		after := append(append(append(core.HitPoints(closes), core.HitPoints(finishes)...), core.HitPoints(reads)...), succPts...)
		key := fmt.Sprintf("%s|c|close#%d", gf.Key, i+1)
		if trail, found := pathAvoiding(g, &from, after, nil); found {
			c.Fail("C16-R3", key, pos(c, cl.N), "after close(fs.lines) the goroutine can still flush, read, hand over or close again (send on / close of a closed channel)", trail...)
		} else {
			c.Ok("C16-R3", key, pos(c, cl.N), "close is final")
		}
	}
	c.Floor("C16-R3", 8)

	c.Rule("C16-R4", "START-OFFSET: every successor start passes the constant true for stream's boolean parameter (streamFromStart); newFileStream passes `oneShot is enabled` for it; in stream the Seek(0, io.SeekEnd) is reachable only where that parameter is false; every Seek in the goroutine is Seek(0, io.SeekCurrent) or Seek(0, io.SeekStart) and the truncation branch reaches Seek(0, io.SeekStart) after Finish on every path")
	boolParams, boolIdx := hbParamsWhere(f, c16IsBool)
	if len(boolParams) != 1 {
		c.Undecided("C16-R4", fsStream, pos(c, f.Decl), fmt.Sprintf("expected exactly one bool parameter (streamFromStart) of fileStream.stream, found %d", len(boolParams)))
	} else {
		fromStart, pi := boolParams[0], boolIdx[0]
		for i, s := range succ {
			key := fmt.Sprintf("%s|successor#%d streamFromStart", gf.Key, i+1)
			const failTxt = "a successor generation is not started from offset 0: lines written to the new file before the hand-over are skipped"
			if s.helper == nil {
				v, isConst := constBool(ginfo, s.call.Args[pi])
				c.Verdict(isConst && v, "C16-R4", key, pos(c, s.call), "true", failTxt)
				continue
			}
			for _, hh := range s.helper.Graph().CallsTo(fsStream) {
				hc := hh.N.(*ast.CallExpr)
				v, isConst := constBool(s.helper.Info(), hc.Args[pi])
				c.Verdict(isConst && v, "C16-R4", key, pos(c, hc), "true (in "+s.helper.Key+")", failTxt)
			}
		}
		if nf := c.MustFn("C16-R4", "internal/tailer/logstream.newFileStream"); nf != nil {
			ninfo := nf.Info()
			for _, h := range nf.Graph().CallsTo(fsStream) {
				call := h.N.(*ast.CallExpr)
				arg := hbResolve(nf, call.Args[pi])
				verdict := c16OneShotEnabled(nf, ninfo, arg)
				key := "internal/tailer/logstream.newFileStream|first generation"
				switch verdict {
				case "yes":
					c.Ok("C16-R4", key, pos(c, call), "streamFromStart = (oneShot is enabled)")
				case "no":
					c.Fail("C16-R4", key, pos(c, call), "the first generation's start offset is not `oneShot == OneShotEnabled` (got "+exprStr(arg)+"): a tailed file is replayed from the start, or a one-shot file is skipped")
				default:
					c.Undecided("C16-R4", key, pos(c, call), "the first generation's streamFromStart argument has an unrecognised shape: "+exprStr(arg))
				}
			}
		}
		// seek to end only when !streamFromStart
		sg := f.Graph()
		notFromStart := hbBoolAtom(f.Info(), fromStart, false)
		for _, h := range sg.CallsTo("os.(*File).Seek") {
			call := h.N.(*ast.CallExpr)
			off, wh, isC := c16Seek(f, call)
			if !isC || wh != c16SeekEnd || off != 0 {
				c.Fail("C16-R4", fsStream+"|initial seek", pos(c, call), "the initial seek is not Seek(0, io.SeekEnd)")
				continue
			}
			tr, unguarded := hbUnguardedPath(sg, nil, []core.Point{h.P}, notFromStart)
			c.Verdict(!unguarded, "C16-R4", fsStream+"|initial seek", pos(c, call), "seek to end only when !streamFromStart", "the seek to the end of the file is reachable when streamFromStart is true: a successor generation (or a one-shot file) skips what is already in the file", tr...)
		}
	}
	// seeks in the goroutine
	var seekStart, seekCur []core.Hit
	for _, h := range g.CallsTo("os.(*File).Seek") {
		call := h.N.(*ast.CallExpr)
		off, wh, isC := c16Seek(gf, call)
		switch {
		case isC && off == 0 && wh == c16SeekStart:
			seekStart = append(seekStart, h)
		case isC && off == 0 && wh == c16SeekCurrent:
			seekCur = append(seekCur, h)
		default:
			c.Fail("C16-R4", gf.Key+"|seek", pos(c, call), "unexpected seek in the stream goroutine: only Seek(0, io.SeekCurrent) (tell) and Seek(0, io.SeekStart) (truncation) keep the read offset consistent with what was delivered")
		}
	}

	c.Rule("C16-R5", "DETECT: the goroutine stats the tailed path; a not-exist error leads to Finish+close+return; os.SameFile compares the generation's own FileInfo with the fresh stat; truncation is `size of the fresh stat < offset` (strict, either operand order or negated) with offset from Seek(0, io.SeekCurrent), the rotation test precedes the truncation test, and a successor started on rotation receives the fresh FileInfo")
	// fresh stat
	stats := g.CallsTo("os.Stat")
	var newfi types.Object
	if len(stats) == 1 {
		if as := assignOf(gf, stats[0].N.(*ast.CallExpr)); as != nil && len(as.Lhs) > 0 {
			newfi = identObj(ginfo, as.Lhs[0])
		}
	}
	// offsets obtained from Seek(0, io.SeekCurrent)
	offsetObjs := map[types.Object]bool{}
	for _, h := range seekCur {
		if as := assignOf(gf, h.N.(*ast.CallExpr)); as != nil && len(as.Lhs) > 0 {
			if o := identObj(ginfo, as.Lhs[0]); o != nil {
				offsetObjs[o] = true
			}
		}
	}
	isSize := func(e ast.Expr) (ast.Expr, bool) {
		call, ok := hbResolve(gf, e).(*ast.CallExpr)
		if !ok {
			return nil, false
		}
		sel, ok := core.Unparen(call.Fun).(*ast.SelectorExpr)
		if !ok || sel.Sel.Name != "Size" || len(call.Args) != 0 {
			return nil, false
		}
		if t := ginfo.TypeOf(sel.X); t == nil || !c16IsFileInfo(t) {
			return nil, false
		}
		return sel.X, true
	}
	type truncTest struct {
		site      hbSite
		truncTrue bool // the truncation edge is the true edge
		strict    bool
		sizeOf    ast.Expr
		other     ast.Expr
	}
	var truncs []truncTest
	for _, s := range hbSites(g) {
		e := core.Unparen(s.Cond)
		if id, ok := e.(*ast.Ident); ok {
			if def := hbSingleDef(gf, identObj(ginfo, id)); def != nil {
				e = core.Unparen(def)
			}
		}
		neg := false
		for {
			u, ok := e.(*ast.UnaryExpr)
			if !ok || u.Op != token.NOT {
				break
			}
			neg = !neg
			e = core.Unparen(u.X)
		}
		be, ok := e.(*ast.BinaryExpr)
		if !ok {
			continue
		}
		op := be.Op
		var sizeOf, other ast.Expr
		if x, ok := isSize(be.X); ok {
			sizeOf, other = x, be.Y
		} else if x, ok := isSize(be.Y); ok {
			sizeOf, other = x, be.X
			op = map[token.Token]token.Token{token.LSS: token.GTR, token.GTR: token.LSS, token.LEQ: token.GEQ, token.GEQ: token.LEQ}[op]
		} else {
			continue
		}
		// normalised: size op other
		t := truncTest{site: s, sizeOf: sizeOf, other: other}
		switch op {
		case token.LSS:
			t.truncTrue, t.strict = true, true
		case token.GEQ:
			t.truncTrue, t.strict = false, true
		case token.LEQ:
			t.truncTrue, t.strict = true, false
		case token.GTR:
			t.truncTrue, t.strict = false, false
		default:
			continue
		}
		if neg {
			t.truncTrue = !t.truncTrue
		}
		truncs = append(truncs, t)
	}
	if len(truncs) != 1 {
		c.Undecided("C16-R5", gf.Key+"|truncation test", pos(c, gf.Body), fmt.Sprintf("expected one comparison of a FileInfo's Size() with the read offset, found %d", len(truncs)))
	} else {
		tt := truncs[0]
		okOff := offsetObjs[identObj(ginfo, hbResolve(gf, tt.other))] || offsetObjs[identObj(ginfo, tt.other)]
		okFresh := newfi != nil && identObj(ginfo, tt.sizeOf) == newfi
		c.Verdict(tt.strict && okOff && okFresh, "C16-R5", gf.Key+"|truncation test", pos(c, tt.site.Cond), "fresh size < current offset (strict)",
			fmt.Sprintf("the truncation test is not `size of the fresh stat < current read offset` (strict=%v, offset from Seek(0, io.SeekCurrent)=%v, size of the fresh stat=%v): with <= every idle poll re-reads the whole file; with a different operand truncations are missed", tt.strict, okOff, okFresh))
		start := hbBranch(tt.site, tt.truncTrue)
		leave := append(core.ExitPoints(exits), core.HitPoints(reads)...)
		if trail, found := pathAvoiding(g, start, leave, core.HitPoints(seekStart)); found {
			c.Fail("C16-R4", gf.Key+"|truncation seek", pos(c, tt.site.Cond), "the truncation branch can go back to reading without Seek(0, io.SeekStart): the new contents are never read (offset stays beyond the end)", trail...)
		} else {
			c.Ok("C16-R4", gf.Key+"|truncation seek", pos(c, tt.site.Cond), "Seek(0, io.SeekStart) before the next read")
		}
		if trail, found := pathAvoiding(g, start, core.HitPoints(seekStart), core.HitPoints(finishes)); found {
			c.Fail("C16-R1", gf.Key+"|truncation flush", pos(c, tt.site.Cond), "the truncation branch rewinds without first flushing the fragment of the old contents", trail...)
		} else {
			c.Ok("C16-R1", gf.Key+"|truncation flush", pos(c, tt.site.Cond), "Finish before rewinding")
		}
		// rotation test
		same := g.CallsTo("os.SameFile")
		if len(same) != 1 {
			c.Undecided("C16-R5", gf.Key+"|rotation test", pos(c, gf.Body), fmt.Sprintf("expected one os.SameFile call, found %d", len(same)))
		} else {
			call := same[0].N.(*ast.CallExpr)
			// this generation's FileInfo: the FileInfo parameter of stream (captured), or the
			// goroutine function's own FileInfo parameter fed from it at the go statement
			ownFi := map[types.Object]bool{}
			fiParams, _ := hbParamsWhere(f, c16IsFileInfo)
			for _, o := range fiParams {
				ownFi[o] = true
			}
			if gf.Lit == nil && goCall != nil {
				gp, gi := hbParamsWhere(gf, c16IsFileInfo)
				for k, o := range gp {
					if gi[k] < len(goCall.Args) && ownFi[identObj(f.Info(), goCall.Args[gi[k]])] {
						ownFi[o] = true
					}
				}
			}
			if len(stats) == 1 {
				sc := stats[0].N.(*ast.CallExpr)
				okPath := len(sc.Args) == 1 && strings.HasSuffix(core.PathOf(hbResolve(gf, sc.Args[0])), ".pathname")
				c.Verdict(okPath, "C16-R5", gf.Key+"|stat path", pos(c, sc), "stat of the tailed pathname", "the stat that detects rotation is not of the tailed pathname")
			}
			okArgs := false
			if newfi != nil && len(call.Args) == 2 {
				a0, a1 := identObj(ginfo, call.Args[0]), identObj(ginfo, call.Args[1])
				okArgs = (ownFi[a0] && a1 == newfi) || (ownFi[a1] && a0 == newfi)
			}
			c.Verdict(okArgs, "C16-R5", gf.Key+"|rotation test", pos(c, call), "SameFile(this generation's FileInfo, fresh stat)", "os.SameFile does not compare this generation's FileInfo with the fresh stat of the path")
			// the truncation test is reachable only where SameFile reported the same file
			sameFile := func(e ast.Expr) (bool, bool) {
				if e == ast.Expr(call) {
					return true, false
				}
				return false, false
			}
			cp := core.Point{B: tt.site.B, I: len(tt.site.B.Nodes) - 1}
			if trail, found := hbUnguardedPath(g, nil, []core.Point{cp}, sameFile); found {
				c.Fail("C16-R5", gf.Key+"|order", pos(c, tt.site.Cond), "the truncation test can be reached without os.SameFile having reported that the path still names this generation's file: a rotated file is treated as truncated (or the rotation test is skipped)", trail...)
			} else {
				c.Ok("C16-R5", gf.Key+"|order", pos(c, tt.site.Cond), "rotation test first; truncation only for the same file")
			}
			// a successor reachable only where SameFile was false receives the fresh FileInfo
			rotated := func(e ast.Expr) (bool, bool) {
				if e == ast.Expr(call) {
					return false, true
				}
				return false, false
			}
			_, fiIdx := hbParamsWhere(f, c16IsFileInfo)
			nrot := 0
			for _, s := range succ {
				if _, unguarded := hbUnguardedPath(g, nil, []core.Point{s.hit.P}, rotated); !unguarded {
					nrot++
				}
			}
			c.Verdict(nrot > 0, "C16-R5", gf.Key+"|rotation hands over", pos(c, call), fmt.Sprintf("%d successor start(s) reachable exactly where SameFile is false", nrot), "no successor stream is started on the branch on which os.SameFile reports a different file: after a rename-and-recreate rotation the new file is never read")
			for i, s := range succ {
				if _, unguarded := hbUnguardedPath(g, nil, []core.Point{s.hit.P}, rotated); unguarded || len(fiIdx) != 1 || newfi == nil {
					continue
				}
				key := fmt.Sprintf("%s|successor#%d fileinfo", gf.Key, i+1)
				const failTxt = "the successor started on rotation does not receive the new file's FileInfo: it compares against the old inode and re-opens forever or misses the next rotation"
				if s.helper == nil {
					c.Verdict(identObj(ginfo, s.call.Args[fiIdx[0]]) == newfi, "C16-R5", key, pos(c, s.call), "successor receives the new file's FileInfo", failTxt)
					continue
				}
				// through the helper: the argument bound to the helper's FileInfo parameter is the fresh stat, and the helper passes that parameter on
				hp, hi := hbParamsWhere(s.helper, c16IsFileInfo)
				okFi := len(hp) == 1 && hi[0] < len(s.call.Args) && identObj(ginfo, s.call.Args[hi[0]]) == newfi
				for _, hh := range s.helper.Graph().CallsTo(fsStream) {
					hc := hh.N.(*ast.CallExpr)
					if len(hp) != 1 || identObj(s.helper.Info(), hc.Args[fiIdx[0]]) != hp[0] {
						okFi = false
					}
				}
				c.Verdict(okFi, "C16-R5", key, pos(c, s.call), "successor receives the new file's FileInfo (through "+s.helper.Key+")", failTxt)
			}
		}
		// deletion: the not-exist edge ends the stream
		notExist := func(e ast.Expr) (bool, bool) {
			call, ok := core.Unparen(e).(*ast.CallExpr)
			if !ok {
				return false, false
			}
			switch gf.CalleeID(call) {
			case "os.IsNotExist":
				return true, false
			case "errors.Is":
				if len(call.Args) == 2 {
					if o := usedObj(ginfo, call.Args[1]); o != nil && o.Name() == "ErrNotExist" && o.Pkg() != nil && (o.Pkg().Path() == "os" || o.Pkg().Path() == "io/fs") {
						return true, false
					}
				}
			}
			return false, false
		}
		ndel := 0
		for _, s := range hbSites(g) {
			t, fl := hbImplies(gf, s.Cond, notExist)
			if t == fl {
				continue
			}
			ndel++
			key := fmt.Sprintf("%s|deleted#%d", gf.Key, ndel)
			if t1, f1 := pathAvoiding(g, hbBranch(s, t), append(core.ExitPoints(exits), core.HitPoints(reads)...), core.HitPoints(closes)); f1 {
				c.Fail("C16-R5", key, pos(c, s.Cond), "when the file no longer exists the stream does not end (close) before reading again or returning", t1...)
			} else {
				c.Ok("C16-R5", key, pos(c, s.Cond), "deleted file ends the stream")
			}
		}
		if ndel == 0 {
			c.Fail("C16-R5", gf.Key+"|deleted", pos(c, gf.Body), "no os.IsNotExist test on the stat error: a deleted file is polled forever and a re-created one is never picked up")
		}
	}
	c.Floor("C16-R4", 4)
	c.Floor("C16-R5", 6)
}

// c16OneShotEnabled classifies the expression passed as streamFromStart by
// newFileStream: "yes" when it is true exactly when the one-shot mode
// parameter is enabled, "no" when it is positively something else, "" when the
// shape is not recognised.
func c16OneShotEnabled(nf *core.Func, info *types.Info, arg ast.Expr) string {
	isMode := func(e ast.Expr) bool {
		o := identObj(info, e)
		if o == nil {
			return false
		}
		n, ok := o.Type().(*types.Named)
		if !ok || n.Obj().Name() != "OneShotMode" {
			return false
		}
		_, isVar := o.(*types.Var)
		return isVar
	}
	arg = core.Unparen(arg)
	if v, isC := constBool(info, arg); isC {
		_ = v
		return "no" // a constant: every first generation starts the same way
	}
	switch x := arg.(type) {
	case *ast.BinaryExpr:
		if x.Op != token.EQL && x.Op != token.NEQ {
			return ""
		}
		var cst ast.Expr
		switch {
		case isMode(x.X):
			cst = x.Y
		case isMode(x.Y):
			cst = x.X
		default:
			return ""
		}
		v, isC := constBool(info, cst)
		if !isC {
			return ""
		}
		if (x.Op == token.EQL) == v {
			return "yes"
		}
		return "no"
	case *ast.CallExpr: // bool(oneShot)
		if len(x.Args) == 1 && isMode(x.Args[0]) {
			if tv, ok := info.Types[x.Fun]; ok && tv.IsType() && c16IsBool(tv.Type.Underlying()) {
				return "yes"
			}
		}
	case *ast.UnaryExpr:
		if x.Op == token.NOT {
			switch c16OneShotEnabled(nf, info, x.X) {
			case "yes":
				return "no"
			}
		}
	}
	return ""
}

// c16Finish checks R2 on LineReader.Finish.
func c16Finish(c *core.Check) {
	ff := c.MustFn("C16-R2", lrFinish)
	if ff == nil {
		return
	}
	fg := ff.Graph()
	sends := fg.Find(func(n ast.Node) bool { _, ok := n.(*ast.SendStmt); return ok })
	e1, e2, e3, other := c16BufferEvents(ff, 0)
	// is the reader used again after Finish anywhere?
	reused := []string{}
	for _, sf := range shipped(c) {
		sg := sf.Graph()
		for _, h := range sg.CallsTo(lrFinish) {
			if h.InDefer {
				continue
			}
			from := h.P
			again := append(core.HitPoints(sg.CallsTo(lrReadAndSend)), core.HitPoints(sg.CallsTo(lrFinish))...)
			if _, found := pathAvoiding(sg, &from, again, nil); found {
				reused = append(reused, sf.Key+"@"+pos(c, h.N))
			}
		}
	}
	c.Extra["finish_then_reader_reused_at"] = reused
	if len(sends) == 0 {
		c.Undecided("C16-R2", lrFinish, pos(c, ff.Decl), "no send statement found in Finish")
	}
	for i, s := range sends {
		from := s.P
		exits := core.ExitPoints(normalExits(fg))
		// every path passes (off = len(buf)) or both (buf emptied) and (off = 0)
		t1, bad1 := pathAvoiding(fg, &from, exits, append(append([]core.Point{}, e1...), e2...))
		t2, bad2 := pathAvoiding(fg, &from, exits, append(append([]core.Point{}, e1...), e3...))
		found, trail := bad1 || bad2, t1
		if !bad1 {
			trail = t2
		}
		key := fmt.Sprintf("%s|send#%d", lrFinish, i+1)
		switch {
		case found && len(reused) > 0 && len(other) > 0:
			c.Undecided("C16-R2", key, pos(c, s.N), "Finish assigns the reader's buffer or offset in a form that is not recognised as emptying the buffer ("+strings.Join(other, "; ")+")")
		case found && len(reused) > 0:
			c.Fail("C16-R2", key, pos(c, s.N), "Finish delivers the fragment but leaves it in the buffer (no off = len(buf), and not both buf emptied and off = 0), and the reader is used again after Finish at "+strings.Join(reused, ", ")+": after a truncation the fragment is delivered again merged with the first new line", trail...)
		case found:
			c.Ok("C16-R2", key, pos(c, s.N), "Finish does not reset the buffer, but no caller uses the reader again after Finish")
		default:
			c.Ok("C16-R2", key, pos(c, s.N), "buffer emptied on every path after the send")
		}
	}
}

// c16BufferEvents finds in a method of LineReader the points that (e1) set
// off = len(buf), (e2) empty buf, (e3) set off = 0 — on the method's own
// receiver, directly or by calling another method of the receiver that does so
// on all its paths — and describes the other assignments to buf/off.
func c16BufferEvents(ff *core.Func, depth int) (e1, e2, e3 []core.Point, other []string) {
	info := ff.Info()
	recv := hbRecv(ff)
	fg := ff.Graph()
	if recv == nil {
		return
	}
	field := func(e ast.Expr) string {
		fv, base := hbFieldOf(info, e)
		if fv == nil || identObj(info, base) != recv {
			return ""
		}
		return fv.Name()
	}
	isLenBuf := func(e ast.Expr) bool {
		call, ok := core.Unparen(e).(*ast.CallExpr)
		return ok && ff.CalleeID(call) == "builtin.len" && len(call.Args) == 1 && field(call.Args[0]) == "buf"
	}
	for _, h := range fg.Find(func(n ast.Node) bool {
		switch n.(type) {
		case *ast.AssignStmt, *ast.IncDecStmt, *ast.CallExpr:
			return true
		}
		return false
	}) {
		switch s := h.N.(type) {
		case *ast.IncDecStmt:
			if fn := field(s.X); fn == "off" || fn == "buf" {
				other = append(other, exprStr(s.X)+s.Tok.String())
			}
		case *ast.AssignStmt:
			for i, l := range s.Lhs {
				fn := field(l)
				if fn != "off" && fn != "buf" {
					continue
				}
				if len(s.Rhs) != len(s.Lhs) || s.Tok != token.ASSIGN {
					other = append(other, exprStr(l)+" "+s.Tok.String()+" …")
					continue
				}
				r := core.Unparen(s.Rhs[i])
				switch fn {
				case "off":
					if isLenBuf(r) {
						e1 = append(e1, h.P)
					} else if v, isC := constInt(info, r); isC && v == 0 {
						e3 = append(e3, h.P)
					} else {
						other = append(other, exprStr(l)+" = "+exprStr(r))
					}
				case "buf":
					empty := false
					switch x := r.(type) {
					case *ast.Ident:
						empty = isNilIdent(info, x)
					case *ast.SliceExpr: // buf[:0], buf[0:0], buf[len(buf):]
						if field(x.X) == "buf" && x.Max == nil {
							hi0 := false
							if x.High != nil {
								v, isC := constInt(info, x.High)
								hi0 = isC && v == 0
							}
							lowLen := x.Low != nil && isLenBuf(x.Low) && x.High == nil
							empty = hi0 || lowLen
						}
					case *ast.CallExpr:
						if ff.CalleeID(x) == "builtin.make" && len(x.Args) >= 2 {
							v, isC := constInt(info, x.Args[1])
							empty = isC && v == 0
						}
					}
					if empty {
						e2 = append(e2, h.P)
					} else {
						other = append(other, exprStr(l)+" = "+exprStr(r))
					}
				}
			}
		case *ast.CallExpr:
			// a method of the same receiver that empties the buffer on all its paths
			if depth >= 2 {
				continue
			}
			cf := ff.CalleeFunc(s)
			if cf == nil || cf == ff || identObj(info, core.RecvExpr(s)) != recv || hbRecv(cf) == nil {
				continue
			}
			c1, c2, c3, _ := c16BufferEvents(cf, depth+1)
			cg := cf.Graph()
			cex := core.ExitPoints(normalExits(cg))
			_, bad1 := pathAvoiding(cg, nil, cex, append(append([]core.Point{}, c1...), c2...))
			_, bad2 := pathAvoiding(cg, nil, cex, append(append([]core.Point{}, c1...), c3...))
			if len(c1)+len(c2)+len(c3) > 0 && !bad1 && !bad2 {
				e1 = append(e1, h.P)
			}
		}
	}
	return
}

// enclosingErrIf finds `if err := <call>; err != nil {` or `err := <call>` followed by
// `if err != nil` for the given call.  (Kept for checkers that want the
// statement; new code should use hbErrTest, which recognises every form.)
func enclosingErrIf(f *core.Func, call *ast.CallExpr) *ast.IfStmt {
	var res *ast.IfStmt
	info := f.Info()
	var errObj = func(as *ast.AssignStmt) interface{} {
		if len(as.Lhs) == 0 {
			return nil
		}
		return identObj(info, as.Lhs[len(as.Lhs)-1])
	}
	ast.Inspect(f.Body, func(n ast.Node) bool {
		is, ok := n.(*ast.IfStmt)
		if !ok {
			return true
		}
		if as, ok := is.Init.(*ast.AssignStmt); ok && len(as.Rhs) == 1 && core.Unparen(as.Rhs[0]) == ast.Expr(call) {
			if be, ok := core.Unparen(is.Cond).(*ast.BinaryExpr); ok && be.Op == token.NEQ && isNilIdent(info, be.Y) {
				if o := identObj(info, be.X); o != nil && o == errObj(as) {
					res = is
				}
			}
		}
		return true
	})
	if res != nil {
		return res
	}
	// separate statement form
	as := assignOf(f, call)
	if as == nil {
		return nil
	}
	eo := errObj(as)
	ast.Inspect(f.Body, func(n ast.Node) bool {
		is, ok := n.(*ast.IfStmt)
		if !ok || res != nil || is.Pos() < as.End() {
			return true
		}
		if be, ok := core.Unparen(is.Cond).(*ast.BinaryExpr); ok && be.Op == token.NEQ && isNilIdent(info, be.Y) {
			if o := identObj(info, be.X); o != nil && o == eo {
				res = is
			}
		}
		return true
	})
	return res
}

// assignOf finds the assignment statement whose single right-hand side is call.
func assignOf(f *core.Func, call *ast.CallExpr) *ast.AssignStmt {
	var res *ast.AssignStmt
	ast.Inspect(f.Body, func(n ast.Node) bool {
		if as, ok := n.(*ast.AssignStmt); ok && len(as.Rhs) == 1 && core.Unparen(as.Rhs[0]) == ast.Expr(call) {
			res = as
		}
		return res == nil
	})
	return res
}

func loopHeadOf(g *core.Graph, f *core.Func) interface{} { return nil }
