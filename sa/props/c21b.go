package props

import (
	"fmt"
	"go/ast"
	"go/token"
	"go/types"

	"verif/sa/core"
)

// C21-R7: who may write the three running totals of a histogram datum, and
// what a transfer between two datums has to conserve.
func init() { register("C21", c21Writers) }

// c21Write is one write of a bucket's Count ("bucket") or of the datum's
// Count / Sum ("count", "sum").
type c21Write struct {
	node   ast.Node
	field  string
	lhs    ast.Expr // nil for a composite-literal element
	addend ast.Expr // the value written or added (nil for ++/--)
	adds   bool     // += / ++ rather than =
}

const datumPkg = "internal/metrics/datum"

// c21TotalField classifies a selector as one of the three totals.
func c21TotalField(info *types.Info, e ast.Expr) string {
	fv, base := hbFieldOf(info, e)
	if fv == nil {
		return ""
	}
	switch {
	case fv.Name() == "Count" && c21Named(info.TypeOf(base), datumPkg, "BucketCount"):
		return "bucket"
	case fv.Name() == "Count" && c21Named(info.TypeOf(base), datumPkg, "Buckets"):
		return "count"
	case fv.Name() == "Sum" && c21Named(info.TypeOf(base), datumPkg, "Buckets"):
		return "sum"
	}
	return ""
}

func c21RootObj(info *types.Info, e ast.Expr) types.Object {
	for {
		switch x := core.Unparen(e).(type) {
		case *ast.Ident:
			return identObj(info, x)
		case *ast.SelectorExpr:
			if s := info.Selections[x]; s == nil { // package-qualified name
				return identObj(info, x.Sel)
			}
			e = x.X
		case *ast.IndexExpr:
			e = x.X
		case *ast.StarExpr:
			e = x.X
		case *ast.UnaryExpr:
			e = x.X
		default:
			return nil
		}
	}
}

func c21Writes(f *core.Func) []c21Write {
	info := f.Info()
	var out []c21Write
	isZero := func(e ast.Expr) bool {
		if v, ok := constInt(info, e); ok && v == 0 {
			return true
		}
		if tv, ok := info.Types[e]; ok && tv.Value != nil && tv.Value.String() == "0" {
			return true
		}
		return false
	}
	core.InspectNoLit(f.Body, func(n ast.Node) bool {
		switch s := n.(type) {
		case *ast.IncDecStmt:
			if fld := c21TotalField(info, s.X); fld != "" {
				out = append(out, c21Write{node: s, field: fld, lhs: s.X, adds: true})
			}
		case *ast.AssignStmt:
			for i, l := range s.Lhs {
				fld := c21TotalField(info, l)
				if fld == "" {
					// a whole bucket assigned: X[i] = Y[j]
					if t := info.TypeOf(l); t != nil && c21Named(t, datumPkg, "BucketCount") && s.Tok == token.ASSIGN {
						if _, isPtr := t.(*types.Pointer); !isPtr && len(s.Rhs) == len(s.Lhs) {
							if _, isLit := core.Unparen(s.Rhs[i]).(*ast.CompositeLit); !isLit {
								out = append(out, c21Write{node: s, field: "bucket", lhs: l, addend: s.Rhs[i]})
							}
						}
					}
					continue
				}
				w := c21Write{node: s, field: fld, lhs: l}
				if len(s.Rhs) == len(s.Lhs) {
					w.addend = s.Rhs[i]
				}
				if s.Tok != token.ASSIGN && s.Tok != token.DEFINE {
					w.adds = true
				} else if t, a := c21AddTarget(info, s); t != nil && len(s.Lhs) == 1 {
					w.adds, w.addend = true, a
				}
				out = append(out, w)
			}
		case *ast.CompositeLit:
			t := info.TypeOf(s)
			switch {
			case t != nil && c21Named(t, datumPkg, "BucketCount"):
				for i, el := range s.Elts {
					if kv, ok := el.(*ast.KeyValueExpr); ok {
						if id, ok := kv.Key.(*ast.Ident); ok && id.Name == "Count" && !isZero(kv.Value) {
							out = append(out, c21Write{node: s, field: "bucket", addend: kv.Value})
						}
					} else if i == 1 && !isZero(el) {
						out = append(out, c21Write{node: s, field: "bucket", addend: el})
					}
				}
			case t != nil && c21Named(t, datumPkg, "Buckets"):
				for _, el := range s.Elts {
					if kv, ok := el.(*ast.KeyValueExpr); ok {
						if id, ok := kv.Key.(*ast.Ident); ok && (id.Name == "Count" || id.Name == "Sum") && !isZero(kv.Value) {
							fld := "count"
							if id.Name == "Sum" {
								fld = "sum"
							}
							out = append(out, c21Write{node: s, field: fld, addend: kv.Value})
						}
					}
				}
			}
		}
		return true
	})
	return out
}

func c21Writers(c *core.Check) {
	c.Rule("C21-R7", "COUNT-WRITERS: a bucket's Count and the datum's Count and Sum are written by Observe (decided by R1/R2) and start at zero; any other function that writes them transfers a histogram from one datum to another and must conserve it: when the total Count is carried over whole, every source bucket's count is moved exactly once on every path of a scan over the source's bucket list (or copied index by index), never looked up by a key of the destination layout and never left out on a branch")
	observe := c.Prog.Fn(bucketsObserve)
	helper := map[*core.Func]bool{}
	if observe != nil {
		core.InspectNoLit(observe.Body, func(n ast.Node) bool {
			if call, ok := n.(*ast.CallExpr); ok {
				if cf := observe.CalleeFunc(call); cf != nil && cf.Pkg == observe.Pkg {
					helper[cf] = true
				}
			}
			return true
		})
	}
	n := 0
	for _, sf := range shipped(c) {
		ws := c21Writes(sf)
		if len(ws) == 0 {
			continue
		}
		c.Analysed(sf)
		if sf == observe || helper[sf] {
			ord := map[string]int{}
			for _, w := range ws {
				ord[w.field]++
				n++
				c.Ok("C21-R7", fmt.Sprintf("%s|%s|%d", sf.Key, w.field, ord[w.field]), pos(c, w.node), "the observing function: selection and counting are decided by R1/R2")
			}
			continue
		}
		n += c21Transfer(c, sf, ws)
	}
	// zero initialisation: the constructors of today's tree
	for _, sf := range shipped(c) {
		info := sf.Info()
		core.InspectNoLit(sf.Body, func(x ast.Node) bool {
			lit, ok := x.(*ast.CompositeLit)
			if !ok {
				return true
			}
			if t := info.TypeOf(lit); t != nil && c21Named(t, datumPkg, "BucketCount") && len(c21LitWrites(sf, lit)) == 0 {
				n++
				c.Ok("C21-R7", sf.Key+"|new bucket", pos(c, lit), "a bucket starts at zero")
			}
			return true
		})
	}
	_ = n
	c.Floor("C21-R7", 4)
}

func c21LitWrites(f *core.Func, lit *ast.CompositeLit) []c21Write {
	var out []c21Write
	for _, w := range c21Writes(f) {
		if w.node == lit {
			out = append(out, w)
		}
	}
	return out
}

// c21Transfer decides the writes of a function other than Observe.
func c21Transfer(c *core.Check, f *core.Func, ws []c21Write) int {
	info := f.Info()
	g := f.Graph()
	// loops of f, outermost first
	var loops []*hbLoop
	core.InspectNoLit(f.Body, func(n ast.Node) bool {
		if lp := hbLoopOf(f, n); lp != nil {
			loops = append(loops, lp)
		}
		return true
	})
	enclosing := func(n ast.Node) []*hbLoop {
		var out []*hbLoop
		for _, lp := range loops {
			if lp.Body.Pos() <= n.Pos() && n.End() <= lp.Body.End() {
				out = append(out, lp)
			}
		}
		return out
	}
	isBucketList := func(e ast.Expr) bool {
		t := info.TypeOf(e)
		if t == nil {
			return false
		}
		sl, ok := t.Underlying().(*types.Slice)
		return ok && c21Named(sl.Elem(), datumPkg, "BucketCount")
	}
	// is the total carried over from another datum?
	carried := false
	for _, w := range ws {
		if w.field == "count" && w.addend != nil && !w.adds {
			if c21TotalField(info, hbResolve(f, w.addend)) == "count" {
				carried = true
			}
		}
	}
	// srcRef finds, in e, a reference to a bucket (its Count, or the whole
	// bucket) that does not belong to the object written, and the loop whose
	// current element it is.
	srcRef := func(e ast.Expr, dst types.Object, at ast.Node) (found bool, loop *hbLoop) {
		ast.Inspect(e, func(x ast.Node) bool {
			ex, ok := x.(ast.Expr)
			if !ok || found {
				return !found
			}
			var bucket ast.Expr
			if c21TotalField(info, ex) == "bucket" {
				_, bucket = hbFieldOf(info, ex)
			} else if t := info.TypeOf(ex); t != nil && c21Named(t, datumPkg, "BucketCount") {
				if _, isLit := ex.(*ast.CompositeLit); !isLit {
					bucket = ex
				}
			}
			if bucket == nil {
				return true
			}
			for _, lp := range enclosing(at) {
				if isBucketList(lp.X) && lp.IsElem(f, bucket) {
					if r := c21RootObj(info, lp.Coll); r != nil && r == dst {
						continue // the destination's own list
					}
					found, loop = true, lp
					return false
				}
			}
			if r := c21RootObj(info, bucket); r != nil && r != dst {
				found = true
				return false
			}
			return true
		})
		return
	}
	hasMapLookup := func(e ast.Expr) bool {
		hit := false
		ast.Inspect(e, func(x ast.Node) bool {
			if ix, ok := x.(*ast.IndexExpr); ok {
				if t := info.TypeOf(ix.X); t != nil {
					if _, isMap := t.Underlying().(*types.Map); isMap {
						hit = true
					}
				}
			}
			return !hit
		})
		return hit
	}

	n := 0
	ord := map[string]int{}
	key := func(w c21Write) string {
		ord[w.field]++
		return fmt.Sprintf("%s|%s|%d", f.Key, w.field, ord[w.field])
	}
	// group the bucket writes by source loop
	type grp struct {
		loop *hbLoop
		ws   []c21Write
	}
	var groups []*grp
	for _, w := range ws {
		n++
		switch w.field {
		case "count", "sum":
			k := key(w)
			if w.addend != nil && !w.adds && c21TotalField(info, hbResolve(f, w.addend)) == w.field {
				c.Ok("C21-R7", k, pos(c, w.node), "the total is carried over whole from "+exprStr(w.addend))
			} else {
				c.Undecided("C21-R7", k, pos(c, w.node), "the datum's "+w.field+" is written outside Observe from a value that is not another datum's "+w.field+": a second place that counts observations, which R1/R2 do not follow")
			}
		case "bucket":
			if w.addend == nil {
				c.Undecided("C21-R7", key(w), pos(c, w.node), "a bucket count is incremented outside Observe: a second observing function, which R1/R2 do not follow")
				continue
			}
			var dst types.Object
			if w.lhs != nil {
				dst = c21RootObj(info, w.lhs)
			}
			found, lp := srcRef(w.addend, dst, w.node)
			switch {
			case found && lp != nil:
				var gr *grp
				for _, x := range groups {
					if x.loop == lp {
						gr = x
					}
				}
				if gr == nil {
					gr = &grp{loop: lp}
					groups = append(groups, gr)
				}
				gr.ws = append(gr.ws, w)
			case found:
				c.Undecided("C21-R7", key(w), pos(c, w.node), "a bucket count is taken from another datum's bucket outside a scan over that datum's bucket list: conservation not followed")
			case hasMapLookup(hbResolve(f, w.addend)) && carried:
				c.Fail("C21-R7", key(w), pos(c, w.node), "each destination bucket looks its count up by a key of its own ("+exprStr(w.addend)+", zero when the key is absent) while the total Count is carried over whole: the count of a source bucket that no destination bucket asks for is dropped, and the bucket counts no longer sum to the observation count")
			default:
				c.Undecided("C21-R7", key(w), pos(c, w.node), "a bucket count is written from "+exprStr(w.addend)+", which the rule cannot trace to the counts of a source datum")
			}
		}
	}
	for _, gr := range groups {
		k := fmt.Sprintf("%s|scan of %s", f.Key, core.PathOf(gr.loop.X))
		at := pos(c, gr.loop.Stmt)
		// the control-flow node that performs each write (the statement around a composite literal)
		var pts []core.Point
		for _, w := range gr.ws {
			var best *core.Hit
			for _, h := range g.Find(func(x ast.Node) bool { return x.Pos() <= w.node.Pos() && w.node.End() <= x.End() }) {
				h := h
				if best == nil || (h.N.End()-h.N.Pos()) < (best.N.End()-best.N.Pos()) {
					best = &h
				}
			}
			if best != nil {
				pts = append(pts, best.P)
			}
		}
		if len(pts) != len(gr.ws) {
			c.Undecided("C21-R7", k, at, "a bucket write inside the scan is not found in the control-flow graph")
			continue
		}
		cnt, ok := iterationCount(g, gr.loop.Stmt, pts)
		if !ok {
			c.Undecided("C21-R7", k, at, "loop blocks not found")
			continue
		}
		early := earlyLoopExits(c, g, gr.loop.Stmt)
		// A guard that mentions an index of a scan or a length may be a catch-all ("or this is the last
		// bucket"), which counting paths cannot see: only guards on the values alone are decided.
		valueGuardsOnly := len(gr.ws) == 1
		if valueGuardsOnly {
			w := gr.ws[0]
			inLoop := func(n ast.Node) bool { return gr.loop.Body.Pos() <= n.Pos() && n.End() <= gr.loop.Body.End() }
			keys := map[types.Object]bool{}
			for _, lp := range enclosing(w.node) {
				keys[lp.Key] = true
			}
			for _, ic := range f.EnclosingIfs(w.node.Pos()) {
				if !inLoop(ic.If) {
					continue
				}
				if !ic.InThen || ic.If.Init != nil {
					valueGuardsOnly = false
				}
				ast.Inspect(ic.If.Cond, func(x ast.Node) bool {
					switch e := x.(type) {
					case *ast.IndexExpr:
						// X[k] with k a scan index selects the element under test: a test on values
						if o := identObj(info, e.Index); o != nil && keys[o] {
							ast.Inspect(e.X, func(y ast.Node) bool {
								if id, ok := y.(*ast.Ident); ok {
									if o := identObj(info, id); o != nil && keys[o] {
										valueGuardsOnly = false
									}
								}
								return true
							})
							return false
						}
					case *ast.Ident:
						if o := identObj(info, e); o != nil && keys[o] {
							valueGuardsOnly = false
						}
						if o := identObj(info, e); o != nil {
							if b, isB := o.Type().Underlying().(*types.Basic); isB && b.Kind() == types.Bool {
								if _, isVar := o.(*types.Var); isVar {
									valueGuardsOnly = false // a flag
								}
							}
						}
					case *ast.CallExpr:
						if f.CalleeID(e) == "builtin.len" {
							valueGuardsOnly = false
						}
					}
					return true
				})
			}
			// a switch or select around the write is not followed
			core.InspectNoLit(gr.loop.Body, func(x ast.Node) bool {
				switch x.(type) {
				case *ast.SwitchStmt, *ast.TypeSwitchStmt, *ast.SelectStmt:
					if x.Pos() <= w.node.Pos() && w.node.End() <= x.End() {
						valueGuardsOnly = false
					}
				}
				return true
			})
		}
		switch {
		case cnt.Min == 1 && cnt.Max == 1 && len(early) == 0:
			c.Ok("C21-R7", k, at, "every source bucket's count is moved exactly once")
		case cnt.Min == 0 && cnt.Max >= 1 && carried && valueGuardsOnly:
			c.Fail("C21-R7", k, at, fmt.Sprintf("an iteration of the scan over the source's buckets can end without moving the current bucket's count into any destination bucket (writes per iteration: %s; the only write, at %s, is guarded by tests on the values alone, with no catch-all), while the total Count is carried over whole: those observations stay in Count but in no bucket, so the bucket counts no longer sum to the observation count", cnt, pos(c, gr.ws[0].node)))
		case len(early) > 0:
			c.Undecided("C21-R7", k, at, "the scan over the source's buckets can be left early ("+early[0]+"): whether the remaining buckets are moved is not followed")
		default:
			c.Undecided("C21-R7", k, at, fmt.Sprintf("writes per iteration %s (carried total: %v): the guards involve an index, a length or a flag, or there are several writes — whether every source bucket's count is moved exactly once is not decided by counting paths", cnt, carried))
		}
	}
	return n
}
