package props

import (
	"fmt"
	"go/ast"
	"go/token"
	"go/types"
	"sort"
	"strings"

	"verif/sa/core"
)

// ---- VM side -----------------------------------------------------------

// vmAssert is a type assertion (or type-switch clause set) applied to a value.
type vmAssert struct {
	Types   []string // accepted Go types, as strings
	CommaOk bool     // failure is handled (comma-ok or type switch)
	Node    ast.Node
}

type vmPop struct {
	Kind    string // "Pop", "PopInt", "PopFloat", "PopString"
	Call    *ast.CallExpr
	Var     types.Object // variable the popped value is bound to (nil if none)
	Asserts []vmAssert   // assertions on the popped value (raw Pop only)
	PassTo  []string     // callee ids the raw value is passed to
}

type vmPush struct {
	Call *ast.CallExpr
	Expr ast.Expr
	Type string
}

type vmCase struct {
	Op          string // "Match"
	Pos         token.Pos
	Nodes       []ast.Node // statements belonging to this opcode (outer clause statements minus inner opcode switches, plus the matching inner clause)
	OperandAs   []vmAssert
	OperandNil  bool // `i.Operand != nil` tested
	OperandUsed bool // i.Operand used in any way
	Pops        []vmPop
	Pushes      []vmPush
	Errorfs     []*ast.CallExpr
	PushOperand bool // pushes i.Operand itself
}

type vmTable struct {
	F       *core.Func
	Cases   map[string]*vmCase
	Order   []string
	HasDef  bool
	instr   types.Object // the code.Instr parameter
	thread  types.Object
	instrs  map[types.Object]bool // code.Instr parameters of followed helper functions
	Helpers []*core.Func          // helper functions whose bodies were read as part of a case
}

func isOpcodeSwitch(f *core.Func, s *ast.SwitchStmt) bool {
	if s.Tag == nil {
		return false
	}
	t := f.Info().TypeOf(s.Tag)
	return t != nil && strings.HasSuffix(t.String(), "code.Opcode")
}

func opName(e ast.Expr) string {
	if sel, ok := core.Unparen(e).(*ast.SelectorExpr); ok {
		return sel.Sel.Name
	}
	if id, ok := core.Unparen(e).(*ast.Ident); ok {
		return id.Name
	}
	return exprStr(e)
}

// extractVM builds the per-opcode table of (*VM).execute.
func extractVM(c *core.Check) *vmTable {
	f := c.Prog.Fn(vmExecute)
	if f == nil {
		return nil
	}
	c.Analysed(f)
	tab := &vmTable{F: f, Cases: map[string]*vmCase{}}
	// the thread and instruction parameters are found by their types, not their names
	tab.thread = paramOfType(f, "vm.thread")
	tab.instr = paramOfType(f, "code.Instr")
	if tab.instr == nil || tab.thread == nil {
		return nil
	}
	var top *ast.SwitchStmt
	for _, st := range f.Body.List {
		if s, ok := st.(*ast.SwitchStmt); ok && isOpcodeSwitch(f, s) {
			top = s
		}
	}
	if top == nil {
		return nil
	}
	for _, cl := range top.Body.List {
		cc := cl.(*ast.CaseClause)
		if cc.List == nil {
			tab.HasDef = true
			continue
		}
		for _, e := range cc.List {
			op := opName(e)
			vc := &vmCase{Op: op, Pos: cc.Pos()}
			// collect nodes: outer statements, with inner opcode switches replaced by the matching clause
			var collect func(stmts []ast.Stmt)
			collect = func(stmts []ast.Stmt) {
				for _, st := range stmts {
					if inner, ok := st.(*ast.SwitchStmt); ok && isOpcodeSwitch(f, inner) {
						for _, icl := range inner.Body.List {
							icc := icl.(*ast.CaseClause)
							for _, ie := range icc.List {
								if opName(ie) == op {
									collect(icc.Body)
								}
							}
						}
						continue
					}
					vc.Nodes = append(vc.Nodes, st)
				}
			}
			collect(cc.Body)
			tab.followHelpers(vc)
			tab.analyse(vc)
			tab.Cases[op] = vc
			tab.Order = append(tab.Order, op)
		}
	}
	return tab
}

// inspectCase walks the nodes of a case, descending into nested statements but
// replacing inner opcode switches by the clause for this opcode.
func (tab *vmTable) inspectCase(vc *vmCase, fn func(ast.Node) bool) {
	f := tab.F
	var walk func(n ast.Node)
	walk = func(n ast.Node) {
		ast.Inspect(n, func(x ast.Node) bool {
			if x == nil {
				return false
			}
			if inner, ok := x.(*ast.SwitchStmt); ok && isOpcodeSwitch(f, inner) {
				for _, icl := range inner.Body.List {
					icc := icl.(*ast.CaseClause)
					for _, ie := range icc.List {
						if opName(ie) == vc.Op {
							for _, st := range icc.Body {
								walk(st)
							}
						}
					}
				}
				return false
			}
			return fn(x)
		})
	}
	for _, n := range vc.Nodes {
		walk(n)
	}
}

func (tab *vmTable) isInstrOperand(e ast.Expr) bool {
	sel, ok := core.Unparen(e).(*ast.SelectorExpr)
	if !ok || sel.Sel.Name != "Operand" {
		return false
	}
	o := identObj(tab.F.Info(), sel.X)
	return o != nil && (o == tab.instr || tab.instrs[o])
}

// paramOfType returns the first parameter of f whose type (pointers stripped) ends in suffix.
func paramOfType(f *core.Func, suffix string) types.Object {
	for _, fl := range f.Type.Params.List {
		for _, n := range fl.Names {
			o := f.Info().Defs[n]
			if o == nil {
				continue
			}
			if strings.HasSuffix(strings.TrimPrefix(o.Type().String(), "*"), suffix) {
				return o
			}
		}
	}
	return nil
}

// followHelpers extends the nodes of a case by the bodies of the functions of
// package vm that the case hands its instruction or its thread to as an
// argument (`case code.Capref: v.capref(t, i)`): an opcode handler extracted
// into a method is read like the inline code.  The instruction parameters of
// such helpers are instruction variables too.
func (tab *vmTable) followHelpers(vc *vmCase) {
	f := tab.F
	seen := map[*core.Func]bool{f: true}
	for changed := true; changed; {
		changed = false
		var add []*core.Func
		tab.inspectCase(vc, func(n ast.Node) bool {
			call, ok := n.(*ast.CallExpr)
			if !ok {
				return true
			}
			h := f.CalleeFunc(call)
			if h == nil || seen[h] || h.Pkg != f.Pkg || h.Lit != nil {
				return true
			}
			takes := false
			for _, fl := range h.Type.Params.List {
				for _, nm := range fl.Names {
					o := h.Info().Defs[nm]
					if o == nil {
						continue
					}
					ts := strings.TrimPrefix(o.Type().String(), "*")
					if strings.HasSuffix(ts, "code.Instr") {
						takes = true
						if tab.instrs == nil {
							tab.instrs = map[types.Object]bool{}
						}
						tab.instrs[o] = true
					}
					if strings.HasSuffix(ts, "vm.thread") {
						takes = true
					}
				}
			}
			if takes {
				seen[h] = true
				add = append(add, h)
			}
			return true
		})
		for _, h := range add {
			changed = true
			tab.Helpers = append(tab.Helpers, h)
			for _, st := range h.Body.List {
				vc.Nodes = append(vc.Nodes, st)
			}
		}
	}
}

func typeStr(t types.Type) string {
	if t == nil {
		return "nil"
	}
	s := t.String()
	s = strings.ReplaceAll(s, core.ModPath+"/internal/", "")
	return s
}

func (tab *vmTable) analyse(vc *vmCase) {
	f := tab.F
	info := f.Info()
	popKinds := map[string]string{
		"internal/runtime/vm.(*thread).Pop":       "Pop",
		"internal/runtime/vm.(*thread).PopInt":    "PopInt",
		"internal/runtime/vm.(*thread).PopFloat":  "PopFloat",
		"internal/runtime/vm.(*thread).PopString": "PopString",
	}
	// first pass: pops, pushes, errorfs, operand uses
	parents := map[ast.Node]ast.Node{}
	var stack []ast.Node
	tab.inspectCase(vc, func(n ast.Node) bool { return true })
	var build func(n ast.Node)
	_ = build
	// record parents with a manual walk
	var rec func(n ast.Node)
	rec = func(n ast.Node) {
		ast.Inspect(n, func(x ast.Node) bool {
			if x == nil {
				stack = stack[:len(stack)-1]
				return false
			}
			if len(stack) > 0 {
				parents[x] = stack[len(stack)-1]
			}
			stack = append(stack, x)
			return true
		})
	}
	for _, n := range vc.Nodes {
		stack = nil
		rec(n)
	}
	tab.inspectCase(vc, func(n ast.Node) bool {
		switch x := n.(type) {
		case *ast.CallExpr:
			id := f.CalleeID(x)
			if k, ok := popKinds[id]; ok {
				p := vmPop{Kind: k, Call: x}
				// how is the value used?
				par := parents[x]
				switch pp := par.(type) {
				case *ast.TypeAssertExpr:
					if pp.Type != nil {
						_, commaOk := assertCommaOk(parents, pp)
						p.Asserts = append(p.Asserts, vmAssert{Types: []string{typeStr(info.TypeOf(pp.Type))}, CommaOk: commaOk, Node: pp})
					} else {
						// x.(type) in a type switch
						p.Asserts = append(p.Asserts, typeSwitchAssert(info, parents, pp))
					}
				case *ast.AssignStmt:
					if len(pp.Lhs) >= 1 {
						p.Var = identObj(info, pp.Lhs[0])
					}
				case *ast.ValueSpec:
					if len(pp.Names) >= 1 {
						p.Var = info.Defs[pp.Names[0]]
					}
				}
				vc.Pops = append(vc.Pops, p)
			}
			if id == "internal/runtime/vm.(*thread).Push" && len(x.Args) == 1 {
				ps := vmPush{Call: x, Expr: x.Args[0], Type: typeStr(info.TypeOf(x.Args[0]))}
				if tab.isInstrOperand(x.Args[0]) {
					vc.PushOperand = true
				}
				vc.Pushes = append(vc.Pushes, ps)
			}
			if id == vmErrorf {
				vc.Errorfs = append(vc.Errorfs, x)
			}
		case *ast.SelectorExpr:
			if tab.isInstrOperand(x) {
				vc.OperandUsed = true
				switch pp := parents[x].(type) {
				case *ast.TypeAssertExpr:
					_, commaOk := assertCommaOk(parents, pp)
					if pp.Type != nil {
						vc.OperandAs = append(vc.OperandAs, vmAssert{Types: []string{typeStr(info.TypeOf(pp.Type))}, CommaOk: commaOk, Node: pp})
					} else {
						vc.OperandAs = append(vc.OperandAs, typeSwitchAssert(info, parents, pp))
					}
				case *ast.BinaryExpr:
					if (pp.Op == token.NEQ || pp.Op == token.EQL) && (isNilIdent(info, pp.X) || isNilIdent(info, pp.Y)) {
						vc.OperandNil = true
					}
				}
			}
		}
		return true
	})
	// second pass: assertions on variables bound to raw pops
	for i := range vc.Pops {
		p := &vc.Pops[i]
		if p.Kind != "Pop" || p.Var == nil {
			continue
		}
		tab.inspectCase(vc, func(n ast.Node) bool {
			switch x := n.(type) {
			case *ast.TypeAssertExpr:
				if identObj(info, x.X) == p.Var {
					if x.Type != nil {
						_, commaOk := assertCommaOk(parents, x)
						p.Asserts = append(p.Asserts, vmAssert{Types: []string{typeStr(info.TypeOf(x.Type))}, CommaOk: commaOk, Node: x})
					} else {
						p.Asserts = append(p.Asserts, typeSwitchAssert(info, parents, x))
					}
				}
			case *ast.CallExpr:
				for _, a := range x.Args {
					if identObj(info, a) == p.Var {
						if id := f.CalleeID(x); id != "" && id != "internal/runtime/vm.(*thread).Push" {
							p.PassTo = append(p.PassTo, id)
						}
					}
				}
			}
			return true
		})
	}
}

// assertCommaOk reports whether a type assertion's failure is handled (`v, ok := x.(T)`).
func assertCommaOk(parents map[ast.Node]ast.Node, ta *ast.TypeAssertExpr) (ast.Node, bool) {
	switch pp := parents[ta].(type) {
	case *ast.AssignStmt:
		return pp, len(pp.Lhs) == 2 && len(pp.Rhs) == 1
	case *ast.ValueSpec:
		return pp, len(pp.Names) == 2 && len(pp.Values) == 1
	}
	return nil, false
}

// typeSwitchAssert collects the case types of the type switch whose guard is ta.
func typeSwitchAssert(info *types.Info, parents map[ast.Node]ast.Node, ta *ast.TypeAssertExpr) vmAssert {
	a := vmAssert{CommaOk: true, Node: ta}
	// climb to the TypeSwitchStmt
	var n ast.Node = ta
	for n != nil {
		if ts, ok := n.(*ast.TypeSwitchStmt); ok {
			for _, cl := range ts.Body.List {
				cc := cl.(*ast.CaseClause)
				for _, e := range cc.List {
					a.Types = append(a.Types, typeStr(info.TypeOf(e)))
				}
			}
			break
		}
		n = parents[n]
	}
	sort.Strings(a.Types)
	return a
}

// popHelperTypes extracts the accepted Go types of PopInt/PopFloat/PopString (the cases of their type switch).
func popHelperTypes(c *core.Check, name string) ([]string, *core.Func) {
	f := c.Prog.Fn("internal/runtime/vm.(*thread)." + name)
	if f == nil {
		return nil, nil
	}
	c.Analysed(f)
	var out []string
	ast.Inspect(f.Body, func(n ast.Node) bool {
		if ts, ok := n.(*ast.TypeSwitchStmt); ok {
			for _, cl := range ts.Body.List {
				for _, e := range cl.(*ast.CaseClause).List {
					out = append(out, typeStr(f.Info().TypeOf(e)))
				}
			}
		}
		return true
	})
	sort.Strings(out)
	return out, f
}

// ---- codegen side ------------------------------------------------------

type emitSite struct {
	F        *core.Func
	Call     *ast.CallExpr // nil for opcode overwrites
	Node     ast.Node
	Ops      []string // possible opcodes
	OpExpr   string
	Operand  ast.Expr
	OpndType string // static Go type of the operand ("nil" for the nil literal; default type for untyped constants)
	Keeps    string // for overwrites: opcode whose operand is kept
	PrevPush *emitSite
}

// constOpcode returns the opcode name if e is a constant of type code.Opcode.
func constOpcode(info *types.Info, e ast.Expr) (string, bool) {
	tv, ok := info.Types[e]
	if !ok || tv.Value == nil || !strings.HasSuffix(tv.Type.String(), "code.Opcode") {
		return "", false
	}
	return opName(e), true
}

// mapLiteralOpcodes collects the opcode values of a package-level map literal (possibly nested), keyed by outer key string.
func mapLiteralOpcodes(c *core.Check, pkgRel, varName string) (flat []string, byKey map[string][]string, keysByOuter map[string]map[string]string) {
	byKey = map[string][]string{}
	keysByOuter = map[string]map[string]string{}
	pkg := c.Prog.Pkgs[pkgRel]
	if pkg == nil {
		return
	}
	for _, file := range pkg.Syntax {
		for _, d := range file.Decls {
			gd, ok := d.(*ast.GenDecl)
			if !ok {
				continue
			}
			for _, sp := range gd.Specs {
				vs, ok := sp.(*ast.ValueSpec)
				if !ok || len(vs.Names) != 1 || vs.Names[0].Name != varName || len(vs.Values) != 1 {
					continue
				}
				lit, ok := vs.Values[0].(*ast.CompositeLit)
				if !ok {
					continue
				}
				for _, el := range lit.Elts {
					kv := el.(*ast.KeyValueExpr)
					k := opName(kv.Key)
					if bl, ok := kv.Key.(*ast.BasicLit); ok {
						k = strings.Trim(bl.Value, `"`)
					}
					if inner, ok := kv.Value.(*ast.CompositeLit); ok {
						keysByOuter[k] = map[string]string{}
						for _, iel := range inner.Elts {
							ikv := iel.(*ast.KeyValueExpr)
							if op, ok := constOpcode(pkg.TypesInfo, ikv.Value); ok {
								byKey[k] = append(byKey[k], op)
								flat = append(flat, op)
								keysByOuter[k][opName(ikv.Key)] = op
							}
						}
					} else if op, ok := constOpcode(pkg.TypesInfo, kv.Value); ok {
						byKey[k] = append(byKey[k], op)
						flat = append(flat, op)
					}
				}
			}
		}
	}
	return
}

// extractEmits lists every c.emit call and opcode overwrite in package codegen.
func extractEmits(c *core.Check) ([]*emitSite, []string) {
	var out []*emitSite
	var problems []string
	emitID := "internal/runtime/compiler/codegen.(*codegen).emit"
	_, typedByTok, _ := mapLiteralOpcodes(c, "internal/runtime/compiler/codegen", "typedOperators")
	builtinOps, _, _ := mapLiteralOpcodes(c, "internal/runtime/compiler/codegen", "builtin")
	for _, k := range c.Prog.SortedFuncKeys() {
		f := c.Prog.Funcs[k]
		if core.Rel(f.Pkg.PkgPath) != "internal/runtime/compiler/codegen" || f.Lit != nil {
			continue
		}
		info := f.Info()
		// previous statement map for adjacency
		prevStmt := map[ast.Stmt]ast.Stmt{}
		ast.Inspect(f.Body, func(n ast.Node) bool {
			var list []ast.Stmt
			switch b := n.(type) {
			case *ast.BlockStmt:
				list = b.List
			case *ast.CaseClause:
				list = b.Body
			}
			for i := 1; i < len(list); i++ {
				prevStmt[list[i]] = list[i-1]
			}
			return true
		})
		byStmt := map[ast.Stmt]*emitSite{}
		ast.Inspect(f.Body, func(n ast.Node) bool {
			switch x := n.(type) {
			case *ast.ExprStmt:
				call, ok := x.X.(*ast.CallExpr)
				if !ok || f.CalleeID(call) != emitID || len(call.Args) != 3 {
					return true
				}
				c.Analysed(f)
				es := &emitSite{F: f, Call: call, Node: call, OpExpr: exprStr(call.Args[1]), Operand: call.Args[2]}
				if op, ok := constOpcode(info, call.Args[1]); ok {
					es.Ops = []string{op}
				} else if id, ok := core.Unparen(call.Args[1]).(*ast.Ident); ok {
					// local variable: constant assignments, or getOpcodeForType(tok, …) results
					obj := info.Uses[id]
					ast.Inspect(f.Body, func(y ast.Node) bool {
						as, ok := y.(*ast.AssignStmt)
						if !ok {
							if vs, ok := y.(*ast.ValueSpec); ok {
								for i, nm := range vs.Names {
									if info.Defs[nm] == obj && i < len(vs.Values) {
										if op, ok := constOpcode(info, vs.Values[i]); ok {
											es.Ops = append(es.Ops, op)
										}
									}
								}
							}
							return true
						}
						for i, l := range as.Lhs {
							if identObj(info, l) != obj {
								continue
							}
							if len(as.Rhs) == len(as.Lhs) {
								if op, ok := constOpcode(info, as.Rhs[i]); ok {
									es.Ops = append(es.Ops, op)
								}
							} else if len(as.Rhs) == 1 {
								if call2, ok := as.Rhs[0].(*ast.CallExpr); ok && strings.HasSuffix(f.CalleeID(call2), ".getOpcodeForType") && i == 0 && as.Pos() < call.Pos() {
									tok := opName(call2.Args[0])
									if ops, ok := typedByTok[tok]; ok {
										es.Ops = append(es.Ops, ops...)
									} else {
										// n.Op: any arithmetic token of the enclosing case list
										for _, cc := range enclosingCaseTokens(f, as) {
											es.Ops = append(es.Ops, typedByTok[cc]...)
										}
									}
								}
							}
						}
						return true
					})
				} else if ix, ok := core.Unparen(call.Args[1]).(*ast.IndexExpr); ok && isPkgVar(info, ix.X, "builtin") {
					es.Ops = append(es.Ops, builtinOps...)
				}
				es.Ops = uniq(es.Ops)
				if len(es.Ops) == 0 {
					problems = append(problems, fmt.Sprintf("%s: opcode expression %s not resolved", c.Prog.Position(call.Pos()), es.OpExpr))
				}
				es.OpndType = operandType(info, call.Args[2])
				// the emit directly before this one: statements in between that do not
				// touch the code generator (logging, binding a local) cannot emit
				ps := prevStmt[x]
				for ps != nil && !mentionsType(info, ps, "codegen.codegen") {
					ps = prevStmt[ps]
				}
				if p, ok := byStmt[ps]; ok {
					es.PrevPush = p
				}
				byStmt[x] = es
				out = append(out, es)
			case *ast.AssignStmt:
				// c.obj.Program[pc].Opcode = code.X
				if len(x.Lhs) == 1 && len(x.Rhs) == 1 && isFieldOf(info, x.Lhs[0], "code.Instr", "Opcode") {
					if op, ok := constOpcode(info, x.Rhs[0]); ok {
						c.Analysed(f)
						out = append(out, &emitSite{F: f, Node: x, Ops: []string{op}, OpExpr: exprStr(x.Rhs[0]), Keeps: "Dload", OpndType: "int"})
					}
				}
			}
			return true
		})
	}
	sort.SliceStable(out, func(i, j int) bool { return out[i].Node.Pos() < out[j].Node.Pos() })
	return out, problems
}

// mentionsType reports whether n contains an expression whose type (pointers stripped) ends in suffix.
func mentionsType(info *types.Info, n ast.Node, suffix string) bool {
	found := false
	ast.Inspect(n, func(x ast.Node) bool {
		if e, ok := x.(ast.Expr); ok && !found {
			if t := info.TypeOf(e); t != nil && strings.HasSuffix(strings.TrimPrefix(t.String(), "*"), suffix) {
				found = true
			}
		}
		return !found
	})
	return found
}

func operandType(info *types.Info, e ast.Expr) string {
	if isNilIdent(info, e) {
		return "nil"
	}
	tv := info.Types[e]
	t := tv.Type
	if b, ok := t.(*types.Basic); ok && b.Info()&types.IsUntyped != 0 {
		t = types.Default(t)
	}
	return typeStr(t)
}

func uniq(xs []string) []string {
	sort.Strings(xs)
	var out []string
	for i, x := range xs {
		if i == 0 || x != xs[i-1] {
			out = append(out, x)
		}
	}
	return out
}

// enclosingCaseTokens returns the token names listed in the case clause (of a switch on n.Op) enclosing n.
func enclosingCaseTokens(f *core.Func, n ast.Node) []string {
	var out []string
	ast.Inspect(f.Body, func(x ast.Node) bool {
		cc, ok := x.(*ast.CaseClause)
		if !ok {
			return true
		}
		if cc.Pos() <= n.Pos() && n.End() <= cc.End() {
			var toks []string
			for _, e := range cc.List {
				if sel, ok := e.(*ast.SelectorExpr); ok && isPkgRef(f.Info(), sel.X, "compiler/parser") {
					toks = append(toks, sel.Sel.Name)
				}
			}
			if len(toks) > 0 {
				out = toks // innermost wins
			}
		}
		return true
	})
	return out
}

// isPkgVar reports whether e is an identifier denoting the package-level variable with the given name (not a local of that name).
func isPkgVar(info *types.Info, e ast.Expr, name string) bool {
	id, ok := core.Unparen(e).(*ast.Ident)
	if !ok {
		return false
	}
	v, ok := info.Uses[id].(*types.Var)
	return ok && v.Name() == name && v.Pkg() != nil && v.Parent() == v.Pkg().Scope()
}

// isPkgRef reports whether e is the name of an imported package whose path ends in suffix, whatever the import is called locally.
func isPkgRef(info *types.Info, e ast.Expr, suffix string) bool {
	id, ok := core.Unparen(e).(*ast.Ident)
	if !ok {
		return false
	}
	pn, ok := info.Uses[id].(*types.PkgName)
	return ok && strings.HasSuffix(pn.Imported().Path(), suffix)
}
