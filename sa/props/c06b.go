package props

import (
	"fmt"
	"go/ast"
	"go/types"

	"verif/sa/core"
)

// C06-R7 DESCRIPTOR-PER-METRIC.  In the Prometheus collector the store hands
// the callback one metric at a time; metrics of the same name declared by
// different programs come one after the other.  A descriptor (name, help, label
// NAMES) kept in a variable that outlives one callback invocation and is
// rebuilt only when the metric NAME changes is the first program's descriptor
// for every program's samples: the label values of one program are published
// under the label names (and their order) of another.
func init() { register("C06", c06Descriptor) }

func c06Descriptor(c *core.Check) {
	const rule = "C06-R7"
	c.Rule(rule, "DESCRIPTOR-PER-METRIC: the descriptor handed to NewConstMetric / NewConstHistogram in the collector's per-metric callback is built in that invocation of the callback (a NewDesc call, directly or through locals of the callback); if it is read from a variable that outlives the invocation (a variable of the enclosing function, a field, a map), every rebuild of that variable must be decided by more than the metric's name — the program (or the metric itself) must take part in the decision")
	collect := c.MustFn(rule, c13Collect)
	if collect == nil {
		return
	}
	var cb *core.Func
	core.InspectNoLit(collect.Body, func(n ast.Node) bool {
		if call, ok := n.(*ast.CallExpr); ok && collect.CalleeID(call) == c13StoreRange && len(call.Args) == 1 {
			if lit, ok := core.Unparen(call.Args[0]).(*ast.FuncLit); ok && cb == nil {
				cb = c.Prog.FuncOf[lit]
			}
		}
		return true
	})
	if cb == nil {
		c.Undecided(rule, c13Collect, pos(c, collect.Decl), "per-metric callback of Store.Range not found")
		return
	}
	c.Analysed(cb)
	info := cb.Info()
	mParam := paramAt(cb, 0)
	nameField := structField(c, "internal/metrics", "Metric", "Name")
	n := 0
	for _, h := range cb.Graph().CallsTo(c13ConstMetric, c13ConstHist, c13MustMetric, c13MustHist) {
		call := h.N.(*ast.CallExpr)
		n++
		key := fmt.Sprintf("%s|descriptor#%d", cb.Key, n)
		if len(call.Args) == 0 {
			continue
		}
		d := core.Unparen(call.Args[0])
		if id0, ok := d.(*ast.Ident); ok {
			// follow locals of the callback only; a variable of the enclosing function is the subject of the rule
			if v0, _ := identObj(info, id0).(*types.Var); v0 != nil && cb.Lit != nil && cb.Lit.Pos() <= v0.Pos() && v0.Pos() < cb.Lit.End() {
				d = core.Unparen(hbResolve(cb, d))
			}
		}
		if dc, ok := d.(*ast.CallExpr); ok {
			if cb.CalleeID(dc) == c13Prom+"NewDesc" {
				c.Ok(rule, key, pos(c, call), "built for this sample by NewDesc")
				continue
			}
		}
		id, isId := d.(*ast.Ident)
		if !isId {
			c.Undecided(rule, key, pos(c, call), "the descriptor is neither a NewDesc call nor a variable: "+exprStr(d))
			continue
		}
		obj := identObj(info, id)
		v, _ := obj.(*types.Var)
		if v == nil {
			c.Undecided(rule, key, pos(c, call), "descriptor not resolved")
			continue
		}
		inside := cb.Lit != nil && cb.Lit.Pos() <= v.Pos() && v.Pos() < cb.Lit.End()
		if inside {
			// a local of the callback assigned more than once: each definition must be a NewDesc of this invocation
			c.Ok(rule, key, pos(c, call), "the descriptor variable is local to one invocation of the callback")
			continue
		}
		// the variable outlives the invocation: look at what decides its rebuilds
		var assigns []*ast.AssignStmt
		core.InspectNoLit(cb.Body, func(x ast.Node) bool {
			if as, ok := x.(*ast.AssignStmt); ok {
				for _, l := range as.Lhs {
					if identObj(info, l) == obj {
						assigns = append(assigns, as)
					}
				}
			}
			return true
		})
		if len(assigns) == 0 {
			c.Fail(rule, key, pos(c, call), "the descriptor is read from "+v.Name()+", which the per-metric callback never rebuilds: every metric is exported under one descriptor")
			continue
		}
		nameOnly, undecided := true, ""
		for _, as := range assigns {
			ifs := cb.EnclosingIfs(as.Pos())
			if len(ifs) == 0 {
				nameOnly = false // rebuilt unconditionally in every invocation
				continue
			}
			for _, ic := range ifs {
				mentionsMetricBeyondName := false
				ast.Inspect(ic.If.Cond, func(y ast.Node) bool {
					switch e := y.(type) {
					case *ast.SelectorExpr:
						if identObj(info, e.X) == mParam {
							if s := info.Selections[e]; s != nil && s.Obj() != types.Object(nameField) {
								mentionsMetricBeyondName = true
							}
							return false
						}
					case *ast.Ident:
						if identObj(info, e) == mParam {
							mentionsMetricBeyondName = true // the metric itself (pointer identity)
						}
					case *ast.CallExpr:
						undecided = "a rebuild of the descriptor variable is decided by a call: " + exprStr(e)
					}
					return true
				})
				if mentionsMetricBeyondName {
					nameOnly = false
				}
			}
		}
		switch {
		case undecided != "" && nameOnly:
			c.Undecided(rule, key, pos(c, call), undecided)
		case nameOnly:
			c.Fail(rule, key, pos(c, call), "the descriptor is kept in "+v.Name()+" across invocations of the per-metric callback and rebuilt only when the metric's name changes: two programs that declare the same metric name share the descriptor of the first one visited, so the second program's label values are exported under the first program's label names (and help text) — a program's export then depends on what another program declares")
		default:
			c.Ok(rule, key, pos(c, call), "rebuilds of the descriptor variable are decided by the program or the metric itself, or are unconditional")
		}
	}
	c.Floor(rule, 2)
}
