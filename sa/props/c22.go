package props

import (
	"fmt"
	"go/ast"
	"go/constant"
	"go/token"
	"go/types"
	"os"
	"reflect"
	"sort"
	"strings"

	"golang.org/x/tools/go/cfg"

	"verif/sa/core"
)

func init() { register("C22", c22) }

const (
	c22Graphite      = "internal/exporter.metricToGraphite"
	c22Statsd        = "internal/exporter.metricToStatsd"
	c22Collectd      = "internal/exporter.metricToCollectd"
	c22Varz          = "internal/exporter.metricToVarz"
	c22FormatLabels  = "internal/exporter.formatLabels"
	c22LVUnmarshal   = "internal/metrics.(*LabelValue).UnmarshalJSON"
	c22MetricMarshal = "internal/metrics.(*Metric).MarshalJSON"
)

// c22T holds the resolved types and fields the rules talk about.
type c22T struct {
	c                                    *core.Check
	metric, labelSet, labelValue, datumI *types.Named
	datumPkg, metricsPkg, exporterPkg    *types.Package
	fLabelValues, fLabelValuesMap        *types.Var
	fLSLabels, fLSDatum                  *types.Var
	fKind, fProgram, fName               *types.Var
	roots                                map[*core.Func]bool // per-label-set formatters
	sites                                map[*core.Func][]c22Site
	sitesDone                            bool
}

type c22Site struct {
	f    *core.Func
	call *ast.CallExpr
}

func c22Named(c *core.Check, rel, name string) *types.Named {
	p := c.Prog.Pkgs[rel]
	if p == nil || p.Types == nil {
		return nil
	}
	o := p.Types.Scope().Lookup(name)
	if o == nil {
		return nil
	}
	n, _ := o.Type().(*types.Named)
	return n
}

func c22Field(n *types.Named, name string) *types.Var {
	if n == nil {
		return nil
	}
	st, ok := n.Underlying().(*types.Struct)
	if !ok {
		return nil
	}
	for i := 0; i < st.NumFields(); i++ {
		if st.Field(i).Name() == name {
			return st.Field(i)
		}
	}
	return nil
}

func c22Resolve(c *core.Check) *c22T {
	t := &c22T{c: c, roots: map[*core.Func]bool{}, sites: map[*core.Func][]c22Site{}}
	t.metric = c22Named(c, "internal/metrics", "Metric")
	t.labelSet = c22Named(c, "internal/metrics", "LabelSet")
	t.labelValue = c22Named(c, "internal/metrics", "LabelValue")
	t.datumI = c22Named(c, "internal/metrics/datum", "Datum")
	bad := func(what string) *c22T {
		c.Undecided("C22-R1", "anchors|"+what, "-", "anchor type or field not found in the loaded program")
		return nil
	}
	if t.metric == nil || t.labelSet == nil || t.labelValue == nil || t.datumI == nil {
		return bad("types Metric/LabelSet/LabelValue/Datum")
	}
	t.metricsPkg = c.Prog.Pkgs["internal/metrics"].Types
	t.datumPkg = c.Prog.Pkgs["internal/metrics/datum"].Types
	if p := c.Prog.Pkgs["internal/exporter"]; p != nil {
		t.exporterPkg = p.Types
	} else {
		return bad("package internal/exporter")
	}
	t.fLabelValues = c22Field(t.metric, "LabelValues")
	t.fLabelValuesMap = c22Field(t.metric, "labelValuesMap")
	t.fKind = c22Field(t.metric, "Kind")
	t.fProgram = c22Field(t.metric, "Program")
	t.fName = c22Field(t.metric, "Name")
	t.fLSLabels = c22Field(t.labelSet, "Labels")
	t.fLSDatum = c22Field(t.labelSet, "Datum")
	if t.fLabelValues == nil || t.fKind == nil || t.fProgram == nil || t.fName == nil || t.fLSLabels == nil || t.fLSDatum == nil {
		return bad("fields Metric.LabelValues/Kind/Program/Name, LabelSet.Labels/Datum")
	}
	return t
}

func c22PtrTo(tp types.Type, n *types.Named) bool {
	p, ok := tp.(*types.Pointer)
	return ok && n != nil && types.Identical(p.Elem(), n)
}

// isDatum: the Datum interface or a pointer to one of its implementations in package datum.
func (t *c22T) isDatum(tp types.Type) bool {
	if tp == nil {
		return false
	}
	if types.Identical(tp, t.datumI) {
		return true
	}
	if p, ok := tp.(*types.Pointer); ok {
		if n, ok := p.Elem().(*types.Named); ok && n.Obj().Pkg() == t.datumPkg {
			if iface, ok := t.datumI.Underlying().(*types.Interface); ok {
				return types.Implements(tp, iface)
			}
		}
	}
	return false
}

func c22IsLabelMap(tp types.Type) bool {
	if tp == nil {
		return false
	}
	m, ok := tp.Underlying().(*types.Map)
	if !ok {
		return false
	}
	k, ok1 := m.Key().Underlying().(*types.Basic)
	v, ok2 := m.Elem().Underlying().(*types.Basic)
	return ok1 && ok2 && k.Kind() == types.String && v.Kind() == types.String
}

// params lists the parameter objects of f (declaration or literal) with their index.
func c22Params(f *core.Func) []types.Object {
	var out []types.Object
	if f.Type.Params == nil {
		return nil
	}
	for _, fl := range f.Type.Params.List {
		if len(fl.Names) == 0 {
			out = append(out, nil)
			continue
		}
		for _, n := range fl.Names {
			out = append(out, f.Info().Defs[n])
		}
	}
	return out
}

func c22RecvObj(f *core.Func) types.Object {
	if f.Lit != nil || f.Decl.Recv == nil || len(f.Decl.Recv.List) == 0 || len(f.Decl.Recv.List[0].Names) == 0 {
		return nil
	}
	return f.Info().Defs[f.Decl.Recv.List[0].Names[0]]
}

func (t *c22T) paramsOfType(f *core.Func, pred func(types.Type) bool) []types.Object {
	var out []types.Object
	for _, o := range c22Params(f) {
		if o != nil && pred(o.Type()) {
			out = append(out, o)
		}
	}
	return out
}

// paramOwner finds the function (f or an enclosing one) of which v is a parameter.
func c22ParamOwner(f *core.Func, v types.Object) (*core.Func, int) {
	for cur := f; cur != nil; cur = cur.Parent {
		for i, o := range c22Params(cur) {
			if o != nil && o == v {
				return cur, i
			}
		}
	}
	return nil, -1
}

func (t *c22T) callSites(target *core.Func) []c22Site {
	if !t.sitesDone {
		t.sitesDone = true
		for _, f := range shipped(t.c) {
			if f.Lit != nil {
				continue // literal bodies are walked with their declaration
			}
			ast.Inspect(f.Body, func(n ast.Node) bool {
				if call, ok := n.(*ast.CallExpr); ok {
					if cf := f.CalleeFunc(call); cf != nil {
						t.sites[cf] = append(t.sites[cf], c22Site{f, call})
					}
				}
				return true
			})
		}
	}
	return t.sites[target]
}

// c22Leaf is a source expression in the context of a function.
type c22Leaf struct {
	f *core.Func
	e ast.Expr
}

func c22Obj(info *types.Info, id *ast.Ident) types.Object {
	if o := info.Uses[id]; o != nil {
		return o
	}
	return info.Defs[id]
}

// c22Defs lists the right-hand sides assigned to local v anywhere in the
// enclosing declaration; isRange reports that v is a range variable.
func c22Defs(f *core.Func, v types.Object) (defs []ast.Expr, rng *ast.RangeStmt, zero bool) {
	info := f.Info()
	is := func(e ast.Expr) bool {
		id, ok := core.Unparen(e).(*ast.Ident)
		return ok && c22Obj(info, id) == v
	}
	ast.Inspect(f.Decl.Body, func(n ast.Node) bool {
		switch s := n.(type) {
		case *ast.AssignStmt:
			for i, l := range s.Lhs {
				if !is(l) {
					continue
				}
				if len(s.Rhs) == len(s.Lhs) {
					defs = append(defs, s.Rhs[i])
				} else if len(s.Rhs) == 1 {
					defs = append(defs, s.Rhs[0])
				}
			}
		case *ast.ValueSpec:
			for i, nm := range s.Names {
				if info.Defs[nm] != v {
					continue
				}
				switch {
				case len(s.Values) == len(s.Names):
					defs = append(defs, s.Values[i])
				case len(s.Values) == 1:
					defs = append(defs, s.Values[0])
				default:
					zero = true
				}
			}
		case *ast.RangeStmt:
			if (s.Key != nil && is(s.Key)) || (s.Value != nil && is(s.Value)) {
				rng = s
			}
		}
		return true
	})
	return
}

// leaves resolves an expression to the source expressions its value comes
// from: through local variables (every assignment), through parameters of
// helper functions (every call site), through the conversions of package datum
// (GetBuckets(d) is d) and through type assertions.
func (t *c22T) leaves(f *core.Func, e ast.Expr, seen map[types.Object]bool) []c22Leaf {
	e = core.Unparen(e)
	info := f.Info()
	self := []c22Leaf{{f, e}}
	switch x := e.(type) {
	case *ast.Ident:
		v, ok := c22Obj(info, x).(*types.Var)
		if !ok || v.IsField() || v.Pkg() == nil || v.Parent() == v.Pkg().Scope() {
			return self
		}
		if seen[v] {
			return nil
		}
		seen[v] = true
		if pf, idx := c22ParamOwner(f, v); pf != nil {
			if pf.Lit != nil || t.roots[pf] {
				return self
			}
			sites := t.callSites(pf)
			if len(sites) == 0 {
				return self
			}
			var out []c22Leaf
			for _, s := range sites {
				if idx >= len(s.call.Args) {
					return self
				}
				out = append(out, t.leaves(s.f, s.call.Args[idx], seen)...)
			}
			return out
		}
		defs, rng, _ := c22Defs(f, v)
		if rng != nil || len(defs) == 0 {
			return self
		}
		var out []c22Leaf
		for _, d := range defs {
			out = append(out, t.leaves(f, d, seen)...)
		}
		return out
	case *ast.CallExpr:
		id := f.CalleeID(x)
		if strings.HasPrefix(id, "internal/metrics/datum.") && !strings.Contains(id, ")") && len(x.Args) >= 1 && t.isDatum(info.TypeOf(x.Args[0])) && t.isDatum(info.TypeOf(x)) {
			return t.leaves(f, x.Args[0], seen)
		}
		return self
	case *ast.TypeAssertExpr:
		return t.leaves(f, x.X, seen)
	case *ast.StarExpr:
		return t.leaves(f, x.X, seen)
	case *ast.UnaryExpr:
		if x.Op == token.AND {
			return t.leaves(f, x.X, seen)
		}
	}
	return self
}

// isLSField: the leaf is `<p>.<field>` with p (through locals and helper
// parameters) a *LabelSet parameter of a per-label-set formatter.
func (t *c22T) isLSField(lf c22Leaf, field *types.Var) bool {
	sel, ok := core.Unparen(lf.e).(*ast.SelectorExpr)
	if !ok || lf.f.Info().Uses[sel.Sel] != field {
		return false
	}
	xs := t.leaves(lf.f, sel.X, map[types.Object]bool{})
	if len(xs) == 0 {
		return false
	}
	for _, x := range xs {
		id, ok := core.Unparen(x.e).(*ast.Ident)
		if !ok {
			return false
		}
		o := c22Obj(x.f.Info(), id)
		pf, _ := c22ParamOwner(x.f, o)
		if pf == nil || !t.roots[pf] || !c22PtrTo(o.Type(), t.labelSet) {
			return false
		}
	}
	return true
}

// derived reports whether every source of e is the given field of the label set parameter.
func (t *c22T) derived(f *core.Func, e ast.Expr, field *types.Var) (bool, []c22Leaf) {
	ls := t.leaves(f, e, map[types.Object]bool{})
	var bad []c22Leaf
	for _, l := range ls {
		if !t.isLSField(l, field) {
			bad = append(bad, l)
		}
	}
	return len(ls) > 0 && len(bad) == 0, bad
}

func c22Parents(root ast.Node) map[ast.Node]ast.Node {
	par := map[ast.Node]ast.Node{}
	var stack []ast.Node
	ast.Inspect(root, func(n ast.Node) bool {
		if n == nil {
			stack = stack[:len(stack)-1]
			return false
		}
		if len(stack) > 0 {
			par[n] = stack[len(stack)-1]
		}
		stack = append(stack, n)
		return true
	})
	return par
}

// c22FmtFn is a per-label-set formatter: a declared function with one
// *metrics.Metric and one *metrics.LabelSet parameter.
type c22FmtFn struct {
	f    *core.Func
	m, l types.Object
}

func (t *c22T) formatters() []*c22FmtFn {
	var out []*c22FmtFn
	for _, f := range shipped(t.c) {
		if f.Lit != nil {
			continue
		}
		ms := t.paramsOfType(f, func(tp types.Type) bool { return c22PtrTo(tp, t.metric) })
		ls := t.paramsOfType(f, func(tp types.Type) bool { return c22PtrTo(tp, t.labelSet) })
		if len(ls) == 0 || len(ms) == 0 {
			continue
		}
		if len(ls) > 1 || len(ms) > 1 {
			t.c.Undecided("C22-R1", f.Key+"|signature", pos(t.c, f.Decl), "a formatter with several metric or label-set parameters is outside the recognised family")
			continue
		}
		out = append(out, &c22FmtFn{f, ms[0], ls[0]})
		t.roots[f] = true
	}
	// a function of that shape whose every call site lies in another such
	// function is a helper of that formatter, not a formatter of its own
	for changed := true; changed; {
		changed = false
		for i, fm := range out {
			sites := t.callSites(fm.f)
			helper := len(sites) > 0
			for _, s := range sites {
				if !t.roots[s.f] || s.f == fm.f {
					helper = false
				}
			}
			if helper {
				delete(t.roots, fm.f)
				out = append(out[:i], out[i+1:]...)
				changed = true
				break
			}
		}
	}
	return out
}

// helperClosure lists the declared functions of package exporter reachable from f by resolved calls (f first).
func (t *c22T) helperClosure(f *core.Func) []*core.Func {
	seen := map[*core.Func]bool{f: true}
	out := []*core.Func{f}
	for i := 0; i < len(out); i++ {
		for _, cf := range out[i].Callees() {
			if seen[cf] || cf.Lit != nil || cf.Pkg.Types != t.exporterPkg || t.roots[cf] {
				continue
			}
			seen[cf] = true
			out = append(out, cf)
		}
	}
	return out
}

// metricUses audits every use of a *Metric-typed object inside fn.  It
// returns the descriptive fields read, the offending accesses and the uses
// outside the recognised family.
func (t *c22T) metricUses(fn *core.Func, mobj types.Object, depth int, fields map[string]bool, bad, unk *[]string) {
	info := fn.Info()
	par := c22Parents(fn.Decl.Body)
	ast.Inspect(fn.Decl.Body, func(n ast.Node) bool {
		id, ok := n.(*ast.Ident)
		if !ok || info.Uses[id] != mobj {
			return true
		}
		p := par[id]
		for {
			if pe, ok := p.(*ast.ParenExpr); ok {
				p = par[pe]
				continue
			}
			break
		}
		switch pp := p.(type) {
		case *ast.SelectorExpr:
			if core.Unparen(pp.X) != ast.Expr(id) {
				break
			}
			switch o := info.Uses[pp.Sel].(type) {
			case *types.Var:
				if o == t.fLabelValues || (t.fLabelValuesMap != nil && o == t.fLabelValuesMap) {
					*bad = append(*bad, fmt.Sprintf("%s at %s", exprStr(pp), pos(t.c, pp)))
				} else {
					fields[o.Name()] = true
				}
				return true
			case *types.Func:
				if cf := t.c.Prog.ByObj[o.Origin()]; cf != nil && depth < 4 {
					if r := c22RecvObj(cf); r != nil {
						t.metricUses(cf, r, depth+1, fields, bad, unk)
						return true
					}
				}
				*unk = append(*unk, fmt.Sprintf("method call %s at %s", exprStr(pp), pos(t.c, pp)))
				return true
			}
		case *ast.CallExpr:
			for i, a := range pp.Args {
				if core.Unparen(a) != ast.Expr(id) {
					continue
				}
				if cf := fn.CalleeFunc(pp); cf != nil && depth < 4 {
					ps := c22Params(cf)
					if i < len(ps) && ps[i] != nil {
						t.metricUses(cf, ps[i], depth+1, fields, bad, unk)
						return true
					}
				}
				*unk = append(*unk, fmt.Sprintf("metric passed to %s at %s", fn.CalleeID(pp), pos(t.c, pp)))
				return true
			}
		}
		*unk = append(*unk, fmt.Sprintf("use at %s", pos(t.c, id)))
		return true
	})
}

func (t *c22T) ruleLocality(fms []*c22FmtFn) {
	c := t.c
	c.Rule("C22-R1", "LOCALITY: a per-label-set formatter (declared function with a *Metric and a *LabelSet parameter) and the helpers it calls read only descriptive fields of the metric (never Metric.LabelValues / labelValuesMap), and every datum they touch (receiver of ValueString/TimeString/GetBuckets/GetCount, argument of datum.Get*) comes, through locals, helper parameters and datum conversions, from the Datum field of the *LabelSet parameter")
	for _, fm := range fms {
		c.Analysed(fm.f)
		fields := map[string]bool{}
		var bad, unk []string
		t.metricUses(fm.f, fm.m, 0, fields, &bad, &unk)
		key := fm.f.Key + "|metric parameter"
		switch {
		case len(bad) > 0:
			c.Fail("C22-R1", key, pos(c, fm.f.Decl), "the formatter is called once per label set but reads the metric's whole label-value list ("+strings.Join(bad, "; ")+"): what it prints from there belongs to a fixed label set, so with two label sets of distinct values at least one record does not carry its own value")
		case len(unk) > 0:
			c.Undecided("C22-R1", key, pos(c, fm.f.Decl), "use of the metric outside the recognised family (field read, call of a module function): "+strings.Join(unk, "; "))
		default:
			c.Ok("C22-R1", key, pos(c, fm.f.Decl), "reads only "+strings.Join(sortedKeys(fields), ","))
		}
		// datum sources, in the formatter and its helpers
		var foreign []string
		seenPos := map[token.Pos]bool{}
		n := 0
		for _, fn := range t.helperClosure(fm.f) {
			c.Analysed(fn)
			info := fn.Info()
			ast.Inspect(fn.Decl.Body, func(x ast.Node) bool {
				e, ok := x.(ast.Expr)
				if !ok {
					return true
				}
				if tv, has := info.Types[e]; !has || !tv.IsValue() || !t.isDatum(tv.Type) {
					return true
				}
				n++
				_, badLeaves := t.derived(fn, e, t.fLSDatum)
				for _, b := range badLeaves {
					if !seenPos[b.e.Pos()] {
						seenPos[b.e.Pos()] = true
						foreign = append(foreign, fmt.Sprintf("%s at %s", exprStr(b.e), pos(c, b.e)))
					}
				}
				return true
			})
		}
		key = fm.f.Key + "|datum sources"
		if len(foreign) > 0 {
			sort.Strings(foreign)
			c.Fail("C22-R1", key, pos(c, fm.f.Decl), "the formatter prints data of a datum that is not the one of the label set it was given: "+strings.Join(foreign, "; ")+" — every label set of the metric is reported with that other datum's data (for a histogram: the first label set's buckets and count under every label set's name)")
		} else if n == 0 {
			c.Fail("C22-R1", key, pos(c, fm.f.Decl), "the formatter never touches a datum: the record cannot carry the label set's value")
		} else {
			c.Ok("C22-R1", key, pos(c, fm.f.Decl), fmt.Sprintf("%d datum-typed expressions, all from the label set parameter's Datum", n))
		}
	}
	c.Floor("C22-R1", 8)
}

var _ = reflect.DeepEqual
var _ = constant.StringVal
var _ cfg.Block

// ---------------------------------------------------------------------------
// R2: one record per received label set, under the metric's lock

// isFormatterCall: the callee's signature has a *Metric and a *LabelSet parameter.
func (t *c22T) formatterCall(f *core.Func, call *ast.CallExpr) (mi, li int, ok bool) {
	sig, isSig := f.Info().TypeOf(call.Fun).(*types.Signature)
	if !isSig {
		if tp := f.Info().TypeOf(call.Fun); tp != nil {
			sig, isSig = tp.Underlying().(*types.Signature)
		}
	}
	if !isSig {
		return 0, 0, false
	}
	mi, li = -1, -1
	for i := 0; i < sig.Params().Len(); i++ {
		pt := sig.Params().At(i).Type()
		if c22PtrTo(pt, t.metric) && mi < 0 {
			mi = i
		}
		if c22PtrTo(pt, t.labelSet) && li < 0 {
			li = i
		}
	}
	if mi < 0 || li < 0 || mi >= len(call.Args) || li >= len(call.Args) {
		return 0, 0, false
	}
	return mi, li, true
}

// c22WriteDest classifies a call as a write of text: it returns the
// destination expression and the payload arguments.
func c22WriteDest(f *core.Func, call *ast.CallExpr) (dst ast.Expr, payload []ast.Expr, ok bool) {
	id := f.CalleeID(call)
	switch id {
	case "fmt.Fprint", "fmt.Fprintln", "io.WriteString":
		if len(call.Args) >= 2 {
			return call.Args[0], call.Args[1:], true
		}
	case "fmt.Fprintf":
		if len(call.Args) >= 2 {
			return call.Args[0], call.Args[1:], true
		}
	}
	if sel, isSel := core.Unparen(call.Fun).(*ast.SelectorExpr); isSel && len(call.Args) == 1 {
		if _, isM := f.Info().Uses[sel.Sel].(*types.Func); isM && (sel.Sel.Name == "Write" || sel.Sel.Name == "WriteString") {
			return sel.X, call.Args, true
		}
	}
	return nil, nil, false
}

func c22IsSink(f *core.Func, dst ast.Expr) bool {
	tp := f.Info().TypeOf(dst)
	return tp != nil && types.IsInterface(tp)
}

func c22InSpan(n ast.Node, outer ast.Node) bool {
	return outer.Pos() <= n.Pos() && n.End() <= outer.End()
}

// errLatches finds `if v != nil` statements inside the loop whose variable is
// an error declared outside the loop with no initial value, assigned only at
// points of the loop body that a write dominates, and returned after the loop.
func (t *c22T) errLatches(f *core.Func, g *core.Graph, rs *ast.RangeStmt, writes []core.Point) []*ast.IfStmt {
	info := f.Info()
	_, body, _ := loopBlocks(g, rs)
	if body == nil {
		return nil
	}
	var out []*ast.IfStmt
	for _, is := range ifsWhere(f, func(is *ast.IfStmt) bool { return c22InSpan(is, rs.Body) }) {
		be, ok := core.Unparen(is.Cond).(*ast.BinaryExpr)
		if !ok || be.Op != token.NEQ {
			continue
		}
		var ve ast.Expr
		switch {
		case isNilIdent(info, be.Y):
			ve = be.X
		case isNilIdent(info, be.X):
			ve = be.Y
		default:
			continue
		}
		v := identObj(info, ve)
		if v == nil || !types.Identical(v.Type(), types.Universe.Lookup("error").Type()) || c22InSpan(identNode(f, v), rs) {
			continue
		}
		defs, rng, zero := c22Defs(f, v)
		if rng != nil || !zero || len(defs) == 0 {
			continue
		}
		good := true
		for _, d := range defs {
			if !c22InSpan(d, rs.Body) {
				good = false
				break
			}
			p, found := g.PointOf(d)
			if !found {
				good = false
				break
			}
			if _, reach := pathAvoiding(g, &core.Point{B: body, I: -1}, []core.Point{p}, writes); reach {
				good = false
			}
		}
		returned := false
		for _, e := range g.Exits() {
			if e.Kind == "return" && e.Ret.Pos() > rs.End() && len(e.Ret.Results) > 0 && identObj(info, e.Ret.Results[len(e.Ret.Results)-1]) == v {
				returned = true
			}
		}
		if good && returned {
			out = append(out, is)
		}
	}
	return out
}

// identNode returns the defining identifier of a local object (for span tests).
func identNode(f *core.Func, o types.Object) ast.Node {
	var res ast.Node
	ast.Inspect(f.Decl.Body, func(n ast.Node) bool {
		if id, ok := n.(*ast.Ident); ok && f.Info().Defs[id] == o {
			res = id
		}
		return res == nil
	})
	if res == nil {
		return f.Decl.Name
	}
	return res
}

// directEnumeration handles a formatter call inside `for … := range X` where
// X is (an alias of) some metric's LabelValues slice: the elements of that
// slice are shared with RemoveDatum, which shifts them in place, so the whole
// loop must run under that metric's lock.  It reports whether the call was of
// this family (and has been judged).
func (t *c22T) directEnumeration(f *core.Func, call *ast.CallExpr) bool {
	c := t.c
	var rs *ast.RangeStmt
	ast.Inspect(f.Body, func(n ast.Node) bool {
		if r, ok := n.(*ast.RangeStmt); ok && c22InSpan(call, r.Body) {
			rs = r
		}
		return true
	})
	if rs == nil {
		return false
	}
	ls := t.leaves(f, rs.X, map[types.Object]bool{})
	if len(ls) != 1 {
		return false
	}
	sel, ok := core.Unparen(ls[0].e).(*ast.SelectorExpr)
	if !ok || ls[0].f.Info().Uses[sel.Sel] != types.Object(t.fLabelValues) || ls[0].f != f {
		return false
	}
	g := f.Graph()
	path := core.PathOf(sel.X)
	key := f.Key + "|enumeration of " + path + ".LabelValues"
	pt, found := g.PointOf(call)
	if !found {
		c.Undecided("C22-R2", key, pos(c, call), "formatter call not found in the control-flow graph")
		return true
	}
	held := core.Holds(g.MustHold().At(pt), path, "R")
	released := false
	for _, ev := range g.LockEvents() {
		if !ev.Acquire && ev.Path == path && c22InSpan(ev.Call, rs.Body) {
			released = true
		}
	}
	if !held || released {
		c.Fail("C22-R2", key, pos(c, rs), "the label values are enumerated through "+exprStr(rs.X)+", which shares its backing array with "+path+".LabelValues, while "+path+"'s lock is not held: a concurrent RemoveDatum (expiry, del, limit GC) shifts the elements under the iterator, so one label set is skipped and the last one is reported twice; the output matches the store neither before nor after the removal")
		return true
	}
	c.Undecided("C22-R2", key, pos(c, rs), "label values are enumerated directly under the metric's lock: the record-per-iteration clauses are only implemented for the emitter-channel shape")
	return true
}

type c22Loop struct {
	f          *core.Func
	rs         *ast.RangeStmt
	perRecord  bool // every record is written to the sink by its own write call
	batched    bool // records are accumulated and written after the loop
	dynamic    bool // the formatter is a function value
	direct     []*core.Func
	sinkStream bool
}

func (t *c22T) ruleRecords(fms []*c22FmtFn) []c22Loop {
	c := t.c
	c.Rule("C22-R2", "ONE-RECORD-PER-LABEL-SET: in every function that drains `go m.EmitLabelSets(ch)` and calls a formatter, each iteration of `for l := range ch` calls the formatter exactly once with that metric and that l (an iteration may skip only after a failed write latched in an error that the function returns), the result is written to the output exactly once in the same iteration and nothing else is written there, and the metric's read lock is held from the spawn to every formatter call and write with no release inside the loop")
	var loops []c22Loop
	for _, s := range emitterSpawns(c) {
		f := s.f
		g := f.Graph()
		info := f.Info()
		// formatter calls in this function
		var fcalls []core.Hit
		for _, h := range g.Find(func(n ast.Node) bool {
			call, ok := n.(*ast.CallExpr)
			if !ok {
				return false
			}
			_, _, isF := t.formatterCall(f, call)
			return isF
		}) {
			fcalls = append(fcalls, h)
		}
		if len(fcalls) == 0 {
			continue // e.g. the prometheus collector: not a text export of C22
		}
		c.Analysed(f)
		base := f.Key
		if len(s.call.Args) != 1 || identObj(info, s.call.Args[0]) == nil {
			c.Undecided("C22-R2", base+"|emitter channel", pos(c, s.call), "channel argument is not a local identifier")
			continue
		}
		ch := identObj(info, s.call.Args[0])
		rloops := rangeOver(f, ch)
		if len(rloops) != 1 {
			c.Undecided("C22-R2", base+"|consumer", pos(c, s.call), fmt.Sprintf("expected exactly one `range` consumer of the emitter channel, found %d", len(rloops)))
			continue
		}
		rs := rloops[0]
		lvar := identObj(info, rs.Key)
		recv := core.RecvExpr(s.call)
		mobj := identObj(info, recv)
		head, body, _ := loopBlocks(g, rs)
		if lvar == nil || mobj == nil || head == nil || body == nil {
			c.Undecided("C22-R2", base+"|loop", pos(c, rs), "loop variable, metric identifier or loop blocks not found")
			continue
		}
		lp := c22Loop{f: f, rs: rs}
		bodyStart := &core.Point{B: body, I: -1}
		toHead := func(p core.Point) bool { return p.B == head }
		var inLoop []core.Hit
		for _, h := range fcalls {
			if c22InSpan(h.N, rs.Body) {
				inLoop = append(inLoop, h)
			} else {
				c.Fail("C22-R2", base+"|formatter outside the loop", pos(c, h.N), "a per-label-set formatter is called outside the loop that receives the label sets: its record is not the record of a received label set")
			}
		}
		if len(inLoop) == 0 {
			c.Fail("C22-R2", base+"|formatter per iteration", pos(c, rs), "the loop that receives the label sets never formats them")
			continue
		}
		// arguments
		var resObjs []types.Object
		var direct []ast.Node
		for i, h := range inLoop {
			call := h.N.(*ast.CallExpr)
			mi, li, _ := t.formatterCall(f, call)
			okArgs := identObj(info, call.Args[mi]) == mobj && identObj(info, call.Args[li]) == lvar
			c.Verdict(okArgs, "C22-R2", fmt.Sprintf("%s|formatter#%d arguments", base, i+1), pos(c, call),
				"formats the received label set of the emitting metric",
				fmt.Sprintf("the formatter is not called with the metric whose label sets are being received (%s) and the label set just received (%s): the record written for this label set carries another one's data", mobj.Name(), lvar.Name()))
			if tp := info.TypeOf(call); tp == nil || !types.Identical(tp.Underlying(), types.Typ[types.String]) {
				c.Undecided("C22-R2", fmt.Sprintf("%s|formatter#%d result", base, i+1), pos(c, call), "the per-label-set function does not return the record as a string (it may write it itself): shape outside the recognised family")
			}
			if cf := f.CalleeFunc(call); cf != nil {
				lp.direct = append(lp.direct, cf)
			} else {
				lp.dynamic = true
			}
			if as := assignOf(f, call); as != nil && len(as.Lhs) == 1 {
				if o := identObj(info, as.Lhs[0]); o != nil {
					resObjs = append(resObjs, o)
				}
			} else {
				direct = append(direct, call)
			}
		}
		// per-iteration count
		fpts := core.HitPoints(inLoop)
		cnt, okc := iterationCount(g, rs, fpts)
		key := base + "|formatter per iteration"
		switch {
		case !okc:
			c.Undecided("C22-R2", key, pos(c, rs), "iteration count not computable")
		case cnt.Min == 1 && cnt.Max == 1:
			c.Ok("C22-R2", key, pos(c, rs), "exactly one formatter call per received label set")
		case cnt.Max > 1:
			c.Fail("C22-R2", key, pos(c, rs), "a received label set is formatted "+cnt.String()+" times: more than one record per label set")
		default:
			// writes are needed to recognise the latch; computed below
		}
		// writes
		uses := func(e ast.Node) bool {
			for _, o := range resObjs {
				if exprUses(info, e, o) {
					return true
				}
			}
			for _, d := range direct {
				if c22InSpan(d, e) {
					return true
				}
			}
			return false
		}
		var sinkW, bufW, otherW []core.Hit
		var bufObjs []types.Object
		for _, h := range g.Calls(func(id string, call *ast.CallExpr) bool {
			_, _, ok := c22WriteDest(f, call)
			return ok && c22InSpan(call, rs.Body)
		}) {
			call := h.N.(*ast.CallExpr)
			dst, payload, _ := c22WriteDest(f, call)
			carries := false
			for _, p := range payload {
				if uses(p) {
					carries = true
				}
			}
			switch {
			case carries && c22IsSink(f, dst):
				sinkW = append(sinkW, h)
				if tp := info.TypeOf(dst); tp != nil {
					lp.sinkStream = strings.HasSuffix(tp.String(), "net/http.ResponseWriter")
				}
			case carries:
				bufW = append(bufW, h)
				if o := identObj(info, dst); o != nil {
					bufObjs = append(bufObjs, o)
				} else if u, ok := core.Unparen(dst).(*ast.UnaryExpr); ok {
					if o := identObj(info, u.X); o != nil {
						bufObjs = append(bufObjs, o)
					}
				}
			case c22IsSink(f, dst):
				otherW = append(otherW, h)
			}
		}
		for i, h := range otherW {
			c.Fail("C22-R2", fmt.Sprintf("%s|extra write#%d", base, i+1), pos(c, h.N), "something other than the formatter's record is written to the output inside the per-label-set loop: the output has text that is not one record per label set")
		}
		wpts := core.HitPoints(sinkW)
		if okc && cnt.Min == 0 && cnt.Max == 1 {
			latches := t.errLatches(f, g, rs, wpts)
			avoidEdge := func(b *cfg.Block, si int) bool {
				for _, is := range latches {
					if cb := g.CondBlock(is); cb == b && si == 0 {
						return true
					}
				}
				return false
			}
			tr, found := g.Search(core.Query{From: bodyStart, Goal: toHead, Avoid: core.At(fpts...), AvoidEdge: avoidEdge})
			if found {
				c.Fail("C22-R2", key, pos(c, rs), "an iteration can end without formatting the received label set (and not because an earlier write failed): that label set has no record in the output", g.Trail(tr)...)
			} else {
				c.Ok("C22-R2", key, pos(c, rs), fmt.Sprintf("exactly one formatter call per received label set; skipped only after a failed write latched in the returned error (%d latch)", len(latches)))
			}
		}
		key = base + "|record written once"
		switch {
		case len(sinkW) > 0:
			bad := false
			for _, h := range inLoop {
				from := h.P
				if tr, found := g.Search(core.Query{From: &from, Goal: toHead, Avoid: core.At(wpts...)}); found {
					bad = true
					c.Fail("C22-R2", key, pos(c, h.N), "a formatted record can reach the end of the iteration without being written: that label set is missing from the output", g.Trail(tr)...)
				}
			}
			for _, h := range sinkW {
				from := h.P
				if tr, found := g.Search(core.Query{From: &from, Goal: core.At(wpts...), Avoid: toHead}); found {
					bad = true
					c.Fail("C22-R2", key, pos(c, h.N), "a record can be written twice in one iteration: two records for one label set", g.Trail(tr)...)
				}
			}
			if tr, found := g.Search(core.Query{From: bodyStart, Goal: core.At(wpts...), Avoid: core.Or(core.At(fpts...), toHead)}); found {
				bad = true
				c.Fail("C22-R2", key, pos(c, sinkW[0].N), "the write can be reached in an iteration that did not format the received label set: a stale record is written for it", g.Trail(tr)...)
			}
			if !bad {
				lp.perRecord = true
				c.Ok("C22-R2", key, pos(c, sinkW[0].N), "each record is written by its own write call in the iteration that formatted it")
			}
		case len(bufW) > 0:
			// accumulated: the buffer must reach the sink after the loop; framing decides (R8)
			after := g.Calls(func(id string, call *ast.CallExpr) bool {
				dst, payload, ok := c22WriteDest(f, call)
				if !ok || call.Pos() < rs.End() || !c22IsSink(f, dst) {
					return false
				}
				for _, p := range payload {
					for _, o := range bufObjs {
						if exprUses(info, p, o) {
							return true
						}
					}
				}
				return false
			})
			if len(after) == 0 {
				c.Fail("C22-R2", key, pos(c, bufW[0].N), "the records are collected in a buffer that is never written to the output")
			} else {
				lp.batched = true
				c.Ok("C22-R2", key, pos(c, bufW[0].N), "records are accumulated per iteration and written after the loop (framing decided by C22-R8)")
			}
		default:
			c.Fail("C22-R2", key, pos(c, inLoop[0].N), "the formatted record is never written to the output")
		}
		// lock
		path := core.PathOf(recv)
		held := g.MustHold()
		pts := []struct {
			what string
			h    core.Hit
		}{{"spawn", s.hit}}
		for _, h := range inLoop {
			pts = append(pts, struct {
				what string
				h    core.Hit
			}{"formatter call", h})
		}
		for _, h := range sinkW {
			pts = append(pts, struct {
				what string
				h    core.Hit
			}{"write", h})
		}
		var unlocked []string
		for _, p := range pts {
			if !core.Holds(held.At(p.h.P), path, "R") {
				unlocked = append(unlocked, p.what+" at "+pos(c, p.h.N))
			}
		}
		for _, ev := range g.LockEvents() {
			if !ev.Acquire && ev.Path == path && c22InSpan(ev.Call, rs.Body) {
				unlocked = append(unlocked, "release inside the loop at "+pos(c, ev.Call))
			}
		}
		c.Verdict(len(unlocked) == 0, "C22-R2", base+"|metric lock spans the enumeration", pos(c, rs),
			"read lock of "+path+" held at the spawn, every formatter call and every write; not released inside the loop",
			"the metric's lock is not held over the whole enumeration ("+strings.Join(unlocked, "; ")+"): a concurrent RemoveDatum (expiry, del, limit GC) shifts the label values under the iterator, so one label set is skipped and another reported twice; the output matches the store neither before nor after")
		loops = append(loops, lp)
	}
	// formatter calls anywhere else in shipped code
	for _, f := range shipped(c) {
		isConsumer := false
		for _, lp := range loops {
			if lp.f == f {
				isConsumer = true
			}
		}
		if isConsumer {
			continue
		}
		ast.Inspect(f.Body, func(n ast.Node) bool {
			if lit, ok := n.(*ast.FuncLit); ok && lit != f.Lit {
				return false
			}
			if call, ok := n.(*ast.CallExpr); ok {
				if _, _, isF := t.formatterCall(f, call); isF {
					if t.roots[f] {
						return true // a formatter delegating to another one with its own parameters: judged by R1
					}
					if t.directEnumeration(f, call) {
						return true
					}
					c.Undecided("C22-R2", f.Key+"|formatter call outside an emitter loop", pos(c, call), "a per-label-set formatter is called by code that does not drain an EmitLabelSets channel: shape outside the recognised family")
				}
			}
			return true
		})
	}
	c.Floor("C22-R2", 12)
	return loops
}

// ---------------------------------------------------------------------------
// R7: record layout; R6: kind tables; R8: framing and transport

// c22ParseFormat splits a printf format into literal pieces and verbs:
// lits[0] verb[0] lits[1] ... verb[n-1] lits[n].
func c22ParseFormat(s string) (lits, verbs []string) {
	var cur strings.Builder
	for i := 0; i < len(s); i++ {
		if s[i] != '%' {
			cur.WriteByte(s[i])
			continue
		}
		if i+1 < len(s) && s[i+1] == '%' {
			cur.WriteByte('%')
			i++
			continue
		}
		j := i + 1
		for j < len(s) && strings.IndexByte("+-# 0123456789.[]*", s[j]) >= 0 {
			j++
		}
		if j >= len(s) {
			cur.WriteString(s[i:])
			break
		}
		lits = append(lits, cur.String())
		cur.Reset()
		verbs = append(verbs, s[i:j+1])
		i = j
	}
	lits = append(lits, cur.String())
	return
}

type c22Print struct {
	f        *core.Func // function containing the call (the formatter or one of its helpers)
	call     *ast.CallExpr
	format   string
	constFmt bool
	args     []ast.Expr
	roles    []string
	lits     []string
	verbs    []string
}

// resolve1 follows a local that has exactly one definition.
func c22Resolve1(f *core.Func, e ast.Expr) ast.Expr {
	for i := 0; i < 5; i++ {
		id, ok := core.Unparen(e).(*ast.Ident)
		if !ok {
			return core.Unparen(e)
		}
		v, ok := c22Obj(f.Info(), id).(*types.Var)
		if !ok || v.IsField() {
			return id
		}
		if pf, _ := c22ParamOwner(f, v); pf != nil {
			return id
		}
		defs, rng, zero := c22Defs(f, v)
		if rng != nil || zero || len(defs) != 1 {
			return id
		}
		e = defs[0]
	}
	return core.Unparen(e)
}

func (t *c22T) role(f *core.Func, a ast.Expr) string {
	info := f.Info()
	isMetricParam := func(e ast.Expr) bool {
		o := identObj(info, e)
		if o == nil || !c22PtrTo(o.Type(), t.metric) {
			return false
		}
		pf, _ := c22ParamOwner(f, o)
		return pf != nil
	}
	e := c22Resolve1(f, a)
	switch x := e.(type) {
	case *ast.CallExpr:
		if cf := f.CalleeFunc(x); cf != nil && cf.Key == c22FormatLabels {
			return "labels"
		}
		if sel, ok := core.Unparen(x.Fun).(*ast.SelectorExpr); ok {
			if _, isM := info.Uses[sel.Sel].(*types.Func); isM && t.isDatum(info.TypeOf(sel.X)) {
				own, _ := t.derived(f, sel.X, t.fLSDatum)
				r := map[string]string{"ValueString": "value", "TimeString": "time", "GetCount": "count"}[sel.Sel.Name]
				if r != "" {
					if !own {
						return "foreign-" + r
					}
					return r
				}
			}
		}
		if f.CalleeID(x) == "internal/metrics/datum.GetBucketsCount" && len(x.Args) == 1 {
			if own, _ := t.derived(f, x.Args[0], t.fLSDatum); own {
				return "count"
			}
			return "foreign-count"
		}
	case *ast.Ident:
		o := c22Obj(info, x)
		if v, ok := o.(*types.Var); ok {
			if _, rng, _ := c22Defs(f, v); rng != nil && rng.Value != nil && identObj(info, rng.Value) == o {
				if call, ok := core.Unparen(rng.X).(*ast.CallExpr); ok && f.CalleeID(call) == "internal/metrics/datum.(*Buckets).GetBuckets" {
					if own, _ := t.derived(f, core.RecvExpr(call), t.fLSDatum); own {
						return "bin"
					}
					return "foreign-bin"
				}
			}
			if pf, _ := c22ParamOwner(f, v); pf != nil {
				if b, ok := v.Type().Underlying().(*types.Basic); ok && b.Kind() == types.String {
					return "host"
				}
			}
		}
	case *ast.SelectorExpr:
		if isMetricParam(x.X) {
			switch info.Uses[x.Sel] {
			case types.Object(t.fProgram):
				return "program"
			case types.Object(t.fName):
				return "name"
			case types.Object(t.fKind):
				return "kind"
			}
		}
	case *ast.StarExpr:
		if v, ok := identObj(info, x.X).(*types.Var); ok && v.Pkg() != nil && v.Parent() == v.Pkg().Scope() {
			return "prefix"
		}
	}
	// an expression of the time.Duration parameter
	for _, o := range c22Params(f) {
		if o != nil && o.Type().String() == "time.Duration" && exprUses(info, e, o) {
			return "interval"
		}
	}
	return "other"
}

func (t *c22T) prints(fm *c22FmtFn) []*c22Print {
	var out []*c22Print
	for _, f := range t.helperClosure(fm.f) {
		f := f
		ast.Inspect(f.Decl.Body, func(n ast.Node) bool {
			call, ok := n.(*ast.CallExpr)
			if !ok {
				return true
			}
			var fa ast.Expr
			var rest []ast.Expr
			switch f.CalleeID(call) {
			case "fmt.Sprintf":
				if len(call.Args) < 1 {
					return true
				}
				fa, rest = call.Args[0], call.Args[1:]
			case "fmt.Fprintf":
				if len(call.Args) < 2 {
					return true
				}
				fa, rest = call.Args[1], call.Args[2:]
			default:
				return true
			}
			p := &c22Print{f: f, call: call, args: rest}
			if tv, has := f.Info().Types[fa]; has && tv.Value != nil && tv.Value.Kind() == constant.String {
				p.format = constant.StringVal(tv.Value)
				p.constFmt = true
				p.lits, p.verbs = c22ParseFormat(p.format)
			}
			for _, a := range rest {
				p.roles = append(p.roles, t.role(f, a))
			}
			out = append(out, p)
			return true
		})
	}
	return out
}

type c22Line struct {
	name  string // also the discriminating role
	disc  string
	lits  []string
	roles []string
}

// The record layouts of the four text formats: graphite plaintext protocol
// "<path> <value> <timestamp>\n" (mtail's histogram convention: one .bin_<max>
// line per bucket, a .count line, then the value line), statsd
// "<bucket>:<value>|<type>", collectd PUTVAL "<host>/<plugin>/<type>-<inst>"
// interval=<s> <time>:<value>, varz "name{labels} value".
var c22Specs = map[string][]c22Line{
	c22Graphite: {
		{"value line", "value", []string{"", "", ".", " ", " ", "\n"}, []string{"prefix", "program", "labels", "value", "time"}},
		{"count line", "count", []string{"", "", ".", ".count ", " ", "\n"}, []string{"prefix", "program", "labels", "count", "time"}},
		{"bucket line", "bin", []string{"", "", ".", ".bin_", " ", " ", "\n"}, []string{"prefix", "program", "labels", "any", "bin", "time"}},
	},
	c22Statsd:   {{"record", "value", []string{"", "", ".", ":", "|", ""}, []string{"prefix", "program", "labels", "value", "kind"}}},
	c22Collectd: {{"record", "value", []string{"PUTVAL \"", "/", "mtail-", "/", "-", "\" interval=", " ", ":", "\n"}, []string{"host", "prefix", "program", "kind", "labels", "interval", "time", "value"}}},
	c22Varz:     {{"record", "value", []string{"", "{", "} ", "\n"}, []string{"name", "any", "value"}}},
}

func c22HasRole(p *c22Print, r string) bool {
	for _, x := range p.roles {
		if x == r || x == "foreign-"+r {
			return true
		}
	}
	return false
}

func (t *c22T) ruleLayout(fms []*c22FmtFn) map[*core.Func][]*c22Print {
	c := t.c
	c.Rule("C22-R7", "LAYOUT: each formatter builds its record with printf calls of constant format whose literal pieces and argument roles (prefix flag, m.Program, formatLabels(...), the label set's ValueString/TimeString/GetCount/bucket count, kind code) agree position by position with the record layout of its protocol; every layout line is produced by exactly one print call, the value line on every path to the return, the bucket line exactly once per bucket of the label set's own histogram, the count line whenever the bucket loop has run")
	all := map[*core.Func][]*c22Print{}
	for _, key := range []string{c22Graphite, c22Statsd, c22Collectd, c22Varz} {
		c.MustFn("C22-R7", key)
	}
	for _, fm := range fms {
		f := fm.f
		ps := t.prints(fm)
		all[f] = ps
		spec, known := c22Specs[f.Key]
		if !known {
			spec = []c22Line{{"record", "value", nil, nil}}
			c.Note("C22-R7", f.Key+"|layout", pos(c, f.Decl), "no protocol layout is known for this formatter: only the presence of the label set's value on every path is decided")
		}
		used := map[*c22Print]bool{}
		for _, ln := range spec {
			key := f.Key + "|" + ln.name
			var cand []*c22Print
			for _, p := range ps {
				if c22HasRole(p, ln.disc) {
					cand = append(cand, p)
				}
			}
			if len(cand) != 1 {
				c.Fail("C22-R7", key, pos(c, f.Decl), fmt.Sprintf("%d print calls produce the %s of a label set (an argument that is the label set's %s); the format wants exactly one per label set", len(cand), ln.name, ln.disc))
				continue
			}
			p := cand[0]
			used[p] = true
			if !p.constFmt {
				c.Undecided("C22-R7", key, pos(c, p.call), "format string is not a constant")
				continue
			}
			var diffs []string   // positively wrong
			var unknown []string // name part built in an unrecognised way
			if ln.lits != nil {
				full := reflect.DeepEqual(p.lits, ln.lits) && len(p.roles) == len(ln.roles) && len(p.verbs) == len(p.roles)
				if full {
					for i, want := range ln.roles {
						if !c22RoleOK(want, p.roles[i]) {
							full = false
						}
					}
				}
				if !full {
					// the data tail: the maximal suffix of data fields of the layout
					k := 0
					for k < len(ln.roles) && c22DataRole(ln.roles[len(ln.roles)-1-k]) {
						k++
					}
					tailOK := len(p.roles) >= k && len(p.verbs) == len(p.roles)
					if tailOK {
						for i := 0; i < k; i++ {
							want, got := ln.roles[len(ln.roles)-1-i], p.roles[len(p.roles)-1-i]
							if !c22RoleOK(want, got) {
								tailOK = false
								diffs = append(diffs, fmt.Sprintf("field %d from the end is %s (%s) where the layout has %s", i+1, got, exprStr(p.args[len(p.args)-1-i]), want))
							}
							if p.lits[len(p.lits)-1-i] != ln.lits[len(ln.lits)-1-i] {
								tailOK = false
								diffs = append(diffs, fmt.Sprintf("literal %q after that field where the layout has %q", p.lits[len(p.lits)-1-i], ln.lits[len(ln.lits)-1-i]))
							}
						}
						sepWant := ln.lits[len(ln.lits)-1-k]
						sepGot := p.lits[len(p.lits)-1-k]
						if sepWant != "" && !strings.HasSuffix(sepGot, sepWant[len(sepWant)-1:]) {
							tailOK = false
							diffs = append(diffs, fmt.Sprintf("the data fields are introduced by %q where the layout has %q", sepGot, sepWant))
						}
					} else {
						diffs = append(diffs, fmt.Sprintf("%d verbs, %d arguments, layout has %d fields", len(p.verbs), len(p.roles), len(ln.roles)))
					}
					if tailOK {
						// the head differs: positively wrong only if every head argument is recognised
						recognised := true
						for _, r := range p.roles[:len(p.roles)-k] {
							if r == "other" {
								recognised = false
							}
						}
						msg := fmt.Sprintf("format %q with fields %v against layout %q with fields %v", p.format, p.roles, strings.Join(ln.lits, "%"), ln.roles)
						if recognised {
							diffs = append(diffs, "the name part of the record differs from the protocol layout: "+msg)
						} else {
							unknown = append(unknown, msg)
						}
					}
				}
			}
			for i, r := range p.roles {
				if strings.HasPrefix(r, "foreign-") {
					diffs = append(diffs, fmt.Sprintf("field %d (%s) is read from a datum that is not the label set's own", i+1, exprStr(p.args[i])))
				}
			}
			// placement
			pf := p.f
			g := pf.Graph()
			pt, found := g.PointOf(p.call)
			if !found {
				c.Undecided("C22-R7", key, pos(c, p.call), "print call not found in the control-flow graph (inside a literal?)")
				continue
			}
			var trail []string
			switch ln.disc {
			case "value":
				if pf != f {
					unknown = append(unknown, "the value line is produced in helper "+pf.Key+": its presence on every path of the formatter is not decided")
				} else if tr, reach := pathAvoiding(g, nil, core.ExitPoints(normalExits(g)), []core.Point{pt}); reach {
					diffs = append(diffs, "a path returns without producing it")
					trail = tr
				}
				if lp := c22EnclosingLoop(pf, p.call); lp != nil {
					diffs = append(diffs, "it is produced inside a loop: several value records for one label set")
				}
			case "bin":
				lp := c22EnclosingLoop(pf, p.call)
				if lp == nil {
					diffs = append(diffs, "not inside the loop over the buckets")
				} else if cnt, ok := iterationCount(g, lp, []core.Point{pt}); !ok || cnt.Min != 1 || cnt.Max != 1 {
					diffs = append(diffs, "produced "+cnt.String()+" times per bucket")
				} else if early := earlyLoopExits(c, g, lp); len(early) > 0 {
					diffs = append(diffs, "the bucket loop can stop early: "+early[0])
				}
			case "count":
				// whenever the bucket loop ran, the count line follows
				for _, q := range ps {
					if !c22HasRole(q, "bin") || q.f != pf {
						continue
					}
					if lp := c22EnclosingLoop(pf, q.call); lp != nil {
						if _, _, done := loopBlocks(g, lp); done != nil {
							if tr, reach := pathAvoiding(g, &core.Point{B: done, I: -1}, core.ExitPoints(normalExits(g)), []core.Point{pt}); reach {
								diffs = append(diffs, "the bucket lines can be followed by a return without the count line")
								trail = tr
							}
						}
					}
				}
				if lp := c22EnclosingLoop(pf, p.call); lp != nil {
					diffs = append(diffs, "it is produced inside a loop")
				}
			}
			switch {
			case len(diffs) > 0:
				c.Fail("C22-R7", key, pos(c, p.call), "the "+ln.name+" is not well-formed for its protocol or does not carry the label set's own data: "+strings.Join(diffs, "; "), trail...)
			case len(unknown) > 0:
				c.Undecided("C22-R7", key, pos(c, p.call), "the data fields agree with the protocol layout, but: "+strings.Join(unknown, "; "))
			default:
				c.Ok("C22-R7", key, pos(c, p.call), fmt.Sprintf("format %q, fields %s", p.format, strings.Join(p.roles, ",")))
			}
		}
		// prints that carry label-set data but belong to no layout line
		for _, p := range ps {
			if used[p] {
				continue
			}
			for _, r := range p.roles {
				if r == "value" || r == "time" || r == "count" || r == "bin" || strings.HasPrefix(r, "foreign-") {
					c.Fail("C22-R7", f.Key+"|extra line", pos(c, p.call), "a print call with the label set's "+r+" that is none of the protocol's lines: the output has an extra or duplicated record for the label set")
					break
				}
			}
		}
	}
	c.Floor("C22-R7", 6)
	return all
}

func c22DataRole(r string) bool {
	return r == "value" || r == "time" || r == "count" || r == "bin" || r == "kind"
}

// c22RoleOK: does an argument of role got fit the layout field want?  A
// foreign datum is reported separately.
func c22RoleOK(want, got string) bool {
	return want == "any" || (want == "kind" && got != "value" && got != "time") || got == want || got == "foreign-"+want
}

// c22EnclosingLoop returns the innermost for/range statement of f around n.
func c22EnclosingLoop(f *core.Func, n ast.Node) ast.Stmt {
	var res ast.Stmt
	ast.Inspect(f.Decl.Body, func(x ast.Node) bool {
		switch s := x.(type) {
		case *ast.RangeStmt:
			if c22InSpan(n, s.Body) {
				res = s
			}
		case *ast.ForStmt:
			if c22InSpan(n, s.Body) {
				res = s
			}
		}
		return true
	})
	return res
}

// ---------------------------------------------------------------------------
// R6: kind tables, by abstract evaluation of the formatter for each Kind

// c22Interp evaluates string-valued code for one fixed value of the metric's Kind.
type c22Interp struct {
	t     *c22T
	kind  int64
	depth int
}

type c22Env struct {
	str     map[types.Object]string // known string values of locals
	unknown map[types.Object]bool
	kinds   map[types.Object]bool // objects that hold the Kind
	metric  types.Object          // object whose .Kind is the Kind (may be nil)
}

func (it *c22Interp) isKind(f *core.Func, env *c22Env, e ast.Expr) bool {
	e = c22Resolve1(f, e)
	switch x := e.(type) {
	case *ast.Ident:
		return env.kinds[c22Obj(f.Info(), x)]
	case *ast.SelectorExpr:
		return env.metric != nil && identObj(f.Info(), x.X) == env.metric && f.Info().Uses[x.Sel] == types.Object(it.t.fKind)
	}
	return false
}

func (it *c22Interp) evalCond(f *core.Func, env *c22Env, e ast.Expr) (val, ok bool) {
	info := f.Info()
	if v, isC := constBool(info, e); isC {
		return v, true
	}
	switch x := core.Unparen(e).(type) {
	case *ast.UnaryExpr:
		if x.Op == token.NOT {
			v, ok := it.evalCond(f, env, x.X)
			return !v, ok
		}
	case *ast.BinaryExpr:
		switch x.Op {
		case token.LAND, token.LOR:
			a, oka := it.evalCond(f, env, x.X)
			b, okb := it.evalCond(f, env, x.Y)
			if x.Op == token.LAND {
				if (oka && !a) || (okb && !b) {
					return false, true
				}
				return a && b, oka && okb
			}
			if (oka && a) || (okb && b) {
				return true, true
			}
			return a || b, oka && okb
		case token.EQL, token.NEQ:
			for _, pr := range [][2]ast.Expr{{x.X, x.Y}, {x.Y, x.X}} {
				if !it.isKind(f, env, pr[0]) {
					continue
				}
				if k, isC := constInt(info, pr[1]); isC {
					return (k == it.kind) == (x.Op == token.EQL), true
				}
			}
		}
	}
	return false, false
}

func (it *c22Interp) evalStr(f *core.Func, env *c22Env, e ast.Expr) (string, bool) {
	info := f.Info()
	e = core.Unparen(e)
	if tv, has := info.Types[e]; has && tv.Value != nil && tv.Value.Kind() == constant.String {
		return constant.StringVal(tv.Value), true
	}
	switch x := e.(type) {
	case *ast.Ident:
		o := c22Obj(info, x)
		if env.unknown[o] {
			return "", false
		}
		v, ok := env.str[o]
		return v, ok
	case *ast.CallExpr:
		id := f.CalleeID(x)
		switch id {
		case "strings.ToLower", "strings.ToUpper":
			if len(x.Args) == 1 {
				v, ok := it.evalStr(f, env, x.Args[0])
				if id == "strings.ToLower" {
					return strings.ToLower(v), ok
				}
				return strings.ToUpper(v), ok
			}
		}
		cf := f.CalleeFunc(x)
		if cf == nil || cf.Lit != nil || it.depth > 4 {
			return "", false
		}
		nenv := &c22Env{str: map[types.Object]string{}, unknown: map[types.Object]bool{}, kinds: map[types.Object]bool{}}
		for i, po := range c22Params(cf) {
			if po == nil || i >= len(x.Args) {
				continue
			}
			if it.isKind(f, env, x.Args[i]) {
				nenv.kinds[po] = true
			} else if env.metric != nil && identObj(info, x.Args[i]) == env.metric {
				nenv.metric = po
			} else if v, ok := it.evalStr(f, env, x.Args[i]); ok {
				nenv.str[po] = v
			}
		}
		if r := c22RecvObj(cf); r != nil {
			if recv := core.RecvExpr(x); recv != nil {
				if it.isKind(f, env, recv) {
					nenv.kinds[r] = true
				} else if env.metric != nil && identObj(info, recv) == env.metric {
					nenv.metric = r
				}
			}
		}
		it.depth++
		ret, ok := it.exec(cf, cf.Body.List, nenv)
		it.depth--
		if !ok || ret == nil || len(ret.Results) != 1 {
			return "", false
		}
		return it.evalStr(cf, nenv, ret.Results[0])
	}
	return "", false
}

// touches reports whether the statements contain a return or assign a tracked string local.
func c22Touches(f *core.Func, n ast.Node) bool {
	found := false
	ast.Inspect(n, func(x ast.Node) bool {
		switch s := x.(type) {
		case *ast.FuncLit:
			return false
		case *ast.ReturnStmt:
			found = true
		case *ast.AssignStmt:
			for _, l := range s.Lhs {
				if tp := f.Info().TypeOf(l); tp != nil {
					if b, ok := tp.Underlying().(*types.Basic); ok && b.Kind() == types.String {
						found = true
					}
				}
			}
		}
		return !found
	})
	return found
}

// exec runs statements; it returns the return statement reached (nil: fell
// through) and ok=false when the code is outside what it can decide.
func (it *c22Interp) exec(f *core.Func, stmts []ast.Stmt, env *c22Env) (*ast.ReturnStmt, bool) {
	info := f.Info()
	isStr := func(tp types.Type) bool {
		if tp == nil {
			return false
		}
		b, ok := tp.Underlying().(*types.Basic)
		return ok && b.Kind() == types.String
	}
	for _, st := range stmts {
		switch s := st.(type) {
		case *ast.ReturnStmt:
			return s, true
		case *ast.BlockStmt:
			if r, ok := it.exec(f, s.List, env); r != nil || !ok {
				return r, ok
			}
		case *ast.DeclStmt:
			gd, ok := s.Decl.(*ast.GenDecl)
			if !ok {
				continue
			}
			for _, sp := range gd.Specs {
				vs, ok := sp.(*ast.ValueSpec)
				if !ok {
					continue
				}
				for i, nm := range vs.Names {
					o := info.Defs[nm]
					if o == nil || !isStr(o.Type()) {
						continue
					}
					if len(vs.Values) == len(vs.Names) {
						if v, ok := it.evalStr(f, env, vs.Values[i]); ok {
							env.str[o] = v
						} else {
							env.unknown[o] = true
						}
					} else {
						env.str[o] = ""
					}
				}
			}
		case *ast.AssignStmt:
			if len(s.Lhs) != len(s.Rhs) {
				for _, l := range s.Lhs {
					if o := identObj(info, l); o != nil && isStr(o.Type()) {
						env.unknown[o] = true
					}
				}
				continue
			}
			for i, l := range s.Lhs {
				o := identObj(info, l)
				if o == nil {
					continue
				}
				if it.isKind(f, env, s.Rhs[i]) {
					env.kinds[o] = true
					continue
				}
				if !isStr(o.Type()) {
					continue
				}
				if v, ok := it.evalStr(f, env, s.Rhs[i]); ok && s.Tok != token.ADD_ASSIGN {
					env.str[o] = v
					delete(env.unknown, o)
				} else {
					env.unknown[o] = true
				}
			}
		case *ast.IfStmt:
			if s.Init != nil {
				if r, ok := it.exec(f, []ast.Stmt{s.Init}, env); r != nil || !ok {
					return r, ok
				}
			}
			v, known := it.evalCond(f, env, s.Cond)
			if !known {
				if c22Touches(f, s) {
					return nil, false
				}
				continue
			}
			if v {
				if r, ok := it.exec(f, s.Body.List, env); r != nil || !ok {
					return r, ok
				}
			} else if s.Else != nil {
				if r, ok := it.exec(f, []ast.Stmt{s.Else}, env); r != nil || !ok {
					return r, ok
				}
			}
		case *ast.SwitchStmt:
			if s.Init != nil {
				if r, ok := it.exec(f, []ast.Stmt{s.Init}, env); r != nil || !ok {
					return r, ok
				}
			}
			var chosen, deflt *ast.CaseClause
			decided := true
			for _, cs := range s.Body.List {
				cc := cs.(*ast.CaseClause)
				if cc.List == nil {
					deflt = cc
					continue
				}
				if chosen != nil {
					continue
				}
				for _, ce := range cc.List {
					var v, known bool
					if s.Tag == nil {
						v, known = it.evalCond(f, env, ce)
					} else if it.isKind(f, env, s.Tag) {
						if k, isC := constInt(info, ce); isC {
							v, known = k == it.kind, true
						}
					}
					if !known {
						decided = false
					} else if v && chosen == nil {
						chosen = cc
					}
				}
			}
			if !decided {
				if c22Touches(f, s) {
					return nil, false
				}
				continue
			}
			if chosen == nil {
				chosen = deflt
			}
			if chosen != nil {
				for _, b := range chosen.Body {
					if br, ok := b.(*ast.BranchStmt); ok && br.Tok == token.FALLTHROUGH {
						return nil, false
					}
				}
				if r, ok := it.exec(f, chosen.Body, env); r != nil || !ok {
					return r, ok
				}
			}
		case *ast.ExprStmt, *ast.EmptyStmt, *ast.IncDecStmt:
		default:
			if c22Touches(f, st) {
				return nil, false
			}
		}
	}
	return nil, true
}

// The type codes the protocols define for mtail's scalar kinds: statsd
// counter "c", gauge "g", timer "ms"; collectd's types.db has the data set
// types "counter" and "gauge" (a timer is stored as a gauge).
var c22KindCodes = map[string]map[string]string{
	c22Statsd:   {"Counter": "c", "Gauge": "g", "Timer": "ms"},
	c22Collectd: {"Counter": "counter", "Gauge": "gauge", "Timer": "gauge"},
}

func (t *c22T) ruleKinds(fms []*c22FmtFn, prints map[*core.Func][]*c22Print) {
	c := t.c
	c.Rule("C22-R6", "KIND-TABLES: for each of Counter, Gauge, Timer the type field of the statsd record evaluates (abstract execution of the formatter's switch/if on m.Kind, through helpers and Kind.String) to the protocol's code c/g/ms, and the type of the collectd identifier to counter/gauge/gauge")
	for _, fm := range fms {
		want, has := c22KindCodes[fm.f.Key]
		if !has {
			continue
		}
		spec := c22Specs[fm.f.Key][0]
		idx := -1
		for i, r := range spec.roles {
			if r == "kind" {
				idx = i
			}
		}
		var p *c22Print
		for _, q := range prints[fm.f] {
			if c22HasRole(q, "value") {
				p = q
			}
		}
		for _, kn := range []string{"Counter", "Gauge", "Timer"} {
			key := fm.f.Key + "|" + kn
			ko, _ := t.metricsPkg.Scope().Lookup(kn).(*types.Const)
			if ko == nil || p == nil || idx < 0 || idx >= len(p.args) {
				c.Undecided("C22-R6", key, pos(c, fm.f.Decl), "kind constant or the record's type field not found")
				continue
			}
			kv, _ := constant.Int64Val(ko.Val())
			it := &c22Interp{t: t, kind: kv}
			env := &c22Env{str: map[types.Object]string{}, unknown: map[types.Object]bool{}, kinds: map[types.Object]bool{}, metric: fm.m}
			ret, ok := it.exec(fm.f, fm.f.Body.List, env)
			if !ok || ret == nil || !c22InSpan(p.call, ret) {
				c.Undecided("C22-R6", key, pos(c, p.call), "the formatter's control flow on the kind is outside what the evaluator decides")
				continue
			}
			got, ok := it.evalStr(fm.f, env, p.args[idx])
			if !ok {
				c.Undecided("C22-R6", key, pos(c, p.args[idx]), "the type field ("+exprStr(p.args[idx])+") does not evaluate to a constant for this kind")
				continue
			}
			c.Verdict(got == want[kn], "C22-R6", key, pos(c, p.args[idx]), fmt.Sprintf("type field %q", got),
				fmt.Sprintf("a %s metric is sent with type field %q; the protocol's type for it is %q: the record is not well-formed (or is interpreted as another kind of metric) for every label set of every %s", kn, got, want[kn], kn))
		}
	}
	c.Floor("C22-R6", 6)
}

// ---------------------------------------------------------------------------
// R8: framing of records on the transport

// terminated decides whether every string the formatter returns ends in a newline.
func (t *c22T) terminated(fm *c22FmtFn) (state, detail string) {
	f := fm.f
	info := f.Info()
	constFmt := func(e ast.Expr) (string, bool) {
		if tv, has := info.Types[e]; has && tv.Value != nil && tv.Value.Kind() == constant.String {
			return constant.StringVal(tv.Value), true
		}
		return "", false
	}
	state = "yes"
	nret := 0
	ast.Inspect(f.Decl.Body, func(n ast.Node) bool {
		if _, ok := n.(*ast.FuncLit); ok {
			return false
		}
		ret, ok := n.(*ast.ReturnStmt)
		if !ok {
			return true
		}
		nret++
		if len(ret.Results) != 1 {
			state, detail = "unknown", "return without a single result"
			return true
		}
		call, ok := c22Resolve1(f, ret.Results[0]).(*ast.CallExpr)
		if !ok {
			if state == "yes" {
				state, detail = "unknown", "returned string is not built by a recognised call: "+exprStr(ret.Results[0])
			}
			return true
		}
		if f.CalleeID(call) == "fmt.Sprintf" && len(call.Args) > 0 {
			if fs, isC := constFmt(call.Args[0]); isC {
				if !strings.HasSuffix(fs, "\n") {
					state, detail = "no", fmt.Sprintf("format %q does not end in a newline", fs)
				}
				return true
			}
		}
		if sel, isSel := core.Unparen(call.Fun).(*ast.SelectorExpr); isSel && sel.Sel.Name == "String" {
			if b := identObj(info, sel.X); b != nil && core.HasSuffixAny(b.Type().String(), "strings.Builder", "bytes.Buffer") {
				nw := 0
				ast.Inspect(f.Decl.Body, func(x ast.Node) bool {
					wc, ok := x.(*ast.CallExpr)
					if !ok {
						return true
					}
					dst, payload, isW := c22WriteDest(f, wc)
					if !isW {
						return true
					}
					d := core.Unparen(dst)
					if u, ok := d.(*ast.UnaryExpr); ok {
						d = u.X
					}
					if identObj(info, d) != b {
						return true
					}
					nw++
					fs, isC := constFmt(payload[0])
					switch {
					case !isC:
						if state == "yes" {
							state, detail = "unknown", "a piece written to the builder is not a constant format"
						}
					case !strings.HasSuffix(fs, "\n"):
						state, detail = "no", fmt.Sprintf("piece %q does not end in a newline", fs)
					}
					return true
				})
				if nw == 0 && state == "yes" {
					state, detail = "unknown", "nothing is written to the returned builder"
				}
				return true
			}
		}
		if state == "yes" {
			state, detail = "unknown", "returned string is not built by Sprintf or a builder: "+exprStr(ret.Results[0])
		}
		return true
	})
	if nret == 0 {
		return "unknown", "no return statement"
	}
	return
}

var c22Nets = map[string]string{"tcp": "stream", "tcp4": "stream", "tcp6": "stream", "unix": "stream", "unixpacket": "stream",
	"udp": "datagram", "udp4": "datagram", "udp6": "datagram", "unixgram": "datagram"}

func (t *c22T) ruleFraming(fms []*c22FmtFn, loops []c22Loop) {
	c := t.c
	c.Rule("C22-R8", "FRAMING: a record is delimited on its transport: every formatter written to a byte stream (the HTTP handlers; push targets dialled with tcp/unix in the pushOptions table) returns only newline-terminated text, and a formatter whose record has no terminator (statsd) is registered only for a datagram network and reaches the socket one record per write call")
	byFn := map[*core.Func]*c22FmtFn{}
	for _, fm := range fms {
		byFn[fm.f] = fm
	}
	// the generic push loop(s)
	var dyn []c22Loop
	for _, lp := range loops {
		if lp.dynamic {
			dyn = append(dyn, lp)
		}
		for _, cf := range lp.direct {
			fm := byFn[cf]
			if fm == nil {
				continue
			}
			st, why := t.terminated(fm)
			key := lp.f.Key + "|stream of " + cf.Key
			switch st {
			case "yes":
				c.Ok("C22-R8", key, pos(c, lp.rs), "records end in a newline")
			case "no":
				c.Fail("C22-R8", key, pos(c, lp.rs), "records of "+cf.Key+" are written back to back into one byte stream but are not newline-terminated ("+why+"): the record of one label set runs into the next and neither is well-formed")
			default:
				c.Undecided("C22-R8", key, pos(c, lp.rs), why)
			}
		}
	}
	// pushOptions table
	po := c22Named(c, "internal/exporter", "pushOptions")
	if po == nil {
		c.Undecided("C22-R8", "pushOptions", "-", "type pushOptions not found")
		return
	}
	pst, _ := po.Underlying().(*types.Struct)
	fieldIdx := func(pred func(*types.Var) bool) int {
		for i := 0; pst != nil && i < pst.NumFields(); i++ {
			if pred(pst.Field(i)) {
				return i
			}
		}
		return -1
	}
	netIdx := fieldIdx(func(v *types.Var) bool { return v.Name() == "net" })
	fIdx := fieldIdx(func(v *types.Var) bool { _, ok := v.Type().Underlying().(*types.Signature); return ok })
	n := 0
	for _, f := range shipped(c) {
		if f.Lit != nil {
			continue
		}
		info := f.Info()
		ast.Inspect(f.Body, func(x ast.Node) bool {
			cl, ok := x.(*ast.CompositeLit)
			if !ok || !types.Identical(info.TypeOf(cl), po) {
				return true
			}
			n++
			c.Analysed(f)
			get := func(idx int) ast.Expr {
				if idx < 0 {
					return nil
				}
				for i, el := range cl.Elts {
					if kv, ok := el.(*ast.KeyValueExpr); ok {
						if id, ok := kv.Key.(*ast.Ident); ok && id.Name == pst.Field(idx).Name() {
							return kv.Value
						}
					} else if i == idx {
						return el
					}
				}
				return nil
			}
			ne, fe := get(netIdx), get(fIdx)
			var netName string
			if ne != nil {
				if tv, has := info.Types[ne]; has && tv.Value != nil && tv.Value.Kind() == constant.String {
					netName = constant.StringVal(tv.Value)
				}
			}
			var fm *c22FmtFn
			if fe != nil {
				if fo, ok := usedObj(info, fe).(*types.Func); ok {
					fm = byFn[c.Prog.ByObj[fo.Origin()]]
				}
			}
			if fm == nil || c22Nets[netName] == "" {
				c.Undecided("C22-R8", fmt.Sprintf("%s|push target#%d", f.Key, n), pos(c, cl), "network is not a known constant or the formatter is not a declared per-label-set formatter")
				return true
			}
			key := fmt.Sprintf("%s|push target %s over %s", f.Key, fm.f.Key, netName)
			st, why := t.terminated(fm)
			if len(dyn) == 0 {
				c.Undecided("C22-R8", key, pos(c, cl), "the loop that writes a formatter value's records was not found")
				return true
			}
			perRecord := true
			for _, lp := range dyn {
				perRecord = perRecord && lp.perRecord
			}
			switch {
			case st == "yes":
				c.Ok("C22-R8", key, pos(c, cl), "records end in a newline")
			case st == "unknown":
				c.Undecided("C22-R8", key, pos(c, cl), why)
			case c22Nets[netName] == "stream":
				c.Fail("C22-R8", key, pos(c, cl), "records of "+fm.f.Key+" are not newline-terminated ("+why+") but are pushed over the byte stream "+netName+": consecutive label sets' records run together and none is well-formed")
			case !perRecord:
				c.Fail("C22-R8", key, pos(c, cl), "records of "+fm.f.Key+" have no terminator ("+why+") and rely on one write call (one datagram) per record, but "+dyn[0].f.Key+" does not write each record by its own call: two label sets leave as one datagram like a:1|cb:2|c, which is not a record of either")
			default:
				c.Ok("C22-R8", key, pos(c, cl), "unterminated record ("+why+"), datagram network, one write call per record")
			}
			return true
		})
	}
	c.Floor("C22-R8", 5)
}

// ---------------------------------------------------------------------------
// R5: label flattening

// c22Flat peels strings.ReplaceAll(inner, old, new) layers: it returns the
// innermost operand and, for each layer, the (old, new) expressions.
func c22Flat(f *core.Func, e ast.Expr) (operand ast.Expr, layers [][2]ast.Expr) {
	for {
		e = c22Resolve1(f, e)
		call, ok := e.(*ast.CallExpr)
		if !ok || f.CalleeID(call) != "strings.ReplaceAll" || len(call.Args) != 3 {
			return e, layers
		}
		layers = append(layers, [2]ast.Expr{call.Args[1], call.Args[2]})
		e = call.Args[0]
	}
}

func c22ConstStr(info *types.Info, e ast.Expr) (string, bool) {
	if tv, has := info.Types[e]; has && tv.Value != nil && tv.Value.Kind() == constant.String {
		return constant.StringVal(tv.Value), true
	}
	return "", false
}

func (t *c22T) ruleLabels(fms []*c22FmtFn) {
	c := t.c
	c.Rule("C22-R5", "FLATTENING: every formatLabels call passes the metric's name, the Labels map of the label set parameter and constant separators with a non-empty replacement that contains no separator; every label map a formatter iterates is the label set's own and each label is appended exactly once; inside formatLabels every key and every value goes through ReplaceAll for each distinct separator before it is joined, each key of the map is emitted exactly once, and the pairs are joined with the separator")
	fl := c.MustFn("C22-R5", c22FormatLabels)
	if fl == nil {
		return
	}
	flp := c22Params(fl)
	if len(flp) != 5 || flp[1] == nil || !c22IsLabelMap(flp[1].Type()) || flp[2] == nil || flp[3] == nil || flp[4] == nil {
		c.Undecided("C22-R5", c22FormatLabels+"|signature", pos(c, fl.Decl), "formatLabels(name, labels, ksep, sep, rep) expected")
		return
	}
	mapP, ksepP, sepP, repP := flp[1], flp[2], flp[3], flp[4]
	// call sites
	sites := t.callSites(fl)
	type consts struct{ ksep, sep, rep string }
	var siteConsts []consts
	ord := map[string]int{}
	for _, s := range sites {
		f := s.f
		info := f.Info()
		c.Analysed(f)
		ord[f.Key]++
		key := fmt.Sprintf("%s|formatLabels#%d", f.Key, ord[f.Key])
		if len(s.call.Args) != 5 {
			c.Undecided("C22-R5", key, pos(c, s.call), "unexpected arity")
			continue
		}
		var diffs []string
		if own, bad := t.derived(f, s.call.Args[1], t.fLSLabels); !own {
			d := "labels argument " + exprStr(s.call.Args[1])
			for _, b := range bad {
				d += " <- " + exprStr(b.e)
			}
			diffs = append(diffs, d+" is not the Labels map of the label set being formatted: the record is named after other labels")
		}
		nm, isSel := c22Resolve1(f, s.call.Args[0]).(*ast.SelectorExpr)
		if !isSel || info.Uses[nm.Sel] != types.Object(t.fName) {
			diffs = append(diffs, "first argument "+exprStr(s.call.Args[0])+" is not the metric's Name")
		}
		ks, ok1 := c22ConstStr(info, s.call.Args[2])
		sp, ok2 := c22ConstStr(info, s.call.Args[3])
		rp, ok3 := c22ConstStr(info, s.call.Args[4])
		if !ok1 || !ok2 || !ok3 {
			c.Undecided("C22-R5", key, pos(c, s.call), "separators are not constants")
			continue
		}
		siteConsts = append(siteConsts, consts{ks, sp, rp})
		switch {
		case ks == "" || sp == "":
			diffs = append(diffs, "empty separator")
		case rp == "":
			diffs = append(diffs, "empty replacement: separators inside label values are not replaced")
		case strings.Contains(rp, ks) || strings.Contains(rp, sp):
			diffs = append(diffs, fmt.Sprintf("replacement %q contains a separator (%q/%q): a label value containing the separator still splits the record name", rp, ks, sp))
		}
		c.Verdict(len(diffs) == 0, "C22-R5", key, pos(c, s.call), fmt.Sprintf("l.Labels, separators %q %q -> %q", ks, sp, rp), strings.Join(diffs, "; "))
	}
	// label maps iterated by the formatters themselves
	for _, fm := range fms {
		for _, fn := range t.helperClosure(fm.f) {
			if fn == fl {
				continue
			}
			g := fn.Graph()
			k := 0
			for _, rs := range rangeStmts(fn) {
				if !c22IsLabelMap(fn.Info().TypeOf(rs.X)) {
					continue
				}
				k++
				key := fmt.Sprintf("%s|label loop#%d", fn.Key, k)
				own, _ := t.derived(fn, rs.X, t.fLSLabels)
				apps := c22Appends(fn, g, rs)
				cnt, ok := iterationCount(g, rs, core.HitPoints(apps))
				early := earlyLoopExits(c, g, rs)
				switch {
				case !own:
					c.Fail("C22-R5", key, pos(c, rs), "the labels printed are not those of the label set being formatted ("+exprStr(rs.X)+")")
				case !ok || cnt.Min != 1 || cnt.Max != 1:
					c.Fail("C22-R5", key, pos(c, rs), "a label of the label set is appended "+cnt.String()+" times: label sets that differ only in a dropped label get identical records")
				case len(early) > 0:
					c.Fail("C22-R5", key, pos(c, rs), "the label loop can stop early: "+early[0])
				default:
					c.Ok("C22-R5", key, pos(c, rs), "ranges over the label set's Labels, one append per label")
				}
			}
		}
	}
	// inside formatLabels
	c.Analysed(fl)
	g := fl.Graph()
	info := fl.Info()
	sameAtSites := func(a, b func(consts) string) bool {
		if len(siteConsts) == 0 {
			return false
		}
		for _, sc := range siteConsts {
			if a(sc) != b(sc) {
				return false
			}
		}
		return true
	}
	ksepEqSep := sameAtSites(func(x consts) string { return x.ksep }, func(x consts) string { return x.sep })
	var keyLoop, pairLoop *ast.RangeStmt
	for _, rs := range rangeStmts(fl) {
		if identObj(info, rs.X) == mapP {
			keyLoop = rs
		} else if _, isSlice := info.TypeOf(rs.X).Underlying().(*types.Slice); isSlice {
			pairLoop = rs
		}
	}
	if keyLoop == nil || pairLoop == nil || keyLoop.Key == nil || pairLoop.Value == nil {
		c.Undecided("C22-R5", c22FormatLabels+"|loops", pos(c, fl.Decl), "expected a range over the label map collecting keys and a range over the (sorted) keys building the pairs")
		return
	}
	// every key collected, every collected key emitted
	for _, lp := range []struct {
		name string
		rs   *ast.RangeStmt
	}{{"collect keys", keyLoop}, {"emit pairs", pairLoop}} {
		apps := c22Appends(fl, g, lp.rs)
		cnt, ok := iterationCount(g, lp.rs, core.HitPoints(apps))
		early := earlyLoopExits(c, g, lp.rs)
		c.Verdict(ok && cnt.Min == 1 && cnt.Max == 1 && len(early) == 0, "C22-R5", c22FormatLabels+"|"+lp.name, pos(c, lp.rs), "exactly one append per iteration, no early exit",
			"a label is dropped or repeated ("+cnt.String()+" appends per iteration, early exits: "+strings.Join(early, ",")+"): two label sets that differ only in that label get the same record name")
	}
	// the keys slice ranged in the pair loop is the one filled by the key loop
	keysObj := identObj(info, pairLoop.X)
	fed := false
	for _, a := range c22Appends(fl, g, keyLoop) {
		as := a.N.(*ast.AssignStmt)
		call := core.Unparen(as.Rhs[0]).(*ast.CallExpr)
		if identObj(info, as.Lhs[0]) == keysObj && keysObj != nil && len(call.Args) == 2 && identObj(info, call.Args[1]) == identObj(info, keyLoop.Key) {
			fed = true
		}
	}
	c.Verdict(fed, "C22-R5", c22FormatLabels+"|keys", pos(c, pairLoop), "the pair loop ranges over the keys collected from the map", "the pair loop does not range over the slice of keys collected from the label map")
	// replacements
	kv := identObj(info, pairLoop.Value)
	covered := func(layers [][2]ast.Expr) (bool, string) {
		got := map[types.Object]bool{}
		for _, l := range layers {
			if identObj(info, l[1]) != repP {
				return false, "a separator is replaced by " + exprStr(l[1]) + " instead of the replacement parameter"
			}
			got[identObj(info, l[0])] = true
		}
		if got[ksepP] && got[sepP] {
			return true, ""
		}
		if (got[ksepP] || got[sepP]) && ksepEqSep {
			return true, ""
		}
		var miss []string
		for _, p := range []types.Object{ksepP, sepP} {
			if !got[p] {
				miss = append(miss, p.Name())
			}
		}
		return false, "no ReplaceAll for separator " + strings.Join(miss, ",")
	}
	var pairCalls []*ast.CallExpr
	for _, a := range c22Appends(fl, g, pairLoop) {
		as := a.N.(*ast.AssignStmt)
		call := core.Unparen(as.Rhs[0]).(*ast.CallExpr)
		for _, arg := range call.Args[1:] {
			if pc, ok := c22Resolve1(fl, arg).(*ast.CallExpr); ok && fl.CalleeID(pc) == "fmt.Sprintf" {
				pairCalls = append(pairCalls, pc)
			}
		}
	}
	if len(pairCalls) != 1 || kv == nil {
		c.Undecided("C22-R5", c22FormatLabels+"|pair", pos(c, pairLoop), "the pair is not built by one fmt.Sprintf appended in the pair loop")
		return
	}
	pc := pairCalls[0]
	fs, isC := c22ConstStr(info, pc.Args[0])
	var roles []string
	var diffs []string
	for _, a := range pc.Args[1:] {
		op, layers := c22Flat(fl, a)
		switch {
		case identObj(info, op) == kv && kv != nil:
			roles = append(roles, "key")
			if ok, why := covered(layers); !ok {
				diffs = append(diffs, "label key: "+why)
			}
		case func() bool {
			ix, ok := op.(*ast.IndexExpr)
			return ok && identObj(info, ix.X) == mapP && identObj(info, ix.Index) == kv
		}():
			roles = append(roles, "value")
			if ok, why := covered(layers); !ok {
				diffs = append(diffs, "label value: "+why)
			}
		case identObj(info, op) == ksepP || (identObj(info, op) == sepP && ksepEqSep):
			roles = append(roles, "ksep")
		default:
			roles = append(roles, "other")
		}
	}
	lits, verbs := c22ParseFormat(fs)
	if !isC || !reflect.DeepEqual(roles, []string{"key", "ksep", "value"}) || len(verbs) != 3 || strings.Join(lits, "") != "" {
		diffs = append(diffs, fmt.Sprintf("pair is not <key><ksep><value of that key>: format %q, fields %v", fs, roles))
	}
	c.Verdict(len(diffs) == 0, "C22-R5", c22FormatLabels+"|pair", pos(c, pc), "key and value both flattened for every separator, joined by ksep",
		"a label key or value reaches the record name with a separator character in it ("+strings.Join(diffs, "; ")+"): e.g. host=\"a.b\" yields a graphite path with an extra component, so the record is not well-formed / collides with another label set's")
	// join
	joins := g.CallsTo("strings.Join")
	okJoin := len(joins) == 1
	var jd string
	if okJoin {
		jc := joins[0].N.(*ast.CallExpr)
		so := identObj(info, jc.Args[1])
		okJoin = so == sepP || (so == ksepP && ksepEqSep)
		jd = exprStr(jc.Args[1])
		// result must contain the name and reach the return
		for _, e := range normalExits(g) {
			if e.Kind == "return" && len(e.Ret.Results) == 1 && c22InSpan(jc, e.Ret) {
				hasName := false
				ast.Inspect(e.Ret, func(x ast.Node) bool {
					if id, ok := x.(*ast.Ident); ok {
						if identObj(info, c22Resolve1(fl, id)) == flp[0] {
							hasName = true
						}
					}
					return true
				})
				if !hasName {
					okJoin = false
					jd += " (the metric name is not part of the result)"
				}
			}
		}
	}
	c.Verdict(okJoin, "C22-R5", c22FormatLabels+"|join", pos(c, fl.Decl), "pairs joined with sep after the name", "the label pairs are not joined with the separator parameter after the metric name ("+jd+")")
	c.Floor("C22-R5", 9)
}

// c22Appends finds `x = append(x, ...)` statements inside loop rs.
func c22Appends(f *core.Func, g *core.Graph, rs *ast.RangeStmt) []core.Hit {
	return g.Find(func(n ast.Node) bool {
		as, ok := n.(*ast.AssignStmt)
		if !ok || len(as.Lhs) != 1 || len(as.Rhs) != 1 || !c22InSpan(as, rs.Body) {
			return false
		}
		call, ok := core.Unparen(as.Rhs[0]).(*ast.CallExpr)
		return ok && f.CalleeID(call) == "builtin.append" && len(call.Args) >= 2 && identObj(f.Info(), call.Args[0]) != nil && identObj(f.Info(), call.Args[0]) == identObj(f.Info(), as.Lhs[0])
	})
}

// ---------------------------------------------------------------------------
// R3: JSON marshal / unmarshal siblings

type c22JField struct {
	name string // JSON object key
	v    *types.Var
}

// c22JSONFields lists the exported fields of a struct with their JSON keys;
// embedded structs without a tag are flattened as encoding/json does.
func c22JSONFields(st *types.Struct) []c22JField {
	var out []c22JField
	for i := 0; i < st.NumFields(); i++ {
		f := st.Field(i)
		tag := reflect.StructTag(st.Tag(i)).Get("json")
		name := strings.Split(tag, ",")[0]
		if name == "-" {
			continue
		}
		if f.Embedded() && name == "" {
			ft := f.Type()
			if p, ok := ft.(*types.Pointer); ok {
				ft = p.Elem()
			}
			if es, ok := ft.Underlying().(*types.Struct); ok {
				out = append(out, c22JSONFields(es)...)
				continue
			}
		}
		if !f.Exported() {
			continue
		}
		if name == "" {
			name = f.Name()
		}
		out = append(out, c22JField{name, f})
	}
	return out
}

func c22HasMethod(tp types.Type, name string) bool {
	if _, isPtr := tp.(*types.Pointer); !isPtr {
		tp = types.NewPointer(tp)
	}
	ms := types.NewMethodSet(tp)
	for i := 0; i < ms.Len(); i++ {
		if ms.At(i).Obj().Name() == name {
			return true
		}
	}
	return false
}

func c22MethodOnValue(tp types.Type, name string) bool {
	ms := types.NewMethodSet(tp)
	for i := 0; i < ms.Len(); i++ {
		if ms.At(i).Obj().Name() == name {
			return true
		}
	}
	return false
}

type c22JSite struct {
	f    *core.Func
	call *ast.CallExpr
	arg  ast.Expr
}

func c22MarshalSites(f *core.Func) []c22JSite {
	var out []c22JSite
	ast.Inspect(f.Body, func(n ast.Node) bool {
		if lit, ok := n.(*ast.FuncLit); ok && lit != f.Lit {
			return false
		}
		if call, ok := n.(*ast.CallExpr); ok {
			switch f.CalleeID(call) {
			case "encoding/json.Marshal", "encoding/json.MarshalIndent":
				if len(call.Args) > 0 {
					out = append(out, c22JSite{f, call, call.Args[0]})
				}
			}
		}
		return true
	})
	return out
}

func c22StructOf(tp types.Type) *types.Struct {
	if tp == nil {
		return nil
	}
	if p, ok := tp.Underlying().(*types.Pointer); ok {
		tp = p.Elem()
	}
	st, _ := tp.Underlying().(*types.Struct)
	return st
}

// marshalStruct returns the struct a type's MarshalJSON hands to encoding/json.
func (t *c22T) marshalStruct(n *types.Named) (*types.Struct, *core.Func, *c22JSite) {
	rel := core.Rel(n.Obj().Pkg().Path())
	f := t.c.Prog.Fn(rel + ".(*" + n.Obj().Name() + ").MarshalJSON")
	if f == nil {
		f = t.c.Prog.Fn(rel + "." + n.Obj().Name() + ".MarshalJSON")
	}
	if f == nil {
		return nil, nil, nil
	}
	sites := c22MarshalSites(f)
	if len(sites) != 1 {
		return nil, f, nil
	}
	return c22StructOf(f.Info().TypeOf(sites[0].arg)), f, &sites[0]
}

func c22JSONCompat(enc, dec types.Type) bool {
	if types.Identical(enc, dec) {
		return true
	}
	eb, ok1 := enc.Underlying().(*types.Basic)
	db, ok2 := dec.Underlying().(*types.Basic)
	if ok1 && ok2 {
		num := func(b *types.Basic) bool { return b.Info()&types.IsNumeric != 0 }
		str := func(b *types.Basic) bool { return b.Info()&types.IsString != 0 }
		boo := func(b *types.Basic) bool { return b.Info()&types.IsBoolean != 0 }
		return (num(eb) && num(db)) || (str(eb) && str(db)) || (boo(eb) && boo(db))
	}
	return false
}

func (t *c22T) datumImpls() []*types.Named {
	var out []*types.Named
	iface, _ := t.datumI.Underlying().(*types.Interface)
	for _, nm := range t.datumPkg.Scope().Names() {
		tn, ok := t.datumPkg.Scope().Lookup(nm).(*types.TypeName)
		if !ok {
			continue
		}
		n, ok := tn.Type().(*types.Named)
		if !ok {
			continue
		}
		if _, isStruct := n.Underlying().(*types.Struct); !isStruct || iface == nil {
			continue
		}
		if types.Implements(types.NewPointer(n), iface) {
			out = append(out, n)
		}
	}
	return out
}

func (t *c22T) ruleSiblings() {
	c := t.c
	c.Rule("C22-R3", "SIBLINGS: what the JSON export writes, the JSON import reads back: (a) every implementation of datum.Datum that marshals itself can be constructed by LabelValue.UnmarshalJSON; (b) the object keys UnmarshalJSON reads exist, with the same type, in LabelValue and in the structs the constructed datums marshal; the decoded value and time feed the constructor in the right places, with the nanosecond split inverse to the marshalled Time; (c) Metric.MarshalJSON's shadow struct has exactly Metric's exported fields (name, type, tag) each filled from the same field of the receiver; (d) every struct type reachable from Metric without an interface that has a MarshalJSON but no UnmarshalJSON marshals a struct that default decoding accepts back into it")
	um := c.MustFn("C22-R3", c22LVUnmarshal)
	// (a)
	constructed := map[*types.Named]bool{}
	if um != nil {
		seen := map[*core.Func]bool{um: true}
		work := []*core.Func{um}
		for len(work) > 0 {
			f := work[0]
			work = work[1:]
			ast.Inspect(f.Body, func(n ast.Node) bool {
				switch x := n.(type) {
				case *ast.CompositeLit:
					if nn, ok := f.Info().TypeOf(x).(*types.Named); ok {
						constructed[nn] = true
					}
				case *ast.CallExpr:
					if f.CalleeID(x) == "builtin.new" && len(x.Args) == 1 {
						if nn, ok := f.Info().TypeOf(x.Args[0]).(*types.Named); ok {
							constructed[nn] = true
						}
					}
				}
				return true
			})
			for _, cf := range f.Callees() {
				rel := core.Rel(cf.Pkg.PkgPath)
				if !seen[cf] && strings.HasPrefix(rel, "internal/metrics") {
					seen[cf] = true
					work = append(work, cf)
				}
			}
		}
		var consNames []string
		for _, n := range t.datumImpls() {
			if !c22HasMethod(n, "MarshalJSON") {
				continue
			}
			key := c22LVUnmarshal + "|constructs datum." + n.Obj().Name()
			if constructed[n] {
				consNames = append(consNames, n.Obj().Name())
				c.Ok("C22-R3", key, pos(c, um.Decl), "reachable constructor builds this type")
			} else {
				c.Fail("C22-R3", key, pos(c, um.Decl), "the JSON export writes datum."+n.Obj().Name()+" values ("+n.Obj().Name()+".MarshalJSON) but LabelValue.UnmarshalJSON can never build one: a metric of that type does not round-trip (it is rejected, silently turned into an integer, or the decoder dereferences a missing key)")
			}
		}
		c.Extra["unmarshal_constructs"] = consNames
	}
	// (b)
	if um != nil {
		t.unmarshalKeys(um, constructed)
	}
	// (c)
	if mm := c.MustFn("C22-R3", c22MetricMarshal); mm != nil {
		t.shadowStruct(mm)
	}
	// (d)
	reach := map[*types.Named]bool{}
	var walk func(tp types.Type)
	walk = func(tp types.Type) {
		switch x := tp.(type) {
		case *types.Pointer:
			walk(x.Elem())
		case *types.Slice:
			walk(x.Elem())
		case *types.Array:
			walk(x.Elem())
		case *types.Map:
			walk(x.Elem())
		case *types.Named:
			if reach[x] || x.Obj().Pkg() == nil || !strings.HasPrefix(core.Rel(x.Obj().Pkg().Path()), "internal/metrics") {
				return
			}
			st, ok := x.Underlying().(*types.Struct)
			if !ok {
				return
			}
			reach[x] = true
			for _, jf := range c22JSONFields(st) {
				walk(jf.v.Type())
			}
		}
	}
	walk(t.metric)
	var names []*types.Named
	for n := range reach {
		names = append(names, n)
	}
	sort.Slice(names, func(i, j int) bool { return names[i].Obj().Name() < names[j].Obj().Name() })
	for _, n := range names {
		key := core.Rel(n.Obj().Pkg().Path()) + "." + n.Obj().Name() + "|decodes its own encoding"
		if !c22HasMethod(n, "MarshalJSON") {
			c.Ok("C22-R3", key, "-", "default encoding and "+map[bool]string{true: "its own UnmarshalJSON (keys decided in (b))", false: "default decoding"}[c22HasMethod(n, "UnmarshalJSON")])
			continue
		}
		if c22HasMethod(n, "UnmarshalJSON") {
			c.Undecided("C22-R3", key, "-", "type has both MarshalJSON and UnmarshalJSON: pair outside the recognised family")
			continue
		}
		ms, mf, _ := t.marshalStruct(n)
		if ms == nil {
			c.Undecided("C22-R3", key, "-", "MarshalJSON does not hand one struct to encoding/json")
			continue
		}
		c.Analysed(mf)
		own := map[string]*types.Var{}
		for _, jf := range c22JSONFields(n.Underlying().(*types.Struct)) {
			own[jf.name] = jf.v
		}
		var diffs []string
		for _, jf := range c22JSONFields(ms) {
			o := own[jf.name]
			switch {
			case o == nil:
				diffs = append(diffs, "key "+jf.name+" has no field to decode into")
			case !c22JSONCompat(jf.v.Type(), o.Type()):
				diffs = append(diffs, fmt.Sprintf("key %s is written as %s but the field it decodes into is %s", jf.name, jf.v.Type(), o.Type()))
			}
		}
		c.Verdict(len(diffs) == 0, "C22-R3", key, pos(c, mf.Decl), "marshalled struct decodes back field by field",
			"the type has a custom MarshalJSON and no UnmarshalJSON, and default decoding rejects or drops what it writes ("+strings.Join(diffs, "; ")+"): any exported metric containing it cannot be read back")
	}
	c.Floor("C22-R3", 12)
}

// unmarshalKeys decides part (b) on LabelValue.UnmarshalJSON.
func (t *c22T) unmarshalKeys(um *core.Func, constructed map[*types.Named]bool) {
	c := t.c
	info := um.Info()
	ps := c22Params(um)
	if len(ps) != 1 || ps[0] == nil {
		c.Undecided("C22-R3", c22LVUnmarshal+"|keys", pos(c, um.Decl), "unexpected signature")
		return
	}
	type src struct {
		m   types.Object // map variable, nil = the input
		key string
	}
	dstSrc := map[types.Object]src{} // variable decoded into -> where from
	ast.Inspect(um.Body, func(n ast.Node) bool {
		call, ok := n.(*ast.CallExpr)
		if !ok || um.CalleeID(call) != "encoding/json.Unmarshal" || len(call.Args) != 2 {
			return true
		}
		u, ok := core.Unparen(call.Args[1]).(*ast.UnaryExpr)
		if !ok || u.Op != token.AND {
			return true
		}
		d := identObj(info, u.X)
		if d == nil {
			return true
		}
		s := core.Unparen(call.Args[0])
		if identObj(info, s) == ps[0] {
			dstSrc[d] = src{nil, ""}
			return true
		}
		if st, ok := s.(*ast.StarExpr); ok {
			s = core.Unparen(st.X)
		}
		if ix, ok := s.(*ast.IndexExpr); ok {
			if k, isC := c22ConstStr(info, ix.Index); isC && identObj(info, ix.X) != nil {
				dstSrc[d] = src{identObj(info, ix.X), k}
			}
		}
		return true
	})
	var root, val types.Object
	for d, s := range dstSrc {
		if s.m == nil {
			root = d
		}
	}
	for d, s := range dstSrc {
		if root != nil && s.m == root && s.key == "Value" {
			if _, isMap := d.Type().Underlying().(*types.Map); isMap {
				val = d
			}
		}
	}
	if root == nil || val == nil {
		c.Undecided("C22-R3", c22LVUnmarshal+"|keys", pos(c, um.Decl), "expected json.Unmarshal(b, &obj) and json.Unmarshal(*obj[\"Value\"], &valObj)")
		return
	}
	keysOf := func(m types.Object) map[string]ast.Node {
		out := map[string]ast.Node{}
		ast.Inspect(um.Body, func(n ast.Node) bool {
			if ix, ok := n.(*ast.IndexExpr); ok && identObj(info, ix.X) == m {
				if k, isC := c22ConstStr(info, ix.Index); isC {
					out[k] = ix
				}
			}
			return true
		})
		return out
	}
	// outer keys against LabelValue
	lvFields := map[string]*types.Var{}
	for _, jf := range c22JSONFields(t.labelValue.Underlying().(*types.Struct)) {
		lvFields[jf.name] = jf.v
	}
	rk := keysOf(root)
	var diffs []string
	for _, k := range sortedKeys(rk) {
		if lvFields[k] == nil {
			diffs = append(diffs, "reads key "+k+" that the export of a LabelValue never writes")
		}
	}
	for _, need := range []string{"Labels", "Value"} {
		if _, ok := rk[need]; !ok {
			diffs = append(diffs, "never reads key "+need)
		}
	}
	for d, s := range dstSrc {
		if s.m == root && lvFields[s.key] != nil && s.key != "Value" && !types.Identical(d.Type(), lvFields[s.key].Type()) {
			diffs = append(diffs, fmt.Sprintf("key %s is decoded into %s, the field is %s", s.key, d.Type(), lvFields[s.key].Type()))
		}
	}
	c.Verdict(len(diffs) == 0, "C22-R3", c22LVUnmarshal+"|outer keys", pos(c, um.Decl), "keys "+strings.Join(sortedKeys(rk), ",")+" are fields of LabelValue", "the label values of an exported metric are not read back: "+strings.Join(diffs, "; "))
	// inner keys against the marshal structs of the constructed datum types
	vk := keysOf(val)
	for _, n := range t.datumImpls() {
		if !constructed[n] {
			continue
		}
		ms, _, _ := t.marshalStruct(n)
		key := c22LVUnmarshal + "|inner keys vs datum." + n.Obj().Name()
		if ms == nil {
			c.Undecided("C22-R3", key, pos(c, um.Decl), "MarshalJSON of the constructed type does not hand one struct to encoding/json")
			continue
		}
		enc := map[string]*types.Var{}
		for _, jf := range c22JSONFields(ms) {
			enc[jf.name] = jf.v
		}
		var diffs []string
		for _, k := range sortedKeys(vk) {
			if enc[k] == nil {
				diffs = append(diffs, "reads key "+k+" that "+n.Obj().Name()+".MarshalJSON never writes (missing key: nil dereference or zero value)")
			}
		}
		for _, k := range sortedKeys(enc) {
			if _, ok := vk[k]; !ok {
				diffs = append(diffs, "key "+k+" written by "+n.Obj().Name()+".MarshalJSON is never read")
			}
		}
		for d, s := range dstSrc {
			if s.m == val && enc[s.key] != nil && !types.Identical(d.Type(), enc[s.key].Type()) {
				diffs = append(diffs, fmt.Sprintf("key %s is written as %s and decoded into %s", s.key, enc[s.key].Type(), d.Type()))
			}
		}
		c.Verdict(len(diffs) == 0, "C22-R3", key, pos(c, um.Decl), "keys "+strings.Join(sortedKeys(vk), ",")+" written and read with the same types", "value or timestamp of an exported "+n.Obj().Name()+" datum is not read back: "+strings.Join(diffs, "; "))
	}
	// constructor feeding
	fromKey := func(e ast.Expr, m types.Object, k string) bool {
		for i := 0; i < 4; i++ {
			o := identObj(info, e)
			if o == nil {
				return false
			}
			if s, ok := dstSrc[o]; ok {
				return s.m == m && s.key == k
			}
			defs, rng, _ := c22Defs(um, o)
			if rng != nil || len(defs) != 1 {
				return false
			}
			e = defs[0]
		}
		return false
	}
	recv := c22RecvObj(um)
	nAssign := 0
	ast.Inspect(um.Body, func(n ast.Node) bool {
		as, ok := n.(*ast.AssignStmt)
		if !ok || len(as.Lhs) != 1 || len(as.Rhs) != 1 {
			return true
		}
		sel, ok := core.Unparen(as.Lhs[0]).(*ast.SelectorExpr)
		if !ok || identObj(info, sel.X) != recv {
			return true
		}
		fv, _ := info.Uses[sel.Sel].(*types.Var)
		if fv == nil {
			return true
		}
		switch fv.Name() {
		case "Labels":
			nAssign++
			c.Verdict(fromKey(as.Rhs[0], root, "Labels"), "C22-R3", c22LVUnmarshal+"|Labels assigned", pos(c, as), "from key Labels", "lv.Labels is not set from the decoded Labels key: the label set of the value is lost")
		case "Value":
			nAssign++
			call, ok := core.Unparen(as.Rhs[0]).(*ast.CallExpr)
			key := c22LVUnmarshal + "|Value constructed"
			if !ok || len(call.Args) != 2 || !strings.HasPrefix(um.CalleeID(call), "internal/metrics/datum.Make") {
				c.Undecided("C22-R3", key, pos(c, as), "lv.Value is not built by a datum.Make*(value, time) call")
				return true
			}
			var diffs []string
			if !fromKey(call.Args[0], val, "Value") {
				diffs = append(diffs, "the value argument is not the decoded Value key")
			}
			tc, ok := c22Resolve1(um, call.Args[1]).(*ast.CallExpr)
			if !ok || um.CalleeID(tc) != "time.Unix" || len(tc.Args) != 2 {
				diffs = append(diffs, "the time argument is not time.Unix(sec, nsec)")
			} else {
				for i, op := range []token.Token{token.QUO, token.REM} {
					be, ok := core.Unparen(tc.Args[i]).(*ast.BinaryExpr)
					if !ok || be.Op != op || !fromKey(be.X, val, "Time") {
						diffs = append(diffs, fmt.Sprintf("time.Unix argument %d is not the decoded Time key %s 1e9", i+1, op))
						continue
					}
					tv := info.Types[be.Y]
					if tv.Value == nil || !constant.Compare(constant.ToFloat(tv.Value), token.EQL, constant.MakeFloat64(1e9)) {
						diffs = append(diffs, fmt.Sprintf("time.Unix argument %d splits the marshalled nanoseconds by %s, not 1e9", i+1, exprStr(be.Y)))
					}
				}
			}
			c.Verdict(len(diffs) == 0, "C22-R3", key, pos(c, as), "Make*(Value, time.Unix(Time/1e9, Time%1e9))", "the datum read back does not carry the exported value and timestamp: "+strings.Join(diffs, "; "))
		}
		return true
	})
	if nAssign < 2 {
		c.Fail("C22-R3", c22LVUnmarshal+"|assignments", pos(c, um.Decl), "UnmarshalJSON does not set both lv.Labels and lv.Value")
	}
}

// shadowStruct decides part (c) on Metric.MarshalJSON.
func (t *c22T) shadowStruct(mm *core.Func) {
	c := t.c
	info := mm.Info()
	sites := c22MarshalSites(mm)
	key := c22MetricMarshal + "|shadow struct"
	if len(sites) != 1 {
		c.Undecided("C22-R3", key, pos(c, mm.Decl), "expected one json.Marshal call")
		return
	}
	arg := c22Resolve1(mm, sites[0].arg)
	if u, ok := arg.(*ast.UnaryExpr); ok && u.Op == token.AND {
		arg = core.Unparen(u.X)
	}
	if c22PtrTo(info.TypeOf(arg), t.metric) || types.Identical(info.TypeOf(arg), t.metric) {
		c.Undecided("C22-R3", key, pos(c, sites[0].call), "MarshalJSON hands the Metric itself to encoding/json (recursion) — shape outside the recognised family")
		return
	}
	cl, ok := arg.(*ast.CompositeLit)
	st := c22StructOf(info.TypeOf(arg))
	if !ok || st == nil {
		c.Undecided("C22-R3", key, pos(c, sites[0].call), "the marshalled value is not a struct literal")
		return
	}
	recv := c22RecvObj(mm)
	mst := t.metric.Underlying().(*types.Struct)
	type fld struct {
		name, tag string
		tp        types.Type
	}
	var want, got []fld
	for i := 0; i < mst.NumFields(); i++ {
		f := mst.Field(i)
		if f.Exported() && !f.Embedded() {
			want = append(want, fld{f.Name(), reflect.StructTag(mst.Tag(i)).Get("json"), f.Type()})
		}
	}
	for i := 0; i < st.NumFields(); i++ {
		got = append(got, fld{st.Field(i).Name(), reflect.StructTag(st.Tag(i)).Get("json"), st.Field(i).Type()})
	}
	var diffs []string
	wm := map[string]fld{}
	for _, w := range want {
		wm[w.name] = w
	}
	gm := map[string]bool{}
	for _, g := range got {
		gm[g.name] = true
		w, ok := wm[g.name]
		switch {
		case !ok:
			diffs = append(diffs, "field "+g.name+" is not an exported field of Metric")
		case !types.Identical(w.tp, g.tp):
			diffs = append(diffs, fmt.Sprintf("field %s has type %s, Metric's is %s", g.name, g.tp, w.tp))
		case w.tag != g.tag:
			diffs = append(diffs, fmt.Sprintf("field %s has tag %q, Metric's is %q", g.name, g.tag, w.tag))
		}
	}
	for _, w := range want {
		if !gm[w.name] {
			diffs = append(diffs, "Metric."+w.name+" is not exported to JSON")
		}
	}
	// values
	for i, el := range cl.Elts {
		name := ""
		val := el
		if kv, ok := el.(*ast.KeyValueExpr); ok {
			if id, ok := kv.Key.(*ast.Ident); ok {
				name = id.Name
			}
			val = kv.Value
		} else if i < st.NumFields() {
			name = st.Field(i).Name()
		}
		sel, ok := c22Resolve1(mm, val).(*ast.SelectorExpr)
		if !ok || identObj(info, sel.X) != recv || sel.Sel.Name != name {
			diffs = append(diffs, fmt.Sprintf("JSON field %s is filled from %s, not from the receiver's %s", name, exprStr(val), name))
		}
	}
	if len(cl.Elts) != st.NumFields() {
		diffs = append(diffs, fmt.Sprintf("%d of %d fields are filled", len(cl.Elts), st.NumFields()))
	}
	c.Verdict(len(diffs) == 0, "C22-R3", key, pos(c, cl), fmt.Sprintf("%d fields, same names, types and tags as Metric, each from the receiver's field", len(got)),
		"the JSON form of a metric is not the metric: "+strings.Join(diffs, "; "))
}

// ---------------------------------------------------------------------------
// R4: JSON totality

// floatLeaves walks the type encoding/json would encode by reflection and
// lists the paths at which a float is reached.  A type that marshals itself
// is encoded by its own method (analysed at its own json.Marshal site).
func (t *c22T) floatLeaves(tp types.Type, path string, addressable, top bool, seen map[types.Type]bool, out *[]string, unk *[]string) {
	if !top {
		if n, ok := tp.(*types.Named); ok {
			if c22MethodOnValue(n, "MarshalJSON") || c22MethodOnValue(n, "MarshalText") {
				return
			}
			if addressable && (c22HasMethod(n, "MarshalJSON") || c22HasMethod(n, "MarshalText")) {
				return
			}
		}
		if p, ok := tp.(*types.Pointer); ok {
			if c22MethodOnValue(p, "MarshalJSON") || c22MethodOnValue(p, "MarshalText") {
				return
			}
		}
	}
	if seen[tp] {
		return
	}
	seen[tp] = true
	defer delete(seen, tp)
	switch x := tp.Underlying().(type) {
	case *types.Basic:
		if x.Info()&types.IsFloat != 0 {
			*out = append(*out, path)
		}
	case *types.Pointer:
		t.floatLeaves(x.Elem(), path, true, false, seen, out, unk)
	case *types.Slice:
		t.floatLeaves(x.Elem(), path+"[]", true, false, seen, out, unk)
	case *types.Array:
		t.floatLeaves(x.Elem(), path+"[]", addressable, false, seen, out, unk)
	case *types.Map:
		t.floatLeaves(x.Elem(), path+"[k]", false, false, seen, out, unk)
	case *types.Struct:
		for _, jf := range c22JSONFields(x) {
			t.floatLeaves(jf.v.Type(), path+"."+jf.name, addressable, false, seen, out, unk)
		}
	case *types.Interface:
		// every implementation in the module's metrics packages
		n := 0
		for _, rel := range []string{"internal/metrics", "internal/metrics/datum"} {
			pk := t.c.Prog.Pkgs[rel]
			if pk == nil {
				continue
			}
			for _, nm := range pk.Types.Scope().Names() {
				tn, ok := pk.Types.Scope().Lookup(nm).(*types.TypeName)
				if !ok || types.IsInterface(tn.Type()) {
					continue
				}
				for _, cand := range []types.Type{tn.Type(), types.NewPointer(tn.Type())} {
					if x.NumMethods() > 0 && types.Implements(cand, x) {
						n++
						t.floatLeaves(cand, path+"("+tn.Name()+")", false, false, seen, out, unk)
						break
					}
				}
			}
		}
		if n == 0 {
			*unk = append(*unk, path+" (interface with no known implementation)")
		}
	}
}

func (t *c22T) ruleTotality() {
	c := t.c
	c.Rule("C22-R4", "TOTALITY: at every json.Marshal/MarshalIndent call of the metrics store, datum and exporter packages, no float64 is reached by encoding/json's reflection walk of the argument type (types that marshal themselves are walked at their own site) unless a math.IsNaN and math.IsInf test of that value keeps non-finite values away from the call: encoding/json fails on NaN and ±Inf, and one such datum makes the whole /json page and the one-shot dump fail")
	n := 0
	for _, f := range shipped(c) {
		rel := core.Rel(f.Pkg.PkgPath)
		if !strings.HasPrefix(rel, "internal/metrics") && rel != "internal/exporter" {
			continue
		}
		sites := c22MarshalSites(f)
		for k, s := range sites {
			n++
			c.Analysed(f)
			info := f.Info()
			tp := info.TypeOf(s.arg)
			var leaves, unk []string
			t.floatLeaves(tp, "", false, true, map[types.Type]bool{}, &leaves, &unk)
			base := fmt.Sprintf("%s|json#%d", f.Key, k+1)
			if len(unk) > 0 {
				c.Undecided("C22-R4", base, pos(c, s.call), "cannot enumerate what is encoded: "+strings.Join(unk, "; "))
				continue
			}
			if len(leaves) == 0 {
				c.Ok("C22-R4", base, pos(c, s.call), "no float reaches encoding/json from "+tp.String())
				continue
			}
			for _, lf := range leaves {
				key := base + "|float" + lf
				// value placed in that field: only top-level fields of a struct literal are traced
				guarded, partial := t.finiteGuard(f, s, lf)
				switch {
				case guarded:
					c.Ok("C22-R4", key, pos(c, s.call), "non-finite values are kept away from encoding/json by an IsNaN/IsInf test")
				case partial:
					c.Undecided("C22-R4", key, pos(c, s.call), "the function tests finiteness but not in the recognised shape (math.IsNaN(v) and math.IsInf(v, 0) on the encoded value, the true branch not reaching the call)")
				default:
					c.Fail("C22-R4", key, pos(c, s.call), "a float64 (field "+strings.TrimPrefix(lf, ".")+") is handed to encoding/json with no finiteness test: when it is NaN or ±Inf (e.g. float(\"NaN\") captured from a log line, or a histogram that observed it) json.Marshal returns UnsupportedValueError, the error propagates through Metric and Store MarshalJSON, and the whole JSON export fails (HTTP 500) for every metric")
				}
			}
		}
	}
	c.Floor("C22-R4", 9)
}

// finiteGuard looks for `if math.IsNaN(v) || math.IsInf(v, 0)` on the value
// stored in the float field, whose true branch cannot reach the marshal call.
func (t *c22T) finiteGuard(f *core.Func, s c22JSite, leaf string) (guarded, partial bool) {
	info := f.Info()
	g := f.Graph()
	anyTest := false
	ast.Inspect(f.Decl.Body, func(n ast.Node) bool {
		if call, ok := n.(*ast.CallExpr); ok {
			if id := f.CalleeID(call); id == "math.IsNaN" || id == "math.IsInf" {
				anyTest = true
			}
		}
		return true
	})
	if !anyTest {
		return false, false
	}
	// the encoded value
	name := strings.TrimPrefix(leaf, ".")
	if strings.ContainsAny(name, ".[(") {
		return false, true
	}
	var val ast.Expr
	var cl *ast.CompositeLit
	var st *types.Struct
	if leaf == "" {
		val = s.arg // the float itself is encoded
		cl = &ast.CompositeLit{}
	} else {
		var ok bool
		cl, ok = c22Resolve1(f, s.arg).(*ast.CompositeLit)
		st = c22StructOf(info.TypeOf(s.arg))
		if !ok || st == nil {
			return false, true
		}
	}
	for i, el := range cl.Elts {
		if kv, ok := el.(*ast.KeyValueExpr); ok {
			if id, ok := kv.Key.(*ast.Ident); ok && id.Name == name {
				val = kv.Value
			}
		} else if i < st.NumFields() && st.Field(i).Name() == name {
			val = el
		}
	}
	vo := identObj(info, val)
	if val == nil || vo == nil {
		return false, true
	}
	pt, found := g.PointOf(s.call)
	if !found {
		return false, true
	}
	for _, is := range ifsWhere(f, func(*ast.IfStmt) bool { return true }) {
		nan, inf := false, false
		ast.Inspect(is.Cond, func(n ast.Node) bool {
			if call, ok := n.(*ast.CallExpr); ok && len(call.Args) >= 1 && identObj(info, call.Args[0]) == vo {
				switch f.CalleeID(call) {
				case "math.IsNaN":
					nan = true
				case "math.IsInf":
					if k, isC := constInt(info, call.Args[1]); isC && k == 0 {
						inf = true
					}
				}
			}
			return true
		})
		if be, ok := core.Unparen(is.Cond).(*ast.BinaryExpr); !ok || be.Op != token.LOR || !nan || !inf {
			continue
		}
		start, ok := branchStart(g, is, true)
		if !ok {
			continue
		}
		if _, reach := pathAvoiding(g, start, []core.Point{pt}, nil); reach {
			continue
		}
		cp, okc := g.PointOf(is.Cond)
		if !okc {
			continue
		}
		if _, skip := pathAvoiding(g, nil, []core.Point{pt}, []core.Point{cp}); !skip {
			return true, false
		}
	}
	return false, true
}

func c22(c *core.Check) {
	c.Explain = "Decides, on every control-flow path of the current source, structural necessary conditions for 'every export format reports each label set's own value'. (R1) the per-label-set formatters and their helpers never read Metric.LabelValues and every datum they print comes from the *LabelSet parameter (def-use over locals, helper parameters, datum conversions). (R2) each loop that drains a label-set emitter formats the received label set of the locked metric exactly once per iteration, writes that record exactly once, writes nothing else, and holds the metric's read lock from the spawn to every call and write (must-hold lockset; min/max event counting; path search). (R7) each formatter's printf calls agree, literal piece by literal piece and argument role by argument role, with its protocol's record layout; value line on all paths, one bucket line per bucket of the label set's own histogram, count line after them. (R6) the statsd/collectd type field is evaluated (small abstract interpreter over switch/if on m.Kind, through kindToCollectdType and Kind.String) for Counter, Gauge and Timer and compared with the protocol's codes. (R8) records are delimited on their transport: newline-terminated for byte streams, one write call per record for unterminated (statsd) records on a datagram network, from the pushOptions table. (R5) formatLabels gets the label set's own map and constant separators, flattens every key and value for every distinct separator, emits every key once. (R3) JSON marshal and unmarshal are siblings: constructible datum types, keys and types read vs written, time split, Metric's shadow struct, custom encoders decodable. (R4) no float reaches encoding/json unguarded. NOT decided: numeric equality of the printed text with the stored value (ValueString/strconv are trusted), escaping of characters inside label values for varz/JSON, the peer's parser, atomicity of value+timestamp reads, the prometheus exporter (not in C22)."
	c.Assume = append(c.Assume,
		"fmt.Sprintf/Fprintf, strings.ReplaceAll/Join, encoding/json behave as documented (json.Marshal fails on NaN/Inf; pointer-receiver MarshalJSON is used only for addressable values)",
		"protocol layouts: graphite plaintext '<path> <value> <timestamp>\\n'; statsd '<bucket>:<value>|<type>' with types c/g/ms; collectd PUTVAL '<host>/<plugin>/<type>-<instance>' interval=<s> <time>:<value> with types counter/gauge; varz 'name{labels} value\\n'",
		"lock identity is the syntactic access path of the metric inside one function; the emitter goroutine runs under the spawner's delegated read lock (C11-R3, C12)")
	t := c22Resolve(c)
	if t == nil {
		return
	}
	fms := t.formatters()
	var names []string
	for _, fm := range fms {
		names = append(names, fm.f.Key)
	}
	c.Extra["formatters"] = names
	t.ruleLocality(fms)
	loops := t.ruleRecords(fms)
	prints := t.ruleLayout(fms)
	t.ruleKinds(fms, prints)
	t.ruleFraming(fms, loops)
	t.ruleLabels(fms)
	t.ruleSiblings()
	t.ruleTotality()
	c22Debug(c)
}

// c22Debug prints every obligation when C22_DEBUG is set (development aid).
func c22Debug(c *core.Check) {
	if os.Getenv("C22_DEBUG") == "" {
		return
	}
	for _, o := range c.Obs {
		fmt.Printf("  [%s] %s %s :: %s\n", o.Status, o.Rule, o.Construct, o.Detail)
	}
}
