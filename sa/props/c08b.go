package props

import (
	"go/ast"
	"strconv"
	"go/token"
	"go/types"

	"verif/sa/core"
)

// extractByteEscape recognises the one-pass spelling of the escaping encoder:
//
//	for _, l := range labels {
//	    for j := 0; j < len(l); j++ {
//	        c := l[j]
//	        if c == K1 || c == K2 { buf.WriteByte(E) }   // or: switch c { case K1, K2: buf.WriteByte(E) }
//	        buf.WriteByte(c)
//	    }
//	    buf.WriteByte(SEP)
//	}
//	return buf.String()
//
// as the per-byte homomorphism K ↦ E K (K in the tested set), b ↦ b otherwise,
// followed by SEP: the same term shape as the ReplaceAll family with one
// simultaneous replacement pass.  The extracted model is then compared with an
// interpretation of the function body on sample tuples; any disagreement
// rejects the model.
func extractByteEscape(f *core.Func) ([]encTerm, bool) {
	info := f.Info()
	if len(f.Type.Params.List) != 1 || len(f.Type.Params.List[0].Names) != 1 {
		return nil, false
	}
	labels := info.Defs[f.Type.Params.List[0].Names[0]]
	isWrite := func(call *ast.CallExpr) string {
		switch f.CalleeID(call) {
		case "strings.(*Builder).WriteByte", "bytes.(*Buffer).WriteByte":
			return "byte"
		case "strings.(*Builder).WriteString", "bytes.(*Buffer).WriteString":
			return "string"
		case "strings.(*Builder).WriteRune", "bytes.(*Buffer).WriteRune":
			return "rune"
		}
		return ""
	}
	constText := func(kind string, e ast.Expr) (string, bool) {
		tv, ok := info.Types[e]
		if !ok || tv.Value == nil {
			return "", false
		}
		if kind == "string" {
			if s, ok := constStrVal(info, e); ok {
				return s, true
			}
			return "", false
		}
		v, ok := c03ConstInt(info, e)
		if !ok || v < 0 || v > 127 {
			return "", false
		}
		return string([]byte{byte(v)}), true
	}
	var mainLoop *ast.RangeStmt
	for _, st := range f.Body.List {
		if rs, ok := st.(*ast.RangeStmt); ok && identObj(info, rs.X) == labels {
			if mainLoop != nil {
				return nil, false
			}
			mainLoop = rs
			continue
		}
		// no write to the accumulator outside the loop
		wrote := false
		ast.Inspect(st, func(n ast.Node) bool {
			if call, ok := n.(*ast.CallExpr); ok && isWrite(call) != "" {
				wrote = true
			}
			return true
		})
		if wrote {
			return nil, false
		}
	}
	if mainLoop == nil || mainLoop.Value == nil || len(mainLoop.Body.List) != 2 {
		return nil, false
	}
	lObj := identObj(info, mainLoop.Value)
	// the inner loop visits the bytes of the label in order: for j := 0; j < len(l); j++
	// (a range over a string decodes runes: not this family)
	fs, isFor := mainLoop.Body.List[0].(*ast.ForStmt)
	if !isFor || fs.Init == nil || fs.Cond == nil || fs.Post == nil {
		return nil, false
	}
	inner := &hbLoop{Stmt: fs, Body: fs.Body}
	if as, ok := fs.Init.(*ast.AssignStmt); ok && len(as.Lhs) == 1 && len(as.Rhs) == 1 {
		if v, isC := constInt(info, as.Rhs[0]); isC && v == 0 {
			inner.Key = identObj(info, as.Lhs[0])
		}
	}
	if inner.Key == nil {
		return nil, false
	}
	if be, ok := core.Unparen(fs.Cond).(*ast.BinaryExpr); !ok || be.Op != token.LSS || identObj(info, be.X) != inner.Key {
		return nil, false
	} else if lc, ok := core.Unparen(be.Y).(*ast.CallExpr); !ok || f.CalleeID(lc) != "builtin.len" || len(lc.Args) != 1 || identObj(info, lc.Args[0]) != lObj {
		return nil, false
	}
	if inc, ok := fs.Post.(*ast.IncDecStmt); !ok || inc.Tok != token.INC || identObj(info, inc.X) != inner.Key {
		return nil, false
	}
	if len(fs.Body.List) > 0 {
		if as, ok := fs.Body.List[0].(*ast.AssignStmt); ok && as.Tok == token.DEFINE && len(as.Lhs) == 1 && len(as.Rhs) == 1 {
			if ix, ok := core.Unparen(as.Rhs[0]).(*ast.IndexExpr); ok && identObj(info, ix.X) == lObj && identObj(info, ix.Index) == inner.Key {
				inner.Val = identObj(info, as.Lhs[0])
			}
		}
	}
	// neither the index nor the element variable is assigned in the body
	reassigned := false
	ast.Inspect(fs.Body, func(n ast.Node) bool {
		switch y := n.(type) {
		case *ast.AssignStmt:
			for i, l := range y.Lhs {
				o := identObj(info, l)
				if o != nil && (o == inner.Key || (o == inner.Val && !(y.Tok == token.DEFINE && i == 0 && n == ast.Node(fs.Body.List[0])))) {
					reassigned = true
				}
			}
		case *ast.IncDecStmt:
			if identObj(info, y.X) == inner.Key {
				reassigned = true
			}
		}
		return true
	})
	if reassigned {
		return nil, false
	}
	sepStmt, ok := mainLoop.Body.List[1].(*ast.ExprStmt)
	if !ok {
		return nil, false
	}
	sepCall, ok := sepStmt.X.(*ast.CallExpr)
	if !ok || isWrite(sepCall) == "" || len(sepCall.Args) != 1 {
		return nil, false
	}
	sep, ok := constText(isWrite(sepCall), sepCall.Args[0])
	if !ok || sep == "" {
		return nil, false
	}
	// the byte under the cursor
	isCur := func(e ast.Expr) bool {
		e = core.Unparen(e)
		if inner.Val != nil && identObj(info, e) == inner.Val && !inner.ValIsPtr {
			return true
		}
		if ix, ok := e.(*ast.IndexExpr); ok {
			return identObj(info, ix.X) == lObj && identObj(info, ix.Index) == inner.Key
		}
		return false
	}
	var escaped []string
	esc := ""
	stmts := inner.Body.List
	if len(stmts) > 0 {
		if as, ok := stmts[0].(*ast.AssignStmt); ok && as.Tok == token.DEFINE && len(as.Lhs) == 1 && identObj(info, as.Lhs[0]) == inner.Val && inner.Val != nil {
			stmts = stmts[1:]
		}
	}
	if len(stmts) < 1 || len(stmts) > 2 {
		return nil, false
	}
	escWrite := func(body []ast.Stmt) bool {
		if len(body) != 1 {
			return false
		}
		es, ok := body[0].(*ast.ExprStmt)
		if !ok {
			return false
		}
		call, ok := es.X.(*ast.CallExpr)
		if !ok || isWrite(call) != "byte" || len(call.Args) != 1 {
			return false
		}
		t, ok := constText("byte", call.Args[0])
		if !ok {
			return false
		}
		esc = t
		return true
	}
	if len(stmts) == 2 {
		switch s := stmts[0].(type) {
		case *ast.IfStmt:
			if s.Init != nil || s.Else != nil || !escWrite(s.Body.List) {
				return nil, false
			}
			var walk func(e ast.Expr) bool
			walk = func(e ast.Expr) bool {
				be, ok := core.Unparen(e).(*ast.BinaryExpr)
				if !ok {
					return false
				}
				if be.Op == token.LOR {
					return walk(be.X) && walk(be.Y)
				}
				if be.Op != token.EQL {
					return false
				}
				for _, pr := range [][2]ast.Expr{{be.X, be.Y}, {be.Y, be.X}} {
					if isCur(pr[0]) {
						if t, ok := constText("byte", pr[1]); ok {
							escaped = append(escaped, t)
							return true
						}
					}
				}
				return false
			}
			if !walk(s.Cond) {
				return nil, false
			}
		case *ast.SwitchStmt:
			if s.Init != nil || s.Tag == nil || !isCur(s.Tag) || len(s.Body.List) != 1 {
				return nil, false
			}
			cc := s.Body.List[0].(*ast.CaseClause)
			if cc.List == nil || !escWrite(cc.Body) {
				return nil, false
			}
			for _, e := range cc.List {
				t, ok := constText("byte", e)
				if !ok {
					return nil, false
				}
				escaped = append(escaped, t)
			}
		default:
			return nil, false
		}
	}
	last, ok := stmts[len(stmts)-1].(*ast.ExprStmt)
	if !ok {
		return nil, false
	}
	lastCall, ok := last.X.(*ast.CallExpr)
	if !ok || isWrite(lastCall) != "byte" || len(lastCall.Args) != 1 || !isCur(lastCall.Args[0]) {
		return nil, false
	}
	// the return is the accumulator's text
	rets := c23ReturnExprs(f)
	if len(rets) != 1 {
		return nil, false
	}
	if rc, isC := core.Unparen(rets[0]).(*ast.CallExpr); !isC || (f.CalleeID(rc) != "strings.(*Builder).String" && f.CalleeID(rc) != "bytes.(*Buffer).String") {
		return nil, false
	}
	el := encTerm{kind: "elem", simul: true}
	for _, k := range escaped {
		el.steps = append(el.steps, [2]string{k, esc + k})
	}
	terms := []encTerm{el, {kind: "lit", lit: sep}}
	// cross-check the model with the interpreter
	alpha := []string{"a", "\xff", sep, esc}
	alpha = append(alpha, escaped...)
	var strs []string
	strs = append(strs, "")
	for _, a := range alpha {
		strs = append(strs, a)
		for _, b := range alpha {
			strs = append(strs, a+b)
		}
	}
	for _, s1 := range strs {
		for _, tuple := range [][]string{{s1}, {s1, "a" + s1}, {"", s1, s1}} {
			got, ok := interpEncoder(f, tuple)
			if !ok || got != encodeTuple(terms, tuple) {
				return nil, false
			}
		}
	}
	return terms, true
}

func constStrVal(info *types.Info, e ast.Expr) (string, bool) {
	tv, ok := info.Types[e]
	if !ok || tv.Value == nil {
		return "", false
	}
	if b, isB := tv.Type.Underlying().(*types.Basic); !isB || b.Info()&types.IsString == 0 {
		return "", false
	}
	s := tv.Value.ExactString()
	if len(s) >= 2 && s[0] == '"' {
		if u, err := strconv.Unquote(s); err == nil {
			return u, true
		}
	}
	return "", false
}
