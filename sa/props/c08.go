package props

import (
	"os"
	"fmt"
	"go/ast"
	"go/token"
	"go/types"
	"sort"
	"strconv"
	"strings"

	"verif/sa/core"
)

func init() { register("C08", c08) }

const buildKey = "internal/metrics.buildLabelValueKey"

// encTerm is one piece written per element.
type encTerm struct {
	kind  string      // "lit", "elem", "lenprefix", "quote"
	lit   string      // for lit
	steps [][2]string // for elem: ReplaceAll(old,new) chain, applied in order (simul: one strings.Replacer pass)
	simul bool
}

// extractEncoder recognises buildLabelValueKey as `for each element: write
// terms` by symbolic evaluation of its body: one loop over the tuple (range or
// index form, bound written either way round or hoisted into a local), whose
// body assigns string expressions to locals and writes them to one
// accumulator (a strings.Builder/bytes.Buffer through WriteString/WriteByte/
// WriteRune, or a string through +=); string expressions are constants, the
// element, +, strings.ReplaceAll, strings.NewReplacer(…).Replace,
// strconv.Quote, strconv.Itoa(len(elem)) and calls of same-package helpers
// made of such assignments and a return, which are followed.  Outside the
// loop only declarations, constant writes, Grow and loops that compute a
// number are accepted.
func extractEncoder(f *core.Func) (terms []encTerm, why string) {
	info := f.Info()
	if len(f.Type.Params.List) != 1 || len(f.Type.Params.List[0].Names) != 1 {
		return nil, "unexpected parameters"
	}
	labels := info.Defs[f.Type.Params.List[0].Names[0]]
	isString := func(t types.Type) bool {
		b, ok := t.Underlying().(*types.Basic)
		return ok && b.Info()&types.IsString != 0
	}
	isBuilder := func(t types.Type) bool {
		if p, ok := t.(*types.Pointer); ok {
			t = p.Elem()
		}
		s := t.String()
		return s == "strings.Builder" || s == "bytes.Buffer"
	}
	isLenLabels := func(e ast.Expr) bool {
		call, ok := core.Unparen(e).(*ast.CallExpr)
		return ok && f.CalleeID(call) == "builtin.len" && len(call.Args) == 1 && identObj(info, call.Args[0]) == labels
	}
	lenAlias := map[types.Object]bool{}
	written := map[types.Object][]encTerm{} // per accumulator: the per-element terms
	isAcc := map[types.Object]bool{}
	constStr := func(e ast.Expr) (string, bool) {
		if tv, ok := info.Types[core.Unparen(e)]; ok && tv.Value != nil && isString(tv.Type) {
			s, err := strconv.Unquote(tv.Value.ExactString())
			return s, err == nil
		}
		return "", false
	}
	constChar := func(e ast.Expr) (string, bool) {
		if v, ok := constInt(info, core.Unparen(e)); ok && v >= 0 && v < 0x110000 {
			if v < 0x80 {
				return string([]byte{byte(v)}), true
			}
			return string(rune(v)), true
		}
		return "", false
	}
	var elemIs func(e ast.Expr) bool
	var evalStr func(e ast.Expr, env map[types.Object][]encTerm, depth int) ([]encTerm, string)
	evalStr = func(e ast.Expr, env map[types.Object][]encTerm, depth int) ([]encTerm, string) {
		e = core.Unparen(e)
		if s, ok := constStr(e); ok {
			if s == "" {
				return []encTerm{}, ""
			}
			return []encTerm{{kind: "lit", lit: s}}, ""
		}
		if o := identObj(info, e); o != nil {
			if t, ok := env[o]; ok {
				return t, ""
			}
		}
		if depth == 0 && elemIs != nil && elemIs(e) {
			return []encTerm{{kind: "elem"}}, ""
		}
		switch x := e.(type) {
		case *ast.BinaryExpr:
			if x.Op == token.ADD {
				l, w := evalStr(x.X, env, depth)
				if w != "" {
					return nil, w
				}
				r, w := evalStr(x.Y, env, depth)
				if w != "" {
					return nil, w
				}
				return append(append([]encTerm{}, l...), r...), ""
			}
		case *ast.CallExpr:
			switch f.CalleeID(x) {
			case "strings.ReplaceAll":
				in, w := evalStr(x.Args[0], env, depth)
				if w != "" {
					return nil, w
				}
				if len(in) != 1 || in[0].kind != "elem" || in[0].simul {
					return nil, "ReplaceAll applied to something other than the element"
				}
				o, ok1 := constStr(x.Args[1])
				n, ok2 := constStr(x.Args[2])
				if !ok1 || !ok2 {
					return nil, "ReplaceAll with non-constant arguments"
				}
				t := encTerm{kind: "elem", steps: append(append([][2]string{}, in[0].steps...), [2]string{o, n})}
				return []encTerm{t}, ""
			case "strings.(*Replacer).Replace":
				in, w := evalStr(x.Args[0], env, depth)
				if w != "" {
					return nil, w
				}
				if len(in) != 1 || in[0].kind != "elem" || len(in[0].steps) != 0 {
					return nil, "Replacer applied to something other than the plain element"
				}
				var nr *ast.CallExpr
				if r := core.RecvExpr(x); r != nil {
					nr, _ = mxResolveAt(f, r, x).(*ast.CallExpr)
				}
				if nr == nil || f.CalleeID(nr) != "strings.NewReplacer" || len(nr.Args)%2 != 0 || nr.Ellipsis.IsValid() {
					return nil, "Replacer not built by strings.NewReplacer with constant pairs"
				}
				t := encTerm{kind: "elem", simul: true}
				seen := map[string]bool{}
				for i := 0; i < len(nr.Args); i += 2 {
					o, ok1 := constStr(nr.Args[i])
					n, ok2 := constStr(nr.Args[i+1])
					if !ok1 || !ok2 || len(o) != 1 || seen[o] {
						return nil, "Replacer pairs are not distinct single-byte constants"
					}
					seen[o] = true
					t.steps = append(t.steps, [2]string{o, n})
				}
				return []encTerm{t}, ""
			case "strconv.Quote":
				in, w := evalStr(x.Args[0], env, depth)
				if w != "" || len(in) != 1 || in[0].kind != "elem" || len(in[0].steps) != 0 {
					return nil, "Quote of something other than the plain element"
				}
				return []encTerm{{kind: "quote"}}, ""
			case "strconv.Itoa":
				if lc, ok := core.Unparen(x.Args[0]).(*ast.CallExpr); ok && f.CalleeID(lc) == "builtin.len" && len(lc.Args) == 1 {
					if in, w := evalStr(lc.Args[0], env, depth); w == "" && len(in) == 1 && in[0].kind == "elem" && len(in[0].steps) == 0 {
						return []encTerm{{kind: "lenprefix"}}, ""
					}
				}
			default:
				// a helper of the same package: bind its parameters and evaluate its body
				h := f.CalleeFunc(x)
				if h == nil || h.Pkg != f.Pkg || h == f || depth > 3 || x.Ellipsis.IsValid() {
					break
				}
				env2 := map[types.Object][]encTerm{}
				i := 0
				for _, fl := range h.Type.Params.List {
					if len(fl.Names) == 0 {
						return nil, "helper " + h.Key + " has unnamed parameters"
					}
					for _, nm := range fl.Names {
						if i >= len(x.Args) {
							return nil, "helper call with too few arguments"
						}
						if isString(info.TypeOf(x.Args[i])) {
							t, w := evalStr(x.Args[i], env, depth)
							if w != "" {
								return nil, w
							}
							env2[info.Defs[nm]] = t
						}
						i++
					}
				}
				for k, st := range h.Body.List {
					switch s := st.(type) {
					case *ast.AssignStmt:
						if len(s.Lhs) != 1 || len(s.Rhs) != 1 || (s.Tok != token.DEFINE && s.Tok != token.ASSIGN) {
							return nil, "unrecognised assignment in helper " + h.Key
						}
						t, w := evalStr(s.Rhs[0], env2, depth+1)
						if w != "" {
							return nil, w
						}
						env2[identObj(info, s.Lhs[0])] = t
					case *ast.ReturnStmt:
						if k != len(h.Body.List)-1 || len(s.Results) != 1 {
							return nil, "helper " + h.Key + " does not end in a single return"
						}
						return evalStr(s.Results[0], env2, depth+1)
					default:
						return nil, "helper " + h.Key + " contains control flow"
					}
				}
				return nil, "helper " + h.Key + " has no return"
			}
		}
		return nil, "unrecognised string expression " + exprStr(e)
	}
	// accumulator writes
	accWrite := func(call *ast.CallExpr, env map[types.Object][]encTerm) (obj types.Object, t []encTerm, handled bool, w string) {
		id := f.CalleeID(call)
		r := core.RecvExpr(call)
		if r == nil {
			return nil, nil, false, ""
		}
		if u, ok := core.Unparen(r).(*ast.UnaryExpr); ok && u.Op == token.AND {
			r = u.X
		}
		obj = identObj(info, r)
		if obj == nil || !isAcc[obj] {
			return nil, nil, false, ""
		}
		switch id {
		case "strings.(*Builder).WriteString", "bytes.(*Buffer).WriteString":
			t, w = evalStr(call.Args[0], env, 0)
			return obj, t, true, w
		case "strings.(*Builder).WriteByte", "bytes.(*Buffer).WriteByte", "strings.(*Builder).WriteRune", "bytes.(*Buffer).WriteRune":
			if s, ok := constChar(call.Args[0]); ok {
				return obj, []encTerm{{kind: "lit", lit: s}}, true, ""
			}
			return obj, nil, true, "a non-constant byte is written"
		case "strings.(*Builder).Grow", "bytes.(*Buffer).Grow":
			return obj, nil, true, ""
		}
		return obj, nil, true, "unrecognised call on the accumulator: " + id
	}
	numericOnly := func(body *ast.BlockStmt) bool {
		ok := true
		ast.Inspect(body, func(n ast.Node) bool {
			switch s := n.(type) {
			case *ast.AssignStmt:
				for _, l := range s.Lhs {
					o := identObj(info, l)
					if o == nil || isAcc[o] || isString(o.Type()) {
						ok = false
					}
				}
			case *ast.CallExpr:
				if id := f.CalleeID(s); id != "builtin.len" {
					ok = false
				}
			case *ast.IncDecStmt, *ast.BlockStmt, *ast.ExprStmt, *ast.Ident, *ast.BasicLit, *ast.BinaryExpr, *ast.ParenExpr, *ast.IndexExpr:
			case nil:
			default:
				ok = false
			}
			return ok
		})
		return ok
	}
	define := func(nm ast.Expr, rhs ast.Expr) string {
		o := identObj(info, nm)
		if o == nil {
			return "unrecognised definition outside the loop"
		}
		if isAcc[o] {
			return "the accumulator " + o.Name() + " is assigned again outside the loop"
		}
		switch {
		case isBuilder(o.Type()):
			isAcc[o] = true
		case isString(o.Type()):
			if rhs != nil {
				if s, ok := constStr(rhs); !ok || s != "" {
					return "a string variable outside the loop does not start empty"
				}
			}
			isAcc[o] = true
		case rhs != nil && isLenLabels(rhs):
			lenAlias[o] = true
		case o.Type().String() == "*strings.Replacer":
			// followed to its strings.NewReplacer call where it is used
		default:
			if b, ok := o.Type().Underlying().(*types.Basic); !ok || b.Info()&types.IsInteger == 0 {
				return "unrecognised variable outside the loop: " + o.Name()
			}
		}
		return ""
	}
	loopSeen := false
	var result types.Object
	for k, st := range f.Body.List {
		if result != nil {
			return nil, "statements after the return"
		}
		switch s := st.(type) {
		case *ast.DeclStmt:
			gd, ok := s.Decl.(*ast.GenDecl)
			if !ok || gd.Tok != token.VAR {
				return nil, "unrecognised declaration outside the loop"
			}
			for _, sp := range gd.Specs {
				vs := sp.(*ast.ValueSpec)
				for i, nm := range vs.Names {
					var rhs ast.Expr
					if len(vs.Values) == len(vs.Names) {
						rhs = vs.Values[i]
					} else if len(vs.Values) != 0 {
						return nil, "unrecognised declaration outside the loop"
					}
					if w := define(nm, rhs); w != "" {
						return nil, w
					}
				}
			}
		case *ast.AssignStmt:
			if len(s.Lhs) != len(s.Rhs) || (s.Tok != token.DEFINE && s.Tok != token.ASSIGN) {
				return nil, "unrecognised assignment outside the loop"
			}
			for i := range s.Lhs {
				if w := define(s.Lhs[i], s.Rhs[i]); w != "" {
					return nil, w
				}
			}
		case *ast.ExprStmt:
			call, ok := s.X.(*ast.CallExpr)
			if !ok {
				return nil, "unrecognised statement outside the loop"
			}
			_, t, handled, w := accWrite(call, map[types.Object][]encTerm{})
			if !handled || w != "" {
				return nil, "unrecognised statement outside the loop: " + exprStr(s.X) + " " + w
			}
			for _, x := range t {
				if x.kind != "lit" {
					return nil, "a non-constant is written outside the loop"
				}
			}
		case *ast.ForStmt, *ast.RangeStmt:
			var body *ast.BlockStmt
			var idxVar types.Object
			switch l := s.(type) {
			case *ast.ForStmt:
				body = l.Body
			case *ast.RangeStmt:
				body = l.Body
			}
			if numericOnly(body) {
				continue // computes a size, writes nothing
			}
			if loopSeen {
				return nil, "more than one loop writes the key"
			}
			loopSeen = true
			switch l := s.(type) {
			case *ast.ForStmt:
				// for i := 0; i < len(labels); i++  (bound either way round, or a local holding len(labels))
				as, ok := l.Init.(*ast.AssignStmt)
				if !ok || len(as.Lhs) != 1 || len(as.Rhs) != 1 {
					return nil, "loop without a single index variable"
				}
				iv := identObj(info, as.Lhs[0])
				if v, ok := constInt(info, as.Rhs[0]); !ok || v != 0 || iv == nil {
					return nil, "loop does not start at 0"
				}
				be, ok := core.Unparen(l.Cond).(*ast.BinaryExpr)
				if !ok {
					return nil, "loop bound is not a comparison"
				}
				isN := func(e ast.Expr) bool {
					if isLenLabels(e) {
						return true
					}
					o := identObj(info, e)
					return o != nil && lenAlias[o]
				}
				isI := func(e ast.Expr) bool { return identObj(info, e) == iv }
				okBound := (isI(be.X) && isN(be.Y) && (be.Op == token.LSS || be.Op == token.NEQ)) ||
					(isN(be.X) && isI(be.Y) && (be.Op == token.GTR || be.Op == token.NEQ))
				if !okBound {
					return nil, "loop bound is not i < len(labels): " + nospace(exprStr(l.Cond))
				}
				okStep := false
				switch p := l.Post.(type) {
				case *ast.IncDecStmt:
					okStep = p.Tok == token.INC && isI(p.X)
				case *ast.AssignStmt:
					if len(p.Lhs) == 1 && len(p.Rhs) == 1 && p.Tok == token.ADD_ASSIGN && isI(p.Lhs[0]) {
						v, ok := constInt(info, p.Rhs[0])
						okStep = ok && v == 1
					}
				}
				if !okStep {
					return nil, "loop step is not i++"
				}
				idxVar = iv
				elemIs = func(e ast.Expr) bool {
					ix, ok := core.Unparen(e).(*ast.IndexExpr)
					return ok && identObj(info, ix.X) == labels && identObj(info, ix.Index) == iv
				}
			case *ast.RangeStmt:
				if identObj(info, l.X) != labels {
					return nil, "range is not over the labels"
				}
				var kv, vv types.Object
				if id, ok := l.Key.(*ast.Ident); ok && id.Name != "_" {
					kv = identObj(info, l.Key)
				}
				if l.Value != nil {
					if id, ok := l.Value.(*ast.Ident); ok && id.Name != "_" {
						vv = identObj(info, l.Value)
					}
				}
				if kv == nil && vv == nil {
					return nil, "range uses neither index nor value"
				}
				idxVar = kv
				elemIs = func(e ast.Expr) bool {
					if o := identObj(info, e); o != nil && o == vv {
						return true
					}
					ix, ok := core.Unparen(e).(*ast.IndexExpr)
					return ok && kv != nil && identObj(info, ix.X) == labels && identObj(info, ix.Index) == kv
				}
			}
			env := map[types.Object][]encTerm{}
			for _, bst := range body.List {
				switch b := bst.(type) {
				case *ast.AssignStmt:
					if len(b.Lhs) != 1 || len(b.Rhs) != 1 {
						return nil, "unrecognised assignment"
					}
					o := identObj(info, b.Lhs[0])
					if o == nil || o == idxVar || o == labels {
						return nil, "the loop body assigns the index or the tuple"
					}
					switch {
					case isAcc[o] && b.Tok == token.ADD_ASSIGN:
						t, w := evalStr(b.Rhs[0], env, 0)
						if w != "" {
							return nil, w
						}
						written[o] = append(written[o], t...)
					case isAcc[o] && b.Tok == token.ASSIGN:
						// acc = acc + X
						be, ok := core.Unparen(b.Rhs[0]).(*ast.BinaryExpr)
						if !ok || be.Op != token.ADD || identObj(info, be.X) != o {
							return nil, "the accumulator is overwritten in the loop"
						}
						t, w := evalStr(be.Y, env, 0)
						if w != "" {
							return nil, w
						}
						written[o] = append(written[o], t...)
					case b.Tok == token.DEFINE || b.Tok == token.ASSIGN:
						t, w := evalStr(b.Rhs[0], env, 0)
						if w != "" {
							return nil, w
						}
						env[o] = t
					case b.Tok == token.ADD_ASSIGN:
						cur, have := env[o]
						if !have {
							return nil, "+= on an unknown string"
						}
						t, w := evalStr(b.Rhs[0], env, 0)
						if w != "" {
							return nil, w
						}
						env[o] = append(append([]encTerm{}, cur...), t...)
					default:
						return nil, "unrecognised assignment operator"
					}
				case *ast.ExprStmt:
					call, ok := b.X.(*ast.CallExpr)
					if !ok {
						return nil, "unrecognised statement in the loop"
					}
					o, t, handled, w := accWrite(call, env)
					if !handled {
						return nil, "unrecognised call in the loop: " + f.CalleeID(call)
					}
					if w != "" {
						return nil, w
					}
					written[o] = append(written[o], t...)
				default:
					return nil, "the loop body contains control flow (conditional encoding): not a uniform per-element encoder"
				}
			}
			elemIs = nil
		case *ast.ReturnStmt:
			if len(s.Results) != 1 || k != len(f.Body.List)-1 {
				return nil, "unrecognised return"
			}
			r := core.Unparen(s.Results[0])
			if call, ok := r.(*ast.CallExpr); ok {
				id := f.CalleeID(call)
				if id != "strings.(*Builder).String" && id != "bytes.(*Buffer).String" {
					return nil, "result is not the builder's string: " + nospace(exprStr(r))
				}
				r = core.RecvExpr(call)
			}
			result = identObj(info, r)
			if result == nil || !isAcc[result] {
				return nil, "result is not the accumulator: " + nospace(exprStr(s.Results[0]))
			}
		default:
			return nil, "unrecognised statement outside the loop"
		}
	}
	if !loopSeen {
		return nil, "no loop over the labels"
	}
	if result == nil {
		return nil, "no return of the accumulator"
	}
	return written[result], ""
}

// applySteps applies an element term's replacements to s.
func applySteps(s string, t encTerm) string {
	if t.simul {
		var flat []string
		for _, st := range t.steps {
			flat = append(flat, st[0], st[1])
		}
		return strings.NewReplacer(flat...).Replace(s)
	}
	for _, st := range t.steps {
		s = strings.ReplaceAll(s, st[0], st[1])
	}
	return s
}

// encodeTuple evaluates the extracted encoder on a tuple.
func encodeTuple(terms []encTerm, tuple []string) string {
	var b strings.Builder
	for _, l := range tuple {
		for _, t := range terms {
			switch t.kind {
			case "lit":
				b.WriteString(t.lit)
			case "elem":
				b.WriteString(applySteps(l, t))
			case "quote":
				b.WriteString(strconv.Quote(l))
			case "lenprefix":
				b.WriteString(strconv.Itoa(len(l)))
			}
		}
	}
	return b.String()
}

// sardinasPatterson decides unique decodability of a finite code; on failure it returns a dangling suffix that is a code word.
func sardinasPatterson(code []string) (bool, string) {
	words := map[string]bool{}
	for _, w := range code {
		if w == "" {
			return false, "(empty code word)"
		}
		if words[w] {
			return false, "(duplicate code word " + strconv.Quote(w) + ")"
		}
		words[w] = true
	}
	quot := func(a, b map[string]bool) map[string]bool { // a^-1 b = { y : xy in b, x in a }
		out := map[string]bool{}
		for x := range a {
			for y := range b {
				if strings.HasPrefix(y, x) {
					out[y[len(x):]] = true
				}
			}
		}
		return out
	}
	s := quot(words, words)
	delete(s, "")
	seen := map[string]bool{}
	for iter := 0; iter < 10000; iter++ {
		for w := range s {
			if words[w] {
				return false, w
			}
		}
		var ks []string
		for k := range s {
			ks = append(ks, k)
		}
		sort.Strings(ks)
		sig := strings.Join(ks, "\x00")
		if seen[sig] || len(s) == 0 {
			return true, ""
		}
		seen[sig] = true
		n := quot(words, s)
		for k := range quot(s, words) {
			n[k] = true
		}
		s = n
	}
	return false, "(no fixpoint)"
}

func c08(c *core.Check) {
	mxInlineProg = c.Prog
	c.Level = "proof"
	c.Explain = "Injectivity of the label-tuple key, decided from /repo's current source.  The body of buildLabelValueKey is extracted as a per-element encoder (constants, the element under a chain of strings.ReplaceAll, strconv.Quote, a decimal length prefix).  When every term is a constant or the element under single-byte replacements followed by a constant terminator, the encoder is a monoid morphism h on the byte alphabet extended with an element-terminator symbol, and tuple encoding is injective for all arities iff the code {h(c)} is uniquely decodable — decided exactly by the Sardinas–Patterson algorithm over the finite set of bytes occurring in code words plus one representative ordinary byte (all other bytes are their own code word and occur in no other).  A failing test is turned into two distinct same-arity tuples with equal keys by a bounded search on the extracted encoder; that pair is the violation.  Encoders outside the morphism family are searched the same way (violation if a collision exists) and are otherwise undecided.  (R2) every access to labelValuesMap uses a key built by buildLabelValueKey from the tuple that is stored or looked up, and only metric.go touches the map and the slice; (R3) every tuple-taking method compares the tuple's length with the key count before anything else."
	c.Assume = append(c.Assume, "strings.ReplaceAll with single-byte old strings is a byte-wise morphism (holds for invalid UTF-8 too)", "Go map lookup by string key is exact")
	keyInjective(c, "C08-R1")

	c.Rule("C08-R2", "ONE-KEYING: every index, store or delete on labelValuesMap uses a key that is the result of buildLabelValueKey applied to the tuple being stored/looked up (followed through local variables and, for a key passed as a parameter, through every call site); labelValuesMap and LabelValues are not written outside metric.go; a stored LabelValue's Labels is the tuple the key was built from")
	n2 := 0
	for _, sf := range shipped(c) {
		info := sf.Info()
		core.InspectNoLit(sf.Body, func(n ast.Node) bool {
			if lit, ok := n.(*ast.FuncLit); ok && lit != sf.Lit {
				return false
			}
			var keyExpr ast.Expr
			var at ast.Node
			switch x := n.(type) {
			case *ast.IndexExpr:
				if _, ok := mxIsField(info, x.X, "metrics.Metric", "labelValuesMap"); ok {
					keyExpr, at = x.Index, x
				}
			case *ast.CallExpr:
				if sf.CalleeID(x) == "builtin.delete" && len(x.Args) == 2 {
					if _, ok := mxIsField(info, x.Args[0], "metrics.Metric", "labelValuesMap"); ok {
						keyExpr, at = x.Args[1], x
					}
				}
			}
			if keyExpr == nil {
				return true
			}
			n2++
			c.Analysed(sf)
			file := c.Prog.Fset.Position(at.Pos()).Filename
			if !strings.HasSuffix(file, "internal/metrics/metric.go") {
				c.Fail("C08-R2", sf.Key+"|map access outside metric.go", pos(c, at), "labelValuesMap is accessed outside metric.go: the keying discipline cannot be checked there")
				return true
			}
			key := fmt.Sprintf("%s|map access #%d", sf.Key, n2)
			status, tuple, why := mxKeyOrigin(c, sf, keyExpr, at, 0)
			if status == "ok" && tuple == nil {
				// the key is a parameter: one instance per call site that builds it
				if v := mxLocalVar(sf, mxResolveAt(sf, keyExpr, at)); v != nil {
					if _, isParam := mxPureParam(sf, v); isParam {
						for i, s := range mxCallSites(c.Prog, sf) {
							if i > 0 {
								c.Ok("C08-R2", fmt.Sprintf("%s via %s", key, s.In.Key), pos(c, s.Call), "key built by buildLabelValueKey at this call site")
							}
						}
					}
				}
			}
			switch status {
			case "fail":
				c.Fail("C08-R2", key, pos(c, at), "labelValuesMap is accessed with a key that is not the result of buildLabelValueKey ("+why+"): entries become unreachable or alias")
				return true
			case "undecided":
				c.Undecided("C08-R2", key, pos(c, at), "the origin of the map key is not recognised: "+why)
				return true
			}
			// for stores m.labelValuesMap[k] = lv: the tuple must be lv.Labels
			if par := parentAssign(sf, at); par != nil && len(par.Lhs) == len(par.Rhs) {
				var val ast.Expr
				for i, l := range par.Lhs {
					if ast.Node(l) == at {
						val = par.Rhs[i]
					}
				}
				if tuple == nil || val == nil {
					c.Undecided("C08-R2", key, pos(c, at), "the key of a store is built in another function: the tuple it was built from cannot be compared with the stored value's Labels")
					return true
				}
				okTuple := false
				if sel, ok := mxIsField(info, mxResolveAt(sf, tuple, at), "metrics.LabelValue", "Labels"); ok {
					okTuple = mxCanon(sf, sel.X, at) == mxCanon(sf, val, at)
				}
				c.Verdict(okTuple, "C08-R2", key, pos(c, at), "key = buildLabelValueKey("+exprStr(tuple)+")", "the map key is built from "+exprStr(tuple)+", not from the Labels of the value being stored: the entry is filed under another tuple's key")
				return true
			}
			d := "key built by buildLabelValueKey at every call site"
			if tuple != nil {
				d = "key = buildLabelValueKey(" + exprStr(tuple) + ")"
			}
			c.Ok("C08-R2", key, pos(c, at), d)
			return true
		})
		// writers of the fields elsewhere
		for _, fld := range []string{"labelValuesMap", "LabelValues"} {
			core.InspectNoLit(sf.Body, func(n ast.Node) bool {
				as, ok := n.(*ast.AssignStmt)
				if !ok {
					return true
				}
				for _, l := range as.Lhs {
					if _, ok := mxIsField(info, l, "metrics.Metric", fld); ok {
						file := c.Prog.Fset.Position(as.Pos()).Filename
						if !strings.HasSuffix(file, "internal/metrics/metric.go") {
							c.Fail("C08-R2", sf.Key+"|writes "+fld, pos(c, as), fld+" of a metric is assigned outside metric.go, bypassing the paired slice/map update")
						}
					}
				}
				return true
			})
		}
	}
	c.Floor("C08-R2", 4)

	c.Rule("C08-R3", "ARITY: GetDatum, RemoveDatum, ExpireDatum and AppendLabelValue compare the tuple length with len(m.Keys) and return an error, before locking and before any access to the map or slice")
	for _, name := range []string{"GetDatum", "RemoveDatum", "ExpireDatum", "AppendLabelValue"} {
		mf := c.MustFn("C08-R3", "internal/metrics.(*Metric)."+name)
		if mf == nil {
			continue
		}
		arityGuard(c, "C08-R3", mf)
	}
	c.Floor("C08-R3", 4)
}

// mxKeyOrigin decides where a map key comes from: "ok" with the tuple passed
// to buildLabelValueKey (nil when the key is a parameter built at the call
// sites), "fail" when some definition reaching the use is something else,
// "undecided" when it cannot be followed.
func mxKeyOrigin(c *core.Check, f *core.Func, key ast.Expr, at ast.Node, depth int) (status string, tuple ast.Expr, why string) {
	if t := mxKeyTuple(f, key, at); t != nil {
		return "ok", t, ""
	}
	r := mxResolveAt(f, key, at)
	v := mxLocalVar(f, r)
	if v == nil {
		return "fail", nil, "the key is " + nospace(exprStr(r))
	}
	if pi, isParam := mxPureParam(f, v); isParam {
		if depth > 2 || pi < 0 {
			return "undecided", nil, "the key is a parameter passed down several levels"
		}
		sites := mxCallSites(c.Prog, f)
		if len(sites) == 0 {
			return "undecided", nil, "the key is a parameter of a function without statically resolved callers"
		}
		for _, s := range sites {
			arg := mxArgFor(s.Call, f, pi)
			if arg == nil {
				return "undecided", nil, "argument for the key parameter not found at " + c.Prog.Position(s.Call.Pos())
			}
			if st, _, w := mxKeyOrigin(c, s.In, arg, s.Call, depth+1); st != "ok" {
				return st, nil, "at the call " + c.Prog.Position(s.Call.Pos()) + ": " + w
			}
		}
		return "ok", nil, ""
	}
	// several definitions reach the use: each must be a call of the encoder
	sites := mxReaching(f, v, at)
	if len(sites) == 0 {
		return "undecided", nil, "no definition of the key variable found"
	}
	for _, s := range sites {
		if s.opaque || s.n != 1 || s.rhs == nil {
			return "fail", nil, "the key variable " + v.Name() + " is not (only) assigned the result of buildLabelValueKey"
		}
		if call, ok := core.Unparen(s.rhs).(*ast.CallExpr); !ok || f.CalleeID(call) != buildKey {
			return "fail", nil, "the key variable " + v.Name() + " is assigned " + nospace(exprStr(s.rhs))
		}
	}
	return "ok", nil, ""
}

// parentAssign returns the assignment statement whose left-hand side is node n.
func parentAssign(f *core.Func, n ast.Node) *ast.AssignStmt {
	var res *ast.AssignStmt
	ast.Inspect(f.Body, func(m ast.Node) bool {
		if as, ok := m.(*ast.AssignStmt); ok {
			for _, l := range as.Lhs {
				if ast.Node(l) == n {
					res = as
				}
			}
		}
		return true
	})
	return res
}

// arityGuard checks that a tuple-taking method rejects a tuple of the wrong
// length before anything else: every lock call, key construction and access to
// the metric's map or slice lies behind a condition edge asserting
// len(tuple) == len(m.Keys) (if/else, early return, switch, negation, swapped
// operands, the key count in a local, or the error of a helper that makes the
// comparison are all the same edge), and every exit reachable without taking
// such an edge returns a non-nil error.
func arityGuard(c *core.Check, rule string, mf *core.Func) {
	g := mf.Graph()
	info := mf.Info()
	key := mf.Key + "|arity guard"
	match, mismatch, other := mxArityEdges(c, mf, 0)
	if len(match) == 0 {
		if other > 0 || len(mismatch) > 0 {
			c.Undecided(rule, key, pos(c, mf.Decl), "the tuple's length is compared with the key count in a form that is not recognised")
			return
		}
		c.Fail(rule, key, pos(c, mf.Decl), "no `len(tuple) != len(m.Keys)` guard: a tuple of the wrong length is stored or looked up (and keyed like a different tuple of the right length)")
		return
	}
	// touching events: lock calls, key construction, map/slice field uses
	touch := g.Find(func(n ast.Node) bool {
		switch x := n.(type) {
		case *ast.CallExpr:
			id := mf.CalleeID(x)
			return strings.HasPrefix(id, "sync.") || id == buildKey
		case *ast.SelectorExpr:
			if _, ok := mxIsField(info, x, "metrics.Metric", "labelValuesMap"); ok {
				return true
			}
			_, ok := mxIsField(info, x, "metrics.Metric", "LabelValues")
			return ok
		}
		return false
	})
	var tr []string
	touched := false
	for _, t := range touch {
		if w, reach := mxReachAvoiding(g, nil, t.P, match, nil); reach {
			touched, tr = true, w
			break
		}
	}
	okRet := true
	for _, ex := range normalExits(g) {
		if w, reach := mxReachAvoiding(g, nil, ex.P, match, nil); reach {
			if ex.Kind != "return" || returnsNil(info, ex.Ret) {
				okRet = false
				if tr == nil {
					tr = w
				}
			}
		}
	}
	var at ast.Node = match[0].Cond
	c.Verdict(!touched && okRet, rule, key, pos(c, at), "length compared before touching the metric; mismatch returns an error", "the metric is locked or its map/slice touched before (or despite) the arity comparison: a wrong-length tuple changes state", tr...)
}

// interpEncoder evaluates buildLabelValueKey's body on a concrete tuple with a
// small interpreter over the constructs the encoder family uses (string
// variables, ReplaceAll/Quote/Itoa(len), IndexByte/Index/Contains/HasPrefix/
// HasSuffix/len comparisons, if/else, builder writes, string +=).  ok is false
// if an unsupported construct is met.
func interpEncoder(f *core.Func, tuple []string) (res string, ok bool) {
	info := f.Info()
	defer func() {
		if r := recover(); r != nil {
			if os.Getenv("C08_DEBUG") != "" {
				fmt.Fprintln(os.Stderr, "interpEncoder:", r)
			}
			res, ok = "", false
		}
	}()
	type val = interface{}
	env := map[types.Object]val{}
	var out strings.Builder
	labels := info.Defs[f.Type.Params.List[0].Names[0]]
	var evalE func(e ast.Expr) val
	evalE = func(e ast.Expr) val {
		e = core.Unparen(e)
		if tv, has := info.Types[e]; has && tv.Value != nil {
			s := tv.Value.ExactString()
			if u, err := strconv.Unquote(s); err == nil {
				if b, isB := tv.Type.Underlying().(*types.Basic); isB && b.Info()&types.IsString != 0 {
					return u
				}
			}
			if n, err := strconv.ParseInt(s, 10, 64); err == nil {
				return int(n)
			}
			if s == "true" || s == "false" {
				return s == "true"
			}
			panic("const")
		}
		switch x := e.(type) {
		case *ast.Ident:
			if v, has := env[info.Uses[x]]; has {
				return v
			}
			panic("ident " + x.Name)
		case *ast.IndexExpr:
			if identObj(info, x.X) == labels {
				return tuple[evalE(x.Index).(int)]
			}
			if str, isStr := evalE(x.X).(string); isStr {
				return int(str[evalE(x.Index).(int)]) // a byte of a string
			}
			panic("index")
		case *ast.UnaryExpr:
			if x.Op == token.NOT {
				return !evalE(x.X).(bool)
			}
		case *ast.BinaryExpr:
			l, r := evalE(x.X), evalE(x.Y)
			switch lv := l.(type) {
			case string:
				rv := r.(string)
				switch x.Op {
				case token.ADD:
					return lv + rv
				case token.EQL:
					return lv == rv
				case token.NEQ:
					return lv != rv
				}
			case int:
				rv := r.(int)
				switch x.Op {
				case token.ADD:
					return lv + rv
				case token.SUB:
					return lv - rv
				case token.LSS:
					return lv < rv
				case token.LEQ:
					return lv <= rv
				case token.GTR:
					return lv > rv
				case token.GEQ:
					return lv >= rv
				case token.EQL:
					return lv == rv
				case token.NEQ:
					return lv != rv
				}
			case bool:
				rv := r.(bool)
				switch x.Op {
				case token.LAND:
					return lv && rv
				case token.LOR:
					return lv || rv
				}
			}
		case *ast.CallExpr:
			id := f.CalleeID(x)
			arg := func(i int) val { return evalE(x.Args[i]) }
			switch id {
			case "builtin.len":
				if identObj(info, x.Args[0]) == labels {
					return len(tuple)
				}
				return len(arg(0).(string))
			case "strings.ReplaceAll":
				return strings.ReplaceAll(arg(0).(string), arg(1).(string), arg(2).(string))
			case "strings.Replace":
				return strings.Replace(arg(0).(string), arg(1).(string), arg(2).(string), arg(3).(int))
			case "strconv.Quote":
				return strconv.Quote(arg(0).(string))
			case "strconv.Itoa":
				return strconv.Itoa(arg(0).(int))
			case "strings.IndexByte":
				return strings.IndexByte(arg(0).(string), byte(arg(1).(int)))
			case "strings.Index":
				return strings.Index(arg(0).(string), arg(1).(string))
			case "strings.Contains":
				return strings.Contains(arg(0).(string), arg(1).(string))
			case "strings.ContainsRune":
				return strings.ContainsRune(arg(0).(string), rune(arg(1).(int)))
			case "strings.HasPrefix":
				return strings.HasPrefix(arg(0).(string), arg(1).(string))
			case "strings.HasSuffix":
				return strings.HasSuffix(arg(0).(string), arg(1).(string))
			case "strings.Join":
				if identObj(info, x.Args[0]) == labels {
					return strings.Join(tuple, arg(1).(string))
				}
			case "strings.NewReplacer":
				return "replacer" // followed from its use
			case "strings.(*Replacer).Replace":
				if r := core.RecvExpr(x); r != nil {
					if nr, isC := mxResolveAt(f, r, x).(*ast.CallExpr); isC && f.CalleeID(nr) == "strings.NewReplacer" && !nr.Ellipsis.IsValid() && len(nr.Args)%2 == 0 {
						var flat []string
						for _, a := range nr.Args {
							flat = append(flat, evalE(a).(string))
						}
						return strings.NewReplacer(flat...).Replace(arg(0).(string))
					}
				}
			}
		}
		panic("unsupported expression " + exprStr(e))
	}
	ctl := "" // "continue" / "break" raised by a branch statement until the enclosing loop consumes it
	var execS func(stmts []ast.Stmt) (ret *string)
	execS = func(stmts []ast.Stmt) *string {
		for _, st := range stmts {
			if ctl != "" {
				return nil
			}
			switch s := st.(type) {
			case *ast.BranchStmt:
				if s.Label != nil {
					panic("labelled branch")
				}
				switch s.Tok {
				case token.CONTINUE:
					ctl = "continue"
				case token.BREAK:
					ctl = "break"
				default:
					panic("branch")
				}
				return nil
			case *ast.DeclStmt:
				// var buf strings.Builder / var s string
				if gd, isG := s.Decl.(*ast.GenDecl); isG {
					for _, sp := range gd.Specs {
						vs := sp.(*ast.ValueSpec)
						for i, nm := range vs.Names {
							if i < len(vs.Values) {
								env[info.Defs[nm]] = evalE(vs.Values[i])
							} else if b, isB := info.Defs[nm].Type().Underlying().(*types.Basic); isB && b.Info()&types.IsString != 0 {
								env[info.Defs[nm]] = ""
							}
						}
					}
				}
			case *ast.AssignStmt:
				if len(s.Lhs) != 1 || len(s.Rhs) != 1 {
					panic("assign")
				}
				o := identObj(info, s.Lhs[0])
				switch s.Tok {
				case token.DEFINE, token.ASSIGN:
					env[o] = evalE(s.Rhs[0])
				case token.ADD_ASSIGN:
					switch cur := env[o].(type) {
					case string:
						env[o] = cur + evalE(s.Rhs[0]).(string)
					case int:
						env[o] = cur + evalE(s.Rhs[0]).(int)
					default:
						panic("+=")
					}
				default:
					panic("assign op")
				}
			case *ast.IncDecStmt:
				o := identObj(info, s.X)
				if s.Tok == token.INC {
					env[o] = env[o].(int) + 1
				} else {
					env[o] = env[o].(int) - 1
				}
			case *ast.ExprStmt:
				call, isC := s.X.(*ast.CallExpr)
				if !isC {
					panic("expr stmt")
				}
				switch f.CalleeID(call) {
				case "strings.(*Builder).WriteString", "bytes.(*Buffer).WriteString":
					out.WriteString(evalE(call.Args[0]).(string))
				case "strings.(*Builder).WriteByte", "bytes.(*Buffer).WriteByte":
					out.WriteByte(byte(evalE(call.Args[0]).(int)))
				case "strings.(*Builder).WriteRune", "bytes.(*Buffer).WriteRune":
					out.WriteRune(rune(evalE(call.Args[0]).(int)))
				case "strings.(*Builder).Grow", "bytes.(*Buffer).Grow":
					// capacity hint: no effect on the result
				default:
					panic("call " + f.CalleeID(call))
				}
			case *ast.IfStmt:
				if s.Init != nil {
					execS([]ast.Stmt{s.Init})
				}
				if evalE(s.Cond).(bool) {
					if r := execS(s.Body.List); r != nil {
						return r
					}
				} else if s.Else != nil {
					switch el := s.Else.(type) {
					case *ast.BlockStmt:
						if r := execS(el.List); r != nil {
							return r
						}
					case *ast.IfStmt:
						if r := execS([]ast.Stmt{el}); r != nil {
							return r
						}
					}
				}
			case *ast.ForStmt:
				if s.Init != nil {
					execS([]ast.Stmt{s.Init})
				}
				for n := 0; n < 10000 && (s.Cond == nil || evalE(s.Cond).(bool)); n++ {
					if r := execS(s.Body.List); r != nil {
						return r
					}
					if ctl == "break" {
						ctl = ""
						break
					}
					ctl = ""
					if s.Post != nil {
						execS([]ast.Stmt{s.Post})
					}
				}
			case *ast.RangeStmt:
				if identObj(info, s.X) != labels {
					// a range over a string decodes it rune by rune (an invalid byte reads as U+FFFD)
					str, isStr := evalE(s.X).(string)
					if !isStr {
						panic("range")
					}
					for i, r := range str {
						if s.Key != nil && exprStr(s.Key) != "_" {
							env[identObj(info, s.Key)] = i
						}
						if s.Value != nil {
							env[identObj(info, s.Value)] = int(r)
						}
						if r := execS(s.Body.List); r != nil {
							return r
						}
						if ctl == "break" {
							ctl = ""
							break
						}
						ctl = ""
					}
					continue
				}
				for i, l := range tuple {
					if s.Key != nil && exprStr(s.Key) != "_" {
						env[identObj(info, s.Key)] = i
					}
					if s.Value != nil {
						env[identObj(info, s.Value)] = l
					}
					if r := execS(s.Body.List); r != nil {
						return r
					}
					if ctl == "break" {
						ctl = ""
						break
					}
					ctl = ""
				}
			case *ast.ReturnStmt:
				var r string
				isBuilderString := false
				if rc, isC := core.Unparen(s.Results[0]).(*ast.CallExpr); isC {
					id := f.CalleeID(rc)
					isBuilderString = id == "strings.(*Builder).String" || id == "bytes.(*Buffer).String"
				}
				if isBuilderString {
					r = out.String()
				} else {
					r = evalE(s.Results[0]).(string)
				}
				return &r
			default:
				panic("stmt")
			}
		}
		return nil
	}
	r := execS(f.Body.List)
	if r == nil {
		return "", false
	}
	return *r, true
}

// collisionSearch enumerates small same-arity tuples over the bytes mentioned
// in the encoder and evaluates the function body on them.
func collisionSearch(f *core.Func, seeds []string) (string, string) {
	alphaSet := map[string]bool{"a": true, "1": true, "2": true}
	// every character of every string/char constant in the function
	ast.Inspect(f.Body, func(n ast.Node) bool {
		if bl, ok := n.(*ast.BasicLit); ok && (bl.Kind == token.STRING || bl.Kind == token.CHAR) {
			var s string
			if bl.Kind == token.STRING {
				s, _ = strconv.Unquote(bl.Value)
			} else if r, _, _, err := strconv.UnquoteChar(bl.Value[1:len(bl.Value)-1], 39); err == nil {
				s = string(r)
			}
			for _, r := range s {
				alphaSet[string(r)] = true
			}
		}
		return true
	})
	for _, sd := range seeds {
		for _, r := range sd {
			alphaSet[string(r)] = true
		}
	}
	var alpha []string
	for k := range alphaSet {
		alpha = append(alpha, k)
	}
	sort.Strings(alpha)
	var strs []string
	var gen func(prefix string, n int)
	gen = func(prefix string, n int) {
		strs = append(strs, prefix)
		if n == 0 {
			return
		}
		for _, a := range alpha {
			gen(prefix+a, n-1)
		}
	}
	maxLen := 3
	if len(alpha) > 5 {
		maxLen = 2
	}
	gen("", maxLen)
	strs = append(strs, "abcdefghi2zz", "12abcdefghi", "zz")
	// labels are arbitrary byte strings (captured from log lines): two different invalid UTF-8 bytes, which an
	// encoder that goes through runes cannot tell apart
	strs = append(strs, "\xff", "\xfe", "a\xff", "a\xfe", "\uFFFD")
	// arity 3 over a reduced set: strings of length <= 2 over the characters the encoder mentions plus one ordinary
	// character (collisions that need a merge in one position to be offset by a split in another need three elements)
	var special []string
	for _, a := range alpha {
		if a != "1" && a != "2" {
			special = append(special, a)
		}
	}
	var strs3 []string
	strs3 = append(strs3, "")
	for _, a := range special {
		strs3 = append(strs3, a)
		for _, b := range special {
			strs3 = append(strs3, a+b)
		}
	}
	full := strs
	for arity := 1; arity <= 3; arity++ {
		strs := full
		if arity == 3 {
			strs = strs3
			if len(strs)*len(strs)*len(strs) > 400000 {
				break
			}
		}
		seen := map[string][]string{}
		found := ""
		bad := false
		var rec func(cur []string)
		rec = func(cur []string) {
			if found != "" || bad {
				return
			}
			if len(cur) == arity {
				k, ok := interpEncoder(f, cur)
				if !ok {
					bad = true
					return
				}
				if prev, dup := seen[k]; dup {
					if strings.Join(prev, "\x00") != strings.Join(cur, "\x00") {
						found = fmt.Sprintf("%q and %q both encode to %q", prev, cur, k)
					}
					return
				}
				seen[k] = append([]string{}, cur...)
				return
			}
			for _, s := range strs {
				rec(append(cur, s))
			}
		}
		rec(nil)
		if bad {
			return "", "encoder body uses constructs the interpreter does not support"
		}
		if found != "" {
			return found, "collision"
		}
	}
	return "", fmt.Sprintf("no collision among tuples of arity 1-2 over %d strings and arity 3 over %d strings", len(strs), len(strs3))
}

// keyInjective decides, under the given rule id, that buildLabelValueKey is an
// injective encoding of label tuples (shared by C08 and C09).
func keyInjective(c *core.Check, rule string) {
	f := c.MustFn(rule, buildKey)
	if f == nil {
		return
	}
	c.Rule(rule, "INJECTIVE: the extracted encoder is a uniquely decodable code (Sardinas–Patterson), hence distinct tuples get distinct keys for every arity; otherwise a colliding pair of same-arity tuples is exhibited")
	terms, why := extractEncoder(f)
	if why != "" {
		// the one-pass, byte-by-byte spelling of the same encoder family
		if t2, ok := extractByteEscape(f); ok {
			terms, why = t2, ""
		}
	}
	if why != "" {
		// not a uniform per-element term: search for a collision with the interpreter over the function body
		if msg, status := collisionSearch(f, nil); status == "collision" {
			c.Fail(rule, buildKey+"|uniquely decodable", pos(c, f.Decl), "the key encoder is not injective: label tuples "+msg+" — they address the same datum; creating, finding, expiring or deleting one touches the other")
		} else {
			c.Undecided(rule, buildKey+"|shape", pos(c, f.Decl), "encoder not in a recognised family ("+why+") and the bounded search found no collision ("+status+")")
		}
	} else {
		var desc []string
		morph := true
		var elemTerm encTerm
		sep := ""
		nelem := 0
		for i, t := range terms {
			switch t.kind {
			case "lit":
				desc = append(desc, strconv.Quote(t.lit))
				if i == len(terms)-1 {
					sep = t.lit
				} else {
					morph = false
				}
			case "elem":
				nelem++
				elemTerm = t
				d := "elem"
				for _, s := range t.steps {
					d += fmt.Sprintf(".replace(%q→%q)", s[0], s[1])
					if len(s[0]) != 1 {
						morph = false
					}
				}
				desc = append(desc, d)
				if i != 0 {
					morph = false
				}
			default:
				desc = append(desc, t.kind)
				morph = false
			}
		}
		if nelem != 1 || sep == "" {
			morph = false
		}
		c.Extra["encoder"] = strings.Join(desc, " + ")
		c.Ok(rule, buildKey+"|extracted", pos(c, f.Decl), "per element: "+strings.Join(desc, " + "))
		proved := false
		if morph {
			// alphabet: bytes occurring in any step or the separator, plus a representative
			alpha := map[byte]bool{'a': true}
			for _, s := range elemTerm.steps {
				for i := 0; i < len(s[0]); i++ {
					alpha[s[0][i]] = true
				}
				for i := 0; i < len(s[1]); i++ {
					alpha[s[1][i]] = true
				}
			}
			for i := 0; i < len(sep); i++ {
				alpha[sep[i]] = true
			}
			var code []string
			var table []string
			var bs []int
			for b := range alpha {
				bs = append(bs, int(b))
			}
			sort.Ints(bs)
			for _, b := range bs {
				w := applySteps(string([]byte{byte(b)}), elemTerm)
				code = append(code, w)
				table = append(table, fmt.Sprintf("h(%q)=%q", string([]byte{byte(b)}), w))
			}
			code = append(code, sep)
			table = append(table, fmt.Sprintf("h(#)=%q", sep))
			c.Extra["code_words"] = table
			ud, dangling := sardinasPatterson(code)
			proved = ud
			if ud {
				c.Ok(rule, buildKey+"|uniquely decodable", pos(c, f.Decl), "Sardinas–Patterson: no dangling suffix is a code word; code = "+strings.Join(table, ", "))
			} else {
				c.Extra["dangling_suffix"] = dangling
			}
		}
		if !proved {
			var seeds []string
			for _, t := range terms {
				for _, st := range t.steps {
					seeds = append(seeds, st[0], st[1])
				}
				seeds = append(seeds, t.lit)
			}
			if msg, status := collisionSearch(f, seeds); status == "collision" {
				c.Fail(rule, buildKey+"|uniquely decodable", pos(c, f.Decl), "the key encoder is not injective: label tuples "+msg+" — they address the same datum; creating, finding, expiring or deleting one touches the other")
			} else {
				c.Undecided(rule, buildKey+"|uniquely decodable", pos(c, f.Decl), "unique decodability not established and no collision found in the bounded search ("+status+")")
			}
		}
	}
	c.Floor(rule, 2)
}
