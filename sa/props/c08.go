package props

import (
	"fmt"
	"go/ast"
	"go/token"
	"go/types"
	"sort"
	"strconv"
	"strings"

	"verif/sa/core"
)

func init() { register("C08", c08) }

const buildKey = "internal/metrics.buildLabelValueKey"

// encTerm is one piece written per element.
type encTerm struct {
	kind  string      // "lit", "elem", "lenprefix", "quote"
	lit   string      // for lit
	steps [][2]string // for elem: ReplaceAll(old,new) chain, applied in order
}

// extractEncoder recognises buildLabelValueKey as `for each element: write terms`.
func extractEncoder(f *core.Func) (terms []encTerm, why string) {
	info := f.Info()
	if len(f.Type.Params.List) != 1 {
		return nil, "unexpected parameters"
	}
	labels := info.Defs[f.Type.Params.List[0].Names[0]]
	var loop ast.Stmt
	var body *ast.BlockStmt
	var elemIs func(e ast.Expr) bool
	for _, st := range f.Body.List {
		switch s := st.(type) {
		case *ast.ForStmt:
			loop, body = s, s.Body
			// for i := 0; i < len(labels); i++
			var iv types.Object
			if as, ok := s.Init.(*ast.AssignStmt); ok && len(as.Lhs) == 1 {
				iv = identObj(info, as.Lhs[0])
				if v, ok := constInt(info, as.Rhs[0]); !ok || v != 0 {
					return nil, "loop does not start at 0"
				}
			}
			cond := nospace(exprStr(s.Cond))
			if iv == nil || cond != iv.Name()+"<len("+labels.Name()+")" {
				return nil, "loop bound is not i < len(labels): " + cond
			}
			if inc, ok := s.Post.(*ast.IncDecStmt); !ok || inc.Tok != token.INC {
				return nil, "loop step is not i++"
			}
			elemIs = func(e ast.Expr) bool {
				ix, ok := core.Unparen(e).(*ast.IndexExpr)
				return ok && identObj(info, ix.X) == labels && identObj(info, ix.Index) == iv
			}
		case *ast.RangeStmt:
			loop, body = s, s.Body
			if identObj(info, s.X) != labels || s.Value == nil {
				return nil, "range is not over the labels with a value variable"
			}
			vv := identObj(info, s.Value)
			elemIs = func(e ast.Expr) bool { return identObj(info, e) == vv && vv != nil }
		}
	}
	if loop == nil {
		return nil, "no loop over the labels"
	}
	// statements outside the loop may only declare the builder and return its string
	for _, st := range f.Body.List {
		switch s := st.(type) {
		case *ast.DeclStmt, *ast.ForStmt, *ast.RangeStmt:
		case *ast.ReturnStmt:
			r := nospace(exprStr(s.Results[0]))
			if !strings.HasSuffix(r, ".String()") {
				return nil, "result is not the builder's string: " + r
			}
		case *ast.AssignStmt:
			// allow `var`-like initialisations of the builder
		default:
			return nil, "unrecognised statement outside the loop"
		}
	}
	env := map[types.Object][]encTerm{}
	var evalStr func(e ast.Expr) ([]encTerm, string)
	evalStr = func(e ast.Expr) ([]encTerm, string) {
		e = core.Unparen(e)
		if tv, ok := info.Types[e]; ok && tv.Value != nil {
			s, err := strconv.Unquote(tv.Value.ExactString())
			if err != nil {
				return nil, "constant not a string"
			}
			return []encTerm{{kind: "lit", lit: s}}, ""
		}
		if elemIs(e) {
			return []encTerm{{kind: "elem"}}, ""
		}
		if o := identObj(info, e); o != nil {
			if t, ok := env[o]; ok {
				return t, ""
			}
		}
		switch x := e.(type) {
		case *ast.BinaryExpr:
			if x.Op == token.ADD {
				l, w := evalStr(x.X)
				if w != "" {
					return nil, w
				}
				r, w := evalStr(x.Y)
				if w != "" {
					return nil, w
				}
				return append(append([]encTerm{}, l...), r...), ""
			}
		case *ast.CallExpr:
			switch f.CalleeID(x) {
			case "strings.ReplaceAll":
				in, w := evalStr(x.Args[0])
				if w != "" {
					return nil, w
				}
				if len(in) != 1 || in[0].kind != "elem" {
					return nil, "ReplaceAll applied to something other than the element"
				}
				o, w1 := evalStr(x.Args[1])
				n, w2 := evalStr(x.Args[2])
				if w1 != "" || w2 != "" || len(o) != 1 || len(n) != 1 || o[0].kind != "lit" || n[0].kind != "lit" {
					return nil, "ReplaceAll with non-constant arguments"
				}
				t := encTerm{kind: "elem", steps: append(append([][2]string{}, in[0].steps...), [2]string{o[0].lit, n[0].lit})}
				return []encTerm{t}, ""
			case "strconv.Quote":
				in, w := evalStr(x.Args[0])
				if w != "" || len(in) != 1 || in[0].kind != "elem" || len(in[0].steps) != 0 {
					return nil, "Quote of something other than the plain element"
				}
				return []encTerm{{kind: "quote"}}, ""
			case "strconv.Itoa":
				if lc, ok := core.Unparen(x.Args[0]).(*ast.CallExpr); ok && f.CalleeID(lc) == "builtin.len" && elemIs(lc.Args[0]) {
					return []encTerm{{kind: "lenprefix"}}, ""
				}
			}
		}
		return nil, "unrecognised string expression " + exprStr(e)
	}
	for _, st := range body.List {
		switch s := st.(type) {
		case *ast.AssignStmt:
			if len(s.Lhs) != 1 || len(s.Rhs) != 1 {
				return nil, "unrecognised assignment"
			}
			t, w := evalStr(s.Rhs[0])
			if w != "" {
				return nil, w
			}
			env[identObj(info, s.Lhs[0])] = t
		case *ast.ExprStmt:
			call, ok := s.X.(*ast.CallExpr)
			if !ok {
				return nil, "unrecognised statement in the loop"
			}
			id := f.CalleeID(call)
			if id != "strings.(*Builder).WriteString" && id != "bytes.(*Buffer).WriteString" {
				return nil, "unrecognised call in the loop: " + id
			}
			t, w := evalStr(call.Args[0])
			if w != "" {
				return nil, w
			}
			terms = append(terms, t...)
		default:
			return nil, "the loop body contains control flow (conditional encoding): not a uniform per-element encoder"
		}
	}
	return terms, ""
}

// applySteps applies a ReplaceAll chain to s.
func applySteps(s string, steps [][2]string) string {
	for _, st := range steps {
		s = strings.ReplaceAll(s, st[0], st[1])
	}
	return s
}

// encodeTuple evaluates the extracted encoder on a tuple.
func encodeTuple(terms []encTerm, tuple []string) string {
	var b strings.Builder
	for _, l := range tuple {
		for _, t := range terms {
			switch t.kind {
			case "lit":
				b.WriteString(t.lit)
			case "elem":
				b.WriteString(applySteps(l, t.steps))
			case "quote":
				b.WriteString(strconv.Quote(l))
			case "lenprefix":
				b.WriteString(strconv.Itoa(len(l)))
			}
		}
	}
	return b.String()
}

// sardinasPatterson decides unique decodability of a finite code; on failure it returns a dangling suffix that is a code word.
func sardinasPatterson(code []string) (bool, string) {
	words := map[string]bool{}
	for _, w := range code {
		if w == "" {
			return false, "(empty code word)"
		}
		if words[w] {
			return false, "(duplicate code word " + strconv.Quote(w) + ")"
		}
		words[w] = true
	}
	quot := func(a, b map[string]bool) map[string]bool { // a^-1 b = { y : xy in b, x in a }
		out := map[string]bool{}
		for x := range a {
			for y := range b {
				if strings.HasPrefix(y, x) {
					out[y[len(x):]] = true
				}
			}
		}
		return out
	}
	s := quot(words, words)
	delete(s, "")
	seen := map[string]bool{}
	for iter := 0; iter < 10000; iter++ {
		for w := range s {
			if words[w] {
				return false, w
			}
		}
		var ks []string
		for k := range s {
			ks = append(ks, k)
		}
		sort.Strings(ks)
		sig := strings.Join(ks, "\x00")
		if seen[sig] || len(s) == 0 {
			return true, ""
		}
		seen[sig] = true
		n := quot(words, s)
		for k := range quot(s, words) {
			n[k] = true
		}
		s = n
	}
	return false, "(no fixpoint)"
}

func c08(c *core.Check) {
	c.Level = "proof"
	c.Explain = "Injectivity of the label-tuple key, decided from /repo's current source.  The body of buildLabelValueKey is extracted as a per-element encoder (constants, the element under a chain of strings.ReplaceAll, strconv.Quote, a decimal length prefix).  When every term is a constant or the element under single-byte replacements followed by a constant terminator, the encoder is a monoid morphism h on the byte alphabet extended with an element-terminator symbol, and tuple encoding is injective for all arities iff the code {h(c)} is uniquely decodable — decided exactly by the Sardinas–Patterson algorithm over the finite set of bytes occurring in code words plus one representative ordinary byte (all other bytes are their own code word and occur in no other).  A failing test is turned into two distinct same-arity tuples with equal keys by a bounded search on the extracted encoder; that pair is the violation.  Encoders outside the morphism family are searched the same way (violation if a collision exists) and are otherwise undecided.  (R2) every access to labelValuesMap uses a key built by buildLabelValueKey from the tuple that is stored or looked up, and only metric.go touches the map and the slice; (R3) every tuple-taking method compares the tuple's length with the key count before anything else."
	c.Assume = append(c.Assume, "strings.ReplaceAll with single-byte old strings is a byte-wise morphism (holds for invalid UTF-8 too)", "Go map lookup by string key is exact")
	keyInjective(c, "C08-R1")

	c.Rule("C08-R2", "ONE-KEYING: every index, store or delete on labelValuesMap uses a key that is the direct result of buildLabelValueKey applied to the tuple being stored/looked up; labelValuesMap and LabelValues are not written outside metric.go; a stored LabelValue's Labels is the tuple the key was built from")
	n2 := 0
	for _, sf := range shipped(c) {
		info := sf.Info()
		ast.Inspect(sf.Body, func(n ast.Node) bool {
			var keyExpr ast.Expr
			var at ast.Node
			switch x := n.(type) {
			case *ast.IndexExpr:
				if sel, ok := core.Unparen(x.X).(*ast.SelectorExpr); ok && sel.Sel.Name == "labelValuesMap" {
					keyExpr, at = x.Index, x
				}
			case *ast.CallExpr:
				if sf.CalleeID(x) == "builtin.delete" {
					if sel, ok := core.Unparen(x.Args[0]).(*ast.SelectorExpr); ok && sel.Sel.Name == "labelValuesMap" {
						keyExpr, at = x.Args[1], x
					}
				}
			}
			if keyExpr == nil {
				return true
			}
			n2++
			c.Analysed(sf)
			file := c.Prog.Fset.Position(at.Pos()).Filename
			if !strings.HasSuffix(file, "internal/metrics/metric.go") {
				c.Fail("C08-R2", sf.Key+"|map access outside metric.go", pos(c, at), "labelValuesMap is accessed outside metric.go: the keying discipline cannot be checked there")
				return true
			}
			// key must be an identifier defined once as buildLabelValueKey(X)
			ko := identObj(info, keyExpr)
			var arg ast.Expr
			if ko != nil {
				ast.Inspect(sf.Body, func(m ast.Node) bool {
					if as, ok := m.(*ast.AssignStmt); ok && len(as.Lhs) == 1 && identObj(info, as.Lhs[0]) == ko {
						if call, ok := core.Unparen(as.Rhs[0]).(*ast.CallExpr); ok && sf.CalleeID(call) == buildKey {
							arg = call.Args[0]
						}
					}
					return true
				})
			} else if call, ok := core.Unparen(keyExpr).(*ast.CallExpr); ok && sf.CalleeID(call) == buildKey {
				arg = call.Args[0]
			}
			key := fmt.Sprintf("%s|map access #%d", sf.Key, n2)
			if arg == nil {
				c.Fail("C08-R2", key, pos(c, at), "labelValuesMap is accessed with a key that is not the result of buildLabelValueKey: entries become unreachable or alias")
				return true
			}
			// for stores m.labelValuesMap[k] = lv: arg must be lv.Labels
			okTuple := true
			if par := parentAssign(sf, at); par != nil {
				rhs := identObj(info, par.Rhs[0])
				want := ""
				if rhs != nil {
					want = rhs.Name() + ".Labels"
				}
				okTuple = core.PathOf(arg) == want
			}
			c.Verdict(okTuple, "C08-R2", key, pos(c, at), "key = buildLabelValueKey("+exprStr(arg)+")", "the map key is built from "+exprStr(arg)+", not from the Labels of the value being stored: the entry is filed under another tuple's key")
			return true
		})
		// writers of the fields elsewhere
		for _, fld := range []string{"labelValuesMap", "LabelValues"} {
			core.InspectNoLit(sf.Body, func(n ast.Node) bool {
				as, ok := n.(*ast.AssignStmt)
				if !ok {
					return true
				}
				for _, l := range as.Lhs {
					if sel, ok := core.Unparen(l).(*ast.SelectorExpr); ok && sel.Sel.Name == fld {
						if s := sf.Info().Selections[sel]; s != nil && strings.HasSuffix(s.Recv().String(), "metrics.Metric") {
							file := c.Prog.Fset.Position(as.Pos()).Filename
							if !strings.HasSuffix(file, "internal/metrics/metric.go") {
								c.Fail("C08-R2", sf.Key+"|writes "+fld, pos(c, as), fld+" of a metric is assigned outside metric.go, bypassing the paired slice/map update")
							}
						}
					}
				}
				return true
			})
		}
	}
	c.Floor("C08-R2", 4)

	c.Rule("C08-R3", "ARITY: GetDatum, RemoveDatum, ExpireDatum and AppendLabelValue compare the tuple length with len(m.Keys) and return an error, before locking and before any access to the map or slice")
	for _, name := range []string{"GetDatum", "RemoveDatum", "ExpireDatum", "AppendLabelValue"} {
		mf := c.MustFn("C08-R3", "internal/metrics.(*Metric)."+name)
		if mf == nil {
			continue
		}
		arityGuard(c, "C08-R3", mf)
	}
	c.Floor("C08-R3", 4)
}

// parentAssign returns the assignment statement whose left-hand side is node n.
func parentAssign(f *core.Func, n ast.Node) *ast.AssignStmt {
	var res *ast.AssignStmt
	ast.Inspect(f.Body, func(m ast.Node) bool {
		if as, ok := m.(*ast.AssignStmt); ok {
			for _, l := range as.Lhs {
				if ast.Node(l) == n {
					res = as
				}
			}
		}
		return true
	})
	return res
}

// arityGuard checks that the first statement of f is `if len(X) != len(m.Keys) { return …error }` and that nothing touching the metric precedes it.
func arityGuard(c *core.Check, rule string, mf *core.Func) {
	g := mf.Graph()
	guards := ifsWhere(mf, func(is *ast.IfStmt) bool {
		s := nospace(exprStr(is.Cond))
		return strings.HasPrefix(s, "len(") && strings.Contains(s, "!=len(") && strings.HasSuffix(s, ".Keys)")
	})
	if len(guards) == 0 {
		c.Fail(rule, mf.Key+"|arity guard", pos(c, mf.Decl), "no `len(tuple) != len(m.Keys)` guard: a tuple of the wrong length is stored or looked up (and keyed like a different tuple of the right length)")
		return
	}
	var conds []core.Point
	for _, is := range guards {
		if p, ok := g.PointOf(is.Cond); ok {
			conds = append(conds, p)
		}
	}
	// touching events: lock calls, map/slice field uses
	touch := g.Find(func(n ast.Node) bool {
		switch x := n.(type) {
		case *ast.CallExpr:
			id := mf.CalleeID(x)
			return strings.HasPrefix(id, "sync.") || id == buildKey
		case *ast.SelectorExpr:
			return x.Sel.Name == "labelValuesMap" || x.Sel.Name == "LabelValues"
		}
		return false
	})
	tr, found := pathAvoiding(g, nil, core.HitPoints(touch), conds)
	okRet := true
	for _, is := range guards {
		if start, ok := branchStart(g, is, true); ok {
			if _, f2 := pathAvoiding(g, start, core.HitPoints(touch), nil); f2 {
				okRet = false
			}
			// must return a non-nil error
			retErr := false
			for _, st := range is.Body.List {
				if r, ok := st.(*ast.ReturnStmt); ok && !returnsNil(mf.Info(), r) {
					retErr = true
				}
			}
			okRet = okRet && retErr
		}
	}
	c.Verdict(!found && okRet, rule, mf.Key+"|arity guard", pos(c, guards[0]), "length compared before touching the metric; mismatch returns an error", "the metric is locked or its map/slice touched before (or despite) the arity comparison: a wrong-length tuple changes state", tr...)
}

// interpEncoder evaluates buildLabelValueKey's body on a concrete tuple with a
// small interpreter over the constructs the encoder family uses (string
// variables, ReplaceAll/Quote/Itoa(len), IndexByte/Index/Contains/HasPrefix/
// HasSuffix/len comparisons, if/else, builder writes, string +=).  ok is false
// if an unsupported construct is met.
func interpEncoder(f *core.Func, tuple []string) (res string, ok bool) {
	info := f.Info()
	defer func() {
		if r := recover(); r != nil {
			res, ok = "", false
		}
	}()
	type val = interface{}
	env := map[types.Object]val{}
	var out strings.Builder
	labels := info.Defs[f.Type.Params.List[0].Names[0]]
	var evalE func(e ast.Expr) val
	evalE = func(e ast.Expr) val {
		e = core.Unparen(e)
		if tv, has := info.Types[e]; has && tv.Value != nil {
			s := tv.Value.ExactString()
			if u, err := strconv.Unquote(s); err == nil {
				if b, isB := tv.Type.Underlying().(*types.Basic); isB && b.Info()&types.IsString != 0 {
					return u
				}
			}
			if n, err := strconv.ParseInt(s, 10, 64); err == nil {
				return int(n)
			}
			if s == "true" || s == "false" {
				return s == "true"
			}
			panic("const")
		}
		switch x := e.(type) {
		case *ast.Ident:
			if v, has := env[info.Uses[x]]; has {
				return v
			}
			panic("ident " + x.Name)
		case *ast.IndexExpr:
			if identObj(info, x.X) == labels {
				return tuple[evalE(x.Index).(int)]
			}
			panic("index")
		case *ast.UnaryExpr:
			if x.Op == token.NOT {
				return !evalE(x.X).(bool)
			}
		case *ast.BinaryExpr:
			l, r := evalE(x.X), evalE(x.Y)
			switch lv := l.(type) {
			case string:
				rv := r.(string)
				switch x.Op {
				case token.ADD:
					return lv + rv
				case token.EQL:
					return lv == rv
				case token.NEQ:
					return lv != rv
				}
			case int:
				rv := r.(int)
				switch x.Op {
				case token.ADD:
					return lv + rv
				case token.SUB:
					return lv - rv
				case token.LSS:
					return lv < rv
				case token.LEQ:
					return lv <= rv
				case token.GTR:
					return lv > rv
				case token.GEQ:
					return lv >= rv
				case token.EQL:
					return lv == rv
				case token.NEQ:
					return lv != rv
				}
			case bool:
				rv := r.(bool)
				switch x.Op {
				case token.LAND:
					return lv && rv
				case token.LOR:
					return lv || rv
				}
			}
		case *ast.CallExpr:
			id := f.CalleeID(x)
			arg := func(i int) val { return evalE(x.Args[i]) }
			switch id {
			case "builtin.len":
				if identObj(info, x.Args[0]) == labels {
					return len(tuple)
				}
				return len(arg(0).(string))
			case "strings.ReplaceAll":
				return strings.ReplaceAll(arg(0).(string), arg(1).(string), arg(2).(string))
			case "strings.Replace":
				return strings.Replace(arg(0).(string), arg(1).(string), arg(2).(string), arg(3).(int))
			case "strconv.Quote":
				return strconv.Quote(arg(0).(string))
			case "strconv.Itoa":
				return strconv.Itoa(arg(0).(int))
			case "strings.IndexByte":
				return strings.IndexByte(arg(0).(string), byte(arg(1).(int)))
			case "strings.Index":
				return strings.Index(arg(0).(string), arg(1).(string))
			case "strings.Contains":
				return strings.Contains(arg(0).(string), arg(1).(string))
			case "strings.ContainsRune":
				return strings.ContainsRune(arg(0).(string), rune(arg(1).(int)))
			case "strings.HasPrefix":
				return strings.HasPrefix(arg(0).(string), arg(1).(string))
			case "strings.HasSuffix":
				return strings.HasSuffix(arg(0).(string), arg(1).(string))
			case "strings.Join":
				if identObj(info, x.Args[0]) == labels {
					return strings.Join(tuple, arg(1).(string))
				}
			}
		}
		panic("unsupported expression " + exprStr(e))
	}
	var execS func(stmts []ast.Stmt) (ret *string)
	execS = func(stmts []ast.Stmt) *string {
		for _, st := range stmts {
			switch s := st.(type) {
			case *ast.DeclStmt:
				// var buf strings.Builder / var s string
				if gd, isG := s.Decl.(*ast.GenDecl); isG {
					for _, sp := range gd.Specs {
						vs := sp.(*ast.ValueSpec)
						for i, nm := range vs.Names {
							if i < len(vs.Values) {
								env[info.Defs[nm]] = evalE(vs.Values[i])
							} else if b, isB := info.Defs[nm].Type().Underlying().(*types.Basic); isB && b.Info()&types.IsString != 0 {
								env[info.Defs[nm]] = ""
							}
						}
					}
				}
			case *ast.AssignStmt:
				if len(s.Lhs) != 1 || len(s.Rhs) != 1 {
					panic("assign")
				}
				o := identObj(info, s.Lhs[0])
				switch s.Tok {
				case token.DEFINE, token.ASSIGN:
					env[o] = evalE(s.Rhs[0])
				case token.ADD_ASSIGN:
					switch cur := env[o].(type) {
					case string:
						env[o] = cur + evalE(s.Rhs[0]).(string)
					case int:
						env[o] = cur + evalE(s.Rhs[0]).(int)
					default:
						panic("+=")
					}
				default:
					panic("assign op")
				}
			case *ast.IncDecStmt:
				o := identObj(info, s.X)
				if s.Tok == token.INC {
					env[o] = env[o].(int) + 1
				} else {
					env[o] = env[o].(int) - 1
				}
			case *ast.ExprStmt:
				call, isC := s.X.(*ast.CallExpr)
				if !isC {
					panic("expr stmt")
				}
				switch f.CalleeID(call) {
				case "strings.(*Builder).WriteString", "bytes.(*Buffer).WriteString":
					out.WriteString(evalE(call.Args[0]).(string))
				case "strings.(*Builder).WriteByte", "bytes.(*Buffer).WriteByte":
					out.WriteByte(byte(evalE(call.Args[0]).(int)))
				case "strings.(*Builder).WriteRune", "bytes.(*Buffer).WriteRune":
					out.WriteRune(rune(evalE(call.Args[0]).(int)))
				default:
					panic("call " + f.CalleeID(call))
				}
			case *ast.IfStmt:
				if s.Init != nil {
					execS([]ast.Stmt{s.Init})
				}
				if evalE(s.Cond).(bool) {
					if r := execS(s.Body.List); r != nil {
						return r
					}
				} else if s.Else != nil {
					switch el := s.Else.(type) {
					case *ast.BlockStmt:
						if r := execS(el.List); r != nil {
							return r
						}
					case *ast.IfStmt:
						if r := execS([]ast.Stmt{el}); r != nil {
							return r
						}
					}
				}
			case *ast.ForStmt:
				if s.Init != nil {
					execS([]ast.Stmt{s.Init})
				}
				for n := 0; n < 10000 && (s.Cond == nil || evalE(s.Cond).(bool)); n++ {
					if r := execS(s.Body.List); r != nil {
						return r
					}
					if s.Post != nil {
						execS([]ast.Stmt{s.Post})
					}
				}
			case *ast.RangeStmt:
				if identObj(info, s.X) != labels {
					panic("range")
				}
				for i, l := range tuple {
					if s.Key != nil && exprStr(s.Key) != "_" {
						env[identObj(info, s.Key)] = i
					}
					if s.Value != nil {
						env[identObj(info, s.Value)] = l
					}
					if r := execS(s.Body.List); r != nil {
						return r
					}
				}
			case *ast.ReturnStmt:
				var r string
				rs := nospace(exprStr(s.Results[0]))
				if strings.HasSuffix(rs, ".String()") {
					r = out.String()
				} else {
					r = evalE(s.Results[0]).(string)
				}
				return &r
			default:
				panic("stmt")
			}
		}
		return nil
	}
	r := execS(f.Body.List)
	if r == nil {
		return "", false
	}
	return *r, true
}

// collisionSearch enumerates small same-arity tuples over the bytes mentioned
// in the encoder and evaluates the function body on them.
func collisionSearch(f *core.Func, seeds []string) (string, string) {
	alphaSet := map[string]bool{"a": true, "1": true, "2": true}
	// every character of every string/char constant in the function
	ast.Inspect(f.Body, func(n ast.Node) bool {
		if bl, ok := n.(*ast.BasicLit); ok && (bl.Kind == token.STRING || bl.Kind == token.CHAR) {
			var s string
			if bl.Kind == token.STRING {
				s, _ = strconv.Unquote(bl.Value)
			} else if r, _, _, err := strconv.UnquoteChar(bl.Value[1:len(bl.Value)-1], 39); err == nil {
				s = string(r)
			}
			for _, r := range s {
				alphaSet[string(r)] = true
			}
		}
		return true
	})
	for _, sd := range seeds {
		for _, r := range sd {
			alphaSet[string(r)] = true
		}
	}
	var alpha []string
	for k := range alphaSet {
		alpha = append(alpha, k)
	}
	sort.Strings(alpha)
	var strs []string
	var gen func(prefix string, n int)
	gen = func(prefix string, n int) {
		strs = append(strs, prefix)
		if n == 0 {
			return
		}
		for _, a := range alpha {
			gen(prefix+a, n-1)
		}
	}
	maxLen := 3
	if len(alpha) > 5 {
		maxLen = 2
	}
	gen("", maxLen)
	strs = append(strs, "abcdefghi2zz", "12abcdefghi", "zz")
	for arity := 1; arity <= 2; arity++ {
		seen := map[string][]string{}
		found := ""
		bad := false
		var rec func(cur []string)
		rec = func(cur []string) {
			if found != "" || bad {
				return
			}
			if len(cur) == arity {
				k, ok := interpEncoder(f, cur)
				if !ok {
					bad = true
					return
				}
				if prev, dup := seen[k]; dup {
					if strings.Join(prev, "\x00") != strings.Join(cur, "\x00") {
						found = fmt.Sprintf("%q and %q both encode to %q", prev, cur, k)
					}
					return
				}
				seen[k] = append([]string{}, cur...)
				return
			}
			for _, s := range strs {
				rec(append(cur, s))
			}
		}
		rec(nil)
		if bad {
			return "", "encoder body uses constructs the interpreter does not support"
		}
		if found != "" {
			return found, "collision"
		}
	}
	return "", fmt.Sprintf("no collision among tuples of arity 1-2 over %d strings", len(strs))
}

// keyInjective decides, under the given rule id, that buildLabelValueKey is an
// injective encoding of label tuples (shared by C08 and C09).
func keyInjective(c *core.Check, rule string) {
	f := c.MustFn(rule, buildKey)
	if f == nil {
		return
	}
	c.Rule(rule, "INJECTIVE: the extracted encoder is a uniquely decodable code (Sardinas–Patterson), hence distinct tuples get distinct keys for every arity; otherwise a colliding pair of same-arity tuples is exhibited")
	terms, why := extractEncoder(f)
	if why != "" {
		// not a uniform per-element term: search for a collision with the interpreter over the function body
		if msg, status := collisionSearch(f, nil); status == "collision" {
			c.Fail(rule, buildKey+"|uniquely decodable", pos(c, f.Decl), "the key encoder is not injective: label tuples "+msg+" — they address the same datum; creating, finding, expiring or deleting one touches the other")
		} else {
			c.Undecided(rule, buildKey+"|shape", pos(c, f.Decl), "encoder not in a recognised family ("+why+") and the bounded search found no collision ("+status+")")
		}
	} else {
		var desc []string
		morph := true
		var elemSteps [][2]string
		sep := ""
		nelem := 0
		for i, t := range terms {
			switch t.kind {
			case "lit":
				desc = append(desc, strconv.Quote(t.lit))
				if i == len(terms)-1 {
					sep = t.lit
				} else {
					morph = false
				}
			case "elem":
				nelem++
				elemSteps = t.steps
				d := "elem"
				for _, s := range t.steps {
					d += fmt.Sprintf(".replace(%q→%q)", s[0], s[1])
					if len(s[0]) != 1 {
						morph = false
					}
				}
				desc = append(desc, d)
				if i != 0 {
					morph = false
				}
			default:
				desc = append(desc, t.kind)
				morph = false
			}
		}
		if nelem != 1 || sep == "" {
			morph = false
		}
		c.Extra["encoder"] = strings.Join(desc, " + ")
		c.Ok(rule, buildKey+"|extracted", pos(c, f.Decl), "per element: "+strings.Join(desc, " + "))
		proved := false
		if morph {
			// alphabet: bytes occurring in any step or the separator, plus a representative
			alpha := map[byte]bool{'a': true}
			for _, s := range elemSteps {
				for i := 0; i < len(s[0]); i++ {
					alpha[s[0][i]] = true
				}
				for i := 0; i < len(s[1]); i++ {
					alpha[s[1][i]] = true
				}
			}
			for i := 0; i < len(sep); i++ {
				alpha[sep[i]] = true
			}
			var code []string
			var table []string
			var bs []int
			for b := range alpha {
				bs = append(bs, int(b))
			}
			sort.Ints(bs)
			for _, b := range bs {
				w := applySteps(string([]byte{byte(b)}), elemSteps)
				code = append(code, w)
				table = append(table, fmt.Sprintf("h(%q)=%q", string([]byte{byte(b)}), w))
			}
			code = append(code, sep)
			table = append(table, fmt.Sprintf("h(#)=%q", sep))
			c.Extra["code_words"] = table
			ud, dangling := sardinasPatterson(code)
			proved = ud
			if ud {
				c.Ok(rule, buildKey+"|uniquely decodable", pos(c, f.Decl), "Sardinas–Patterson: no dangling suffix is a code word; code = "+strings.Join(table, ", "))
			} else {
				c.Extra["dangling_suffix"] = dangling
			}
		}
		if !proved {
			var seeds []string
			for _, t := range terms {
				for _, st := range t.steps {
					seeds = append(seeds, st[0], st[1])
				}
				seeds = append(seeds, t.lit)
			}
			if msg, status := collisionSearch(f, seeds); status == "collision" {
				c.Fail(rule, buildKey+"|uniquely decodable", pos(c, f.Decl), "the key encoder is not injective: label tuples "+msg+" — they address the same datum; creating, finding, expiring or deleting one touches the other")
			} else {
				c.Undecided(rule, buildKey+"|uniquely decodable", pos(c, f.Decl), "unique decodability not established and no collision found in the bounded search ("+status+")")
			}
		}
	}
	c.Floor(rule, 2)
}
