package props

// Shared helpers for checkers that must recognise a *family* of equivalent
// source shapes instead of one spelling (BUILDING.md conventions 3 and 4):
//
//   - branch sites: every boolean condition of the CFG (if, tagless switch
//     case, for condition) with its true and false edge;
//   - implication over &&, ||, ! and single-assignment boolean locals, so that
//     "this edge implies fact P" can be asked of any condition shape;
//   - guardedness as a path query: a point is guarded by P when every path
//     from the entry to it takes an edge that implies P (enclosing if, else
//     branch of the negation, early return, switch case, nested ifs …);
//   - structural expression equality with identifiers resolved to objects;
//   - single-definition locals (aliases) resolved to their defining expression;
//   - the test of a call's error result in any of its usual forms.

import (
	"go/ast"
	"go/constant"
	"go/token"
	"go/types"

	"golang.org/x/tools/go/cfg"

	"verif/sa/core"
)

// hbSite is a boolean branch of the CFG: B ends in Cond, B.Succs[0] is taken
// when Cond is true and B.Succs[1] when it is false.
type hbSite struct {
	Cond ast.Expr
	B    *cfg.Block
}

// hbSites lists the boolean branch sites of g (if conditions, case
// expressions of tagless switches, for conditions).
func hbSites(g *core.Graph) []hbSite {
	f := g.F
	info := f.Info()
	// case clause -> is it a clause of a tagless expression switch?
	tagless := map[ast.Stmt]bool{}
	ast.Inspect(f.Body, func(n ast.Node) bool {
		if sw, ok := n.(*ast.SwitchStmt); ok && sw.Tag == nil {
			for _, cl := range sw.Body.List {
				tagless[cl] = true
			}
		}
		return true
	})
	var out []hbSite
	for _, b := range g.C.Blocks {
		if !b.Live || len(b.Succs) != 2 || len(b.Nodes) == 0 {
			continue
		}
		e, ok := b.Nodes[len(b.Nodes)-1].(ast.Expr)
		if !ok {
			continue
		}
		switch b.Succs[0].Kind {
		case cfg.KindIfThen, cfg.KindForBody:
		case cfg.KindSwitchCaseBody:
			if !tagless[b.Succs[0].Stmt] {
				continue
			}
		default:
			continue
		}
		if t := info.TypeOf(e); t == nil {
			continue
		} else if bt, ok := t.Underlying().(*types.Basic); !ok || bt.Info()&types.IsBoolean == 0 {
			continue
		}
		out = append(out, hbSite{Cond: e, B: b})
	}
	return out
}

// hbAtom classifies a leaf condition with respect to a fact P: whenTrue says
// that the leaf being true implies P, whenFalse that the leaf being false
// implies P.
type hbAtom func(e ast.Expr) (whenTrue, whenFalse bool)

// hbImplies lifts an atom classification over parentheses, !, && and || and
// through boolean locals that have exactly one definition in the enclosing
// declaration.
func hbImplies(f *core.Func, cond ast.Expr, atom hbAtom) (whenTrue, whenFalse bool) {
	return hbImpliesDepth(f, cond, atom, 0)
}

func hbImpliesDepth(f *core.Func, cond ast.Expr, atom hbAtom, depth int) (bool, bool) {
	if depth > 8 {
		return false, false
	}
	e := core.Unparen(cond)
	if t, fl := atom(e); t || fl {
		return t, fl
	}
	switch x := e.(type) {
	case *ast.UnaryExpr:
		if x.Op == token.NOT {
			t, fl := hbImpliesDepth(f, x.X, atom, depth+1)
			return fl, t
		}
	case *ast.BinaryExpr:
		switch x.Op {
		case token.LAND:
			at, af := hbImpliesDepth(f, x.X, atom, depth+1)
			bt, bf := hbImpliesDepth(f, x.Y, atom, depth+1)
			return at || bt, af && bf
		case token.LOR:
			at, af := hbImpliesDepth(f, x.X, atom, depth+1)
			bt, bf := hbImpliesDepth(f, x.Y, atom, depth+1)
			return at && bt, af || bf
		}
	case *ast.Ident:
		if def := hbSingleDef(f, identObj(f.Info(), x)); def != nil {
			return hbImpliesDepth(f, def, atom, depth+1)
		}
	}
	return false, false
}

// hbSingleDef returns the defining expression of a local variable that is
// defined exactly once (`x := e`, `var x = e`, or one `x = e` after a bare
// `var x T`) in the enclosing declaration and never otherwise assigned,
// incremented or address-taken; nil otherwise.
func hbSingleDef(f *core.Func, obj types.Object) ast.Expr {
	v, ok := obj.(*types.Var)
	if !ok || v == nil || v.IsField() || f.Decl == nil || f.Decl.Body == nil {
		return nil
	}
	if v.Pkg() == nil || v.Parent() == v.Pkg().Scope() {
		return nil // package-level
	}
	info := f.Info()
	var def ast.Expr
	n := 0
	ast.Inspect(f.Decl, func(x ast.Node) bool {
		switch s := x.(type) {
		case *ast.AssignStmt:
			for i, l := range s.Lhs {
				if identObj(info, l) != obj {
					continue
				}
				n++
				if len(s.Rhs) == len(s.Lhs) && (s.Tok == token.DEFINE || s.Tok == token.ASSIGN) {
					def = s.Rhs[i]
				} else {
					n++ // multi-value or compound assignment: not resolvable
				}
			}
		case *ast.ValueSpec:
			for i, name := range s.Names {
				if info.Defs[name] != obj {
					continue
				}
				if len(s.Values) == len(s.Names) {
					n++
					def = s.Values[i]
				}
			}
		case *ast.IncDecStmt:
			if identObj(info, s.X) == obj {
				n += 2
			}
		case *ast.UnaryExpr:
			if s.Op == token.AND && identObj(info, s.X) == obj {
				n += 2
			}
		case *ast.RangeStmt:
			if identObj(info, s.Key) == obj || identObj(info, s.Value) == obj {
				n += 2
			}
		}
		return true
	})
	if n != 1 {
		return nil
	}
	return def
}

// hbResolve follows single-definition local aliases: an identifier that is
// such a local is replaced by its defining expression (repeatedly).
func hbResolve(f *core.Func, e ast.Expr) ast.Expr {
	for i := 0; i < 8; i++ {
		id, ok := core.Unparen(e).(*ast.Ident)
		if !ok {
			return core.Unparen(e)
		}
		def := hbSingleDef(f, identObj(f.Info(), id))
		if def == nil {
			return id
		}
		e = def
	}
	return core.Unparen(e)
}

// hbEdges computes, for every branch site of g, which of its two edges imply
// the fact described by atom.
func hbEdges(g *core.Graph, atom hbAtom) map[*cfg.Block][2]bool {
	out := map[*cfg.Block][2]bool{}
	for _, s := range hbSites(g) {
		t, fl := hbImplies(g.F, s.Cond, atom)
		if t || fl {
			out[s.B] = [2]bool{t, fl}
		}
	}
	return out
}

// hbAvoid turns an edge table into a Query.AvoidEdge function.
func hbAvoid(edges map[*cfg.Block][2]bool) func(b *cfg.Block, si int) bool {
	return func(b *cfg.Block, si int) bool {
		e, ok := edges[b]
		return ok && si < 2 && e[si]
	}
}

// hbUnguardedPath searches a path from `from` (nil: the entry) to one of the
// goal points that takes no edge implying the fact.  found == false means
// every path to the goals is guarded by the fact.
func hbUnguardedPath(g *core.Graph, from *core.Point, goals []core.Point, atom hbAtom) (trail []string, found bool) {
	if len(goals) == 0 {
		return nil, false
	}
	tr, ok := g.Search(core.Query{From: from, Goal: core.At(goals...), AvoidEdge: hbAvoid(hbEdges(g, atom))})
	return g.Trail(tr), ok
}

// hbShortCircuit reports whether the evaluation of node inside the condition
// root is guarded by the fact through short-circuit evaluation: node lies in
// the right operand of `a && …` where a being true implies the fact, or of
// `a || …` where a being false implies it.
func hbShortCircuit(f *core.Func, root ast.Expr, node ast.Node, atom hbAtom) bool {
	in := func(e ast.Expr) bool { return e.Pos() <= node.Pos() && node.End() <= e.End() }
	for e := core.Unparen(root); e != nil; {
		switch x := e.(type) {
		case *ast.ParenExpr:
			e = x.X
			continue
		case *ast.UnaryExpr:
			if x.Op == token.NOT && in(x.X) {
				e = x.X
				continue
			}
		case *ast.BinaryExpr:
			if x.Op == token.LAND || x.Op == token.LOR {
				if in(x.Y) {
					t, fl := hbImplies(f, x.X, atom)
					if (x.Op == token.LAND && t) || (x.Op == token.LOR && fl) {
						return true
					}
					e = x.Y
					continue
				}
				if in(x.X) {
					e = x.X
					continue
				}
			}
		}
		return false
	}
	return false
}

// hbSameExpr compares two expressions of the same package structurally, with
// identifiers and selected fields resolved to their objects.
func hbSameExpr(info *types.Info, a, b ast.Expr) bool {
	if a == nil || b == nil {
		return a == nil && b == nil
	}
	a, b = core.Unparen(a), core.Unparen(b)
	switch x := a.(type) {
	case *ast.Ident:
		y, ok := b.(*ast.Ident)
		if !ok {
			return false
		}
		ox, oy := identObj(info, x), identObj(info, y)
		if ox == nil || oy == nil {
			return ox == oy && x.Name == y.Name
		}
		return ox == oy
	case *ast.SelectorExpr:
		y, ok := b.(*ast.SelectorExpr)
		if !ok {
			return false
		}
		ox, oy := info.Uses[x.Sel], info.Uses[y.Sel]
		if ox == nil || oy == nil || ox != oy {
			return false
		}
		if _, isPkg := info.Uses[identOrNil(x.X)].(*types.PkgName); isPkg {
			return true // qualified identifier: the object decides
		}
		return hbSameExpr(info, x.X, y.X)
	case *ast.IndexExpr:
		y, ok := b.(*ast.IndexExpr)
		return ok && hbSameExpr(info, x.X, y.X) && hbSameExpr(info, x.Index, y.Index)
	case *ast.SliceExpr:
		y, ok := b.(*ast.SliceExpr)
		return ok && hbSameExpr(info, x.X, y.X) && hbSameExpr(info, x.Low, y.Low) && hbSameExpr(info, x.High, y.High) && hbSameExpr(info, x.Max, y.Max)
	case *ast.StarExpr:
		y, ok := b.(*ast.StarExpr)
		return ok && hbSameExpr(info, x.X, y.X)
	case *ast.UnaryExpr:
		y, ok := b.(*ast.UnaryExpr)
		return ok && x.Op == y.Op && hbSameExpr(info, x.X, y.X)
	case *ast.BinaryExpr:
		y, ok := b.(*ast.BinaryExpr)
		return ok && x.Op == y.Op && hbSameExpr(info, x.X, y.X) && hbSameExpr(info, x.Y, y.Y)
	case *ast.BasicLit:
		y, ok := b.(*ast.BasicLit)
		if !ok {
			return false
		}
		vx, vy := info.Types[x].Value, info.Types[y].Value
		if vx != nil && vy != nil {
			return constant.Compare(vx, token.EQL, vy)
		}
		return x.Kind == y.Kind && x.Value == y.Value
	case *ast.CallExpr:
		y, ok := b.(*ast.CallExpr)
		if !ok || len(x.Args) != len(y.Args) || !hbSameExpr(info, x.Fun, y.Fun) {
			return false
		}
		for i := range x.Args {
			if !hbSameExpr(info, x.Args[i], y.Args[i]) {
				return false
			}
		}
		return true
	}
	return false
}

func identOrNil(e ast.Expr) *ast.Ident {
	id, _ := core.Unparen(e).(*ast.Ident)
	return id
}

// hbNilCmp decomposes `x == nil`, `nil == x`, `x != nil`, `nil != x`.
func hbNilCmp(info *types.Info, e ast.Expr) (x ast.Expr, isEq, ok bool) {
	be, isB := core.Unparen(e).(*ast.BinaryExpr)
	if !isB || (be.Op != token.EQL && be.Op != token.NEQ) {
		return nil, false, false
	}
	switch {
	case isNilIdent(info, be.Y):
		return core.Unparen(be.X), be.Op == token.EQL, true
	case isNilIdent(info, be.X):
		return core.Unparen(be.Y), be.Op == token.EQL, true
	}
	return nil, false, false
}

// hbCmpConst decomposes a comparison of the variable obj with an integer
// constant, normalised to `obj op c` (operands swapped if the constant is on
// the left).
func hbCmpConst(info *types.Info, e ast.Expr, obj types.Object) (op token.Token, c int64, ok bool) {
	be, isB := core.Unparen(e).(*ast.BinaryExpr)
	if !isB || obj == nil {
		return 0, 0, false
	}
	flip := map[token.Token]token.Token{token.LSS: token.GTR, token.GTR: token.LSS, token.LEQ: token.GEQ, token.GEQ: token.LEQ, token.EQL: token.EQL, token.NEQ: token.NEQ}
	if _, cmp := flip[be.Op]; !cmp {
		return 0, 0, false
	}
	if identObj(info, be.X) == obj {
		if v, isC := constInt(info, be.Y); isC {
			return be.Op, v, true
		}
	}
	if identObj(info, be.Y) == obj {
		if v, isC := constInt(info, be.X); isC {
			return flip[be.Op], v, true
		}
	}
	return 0, 0, false
}

// hbEvalCmp evaluates `v op c`.
func hbEvalCmp(v int64, op token.Token, c int64) bool {
	switch op {
	case token.LSS:
		return v < c
	case token.GTR:
		return v > c
	case token.LEQ:
		return v <= c
	case token.GEQ:
		return v >= c
	case token.EQL:
		return v == c
	case token.NEQ:
		return v != c
	}
	return false
}

// hbBoolAtom builds the atom "the boolean variable obj is true" (or, with
// want == false, "is false"), also through `obj == true` style comparisons
// being absent: only the bare identifier is recognised.
func hbBoolAtom(info *types.Info, obj types.Object, want bool) hbAtom {
	return func(e ast.Expr) (bool, bool) {
		if obj != nil && identObj(info, e) == obj {
			return want, !want
		}
		return false, false
	}
}

// hbErrTest locates the test of the error result of call: the branch site
// that compares the variable receiving the call's last result with nil.
// errOnTrue says which edge is taken when the error is non-nil.  propagated
// is true when the call's result is returned directly (`return f()`).
func hbErrTest(f *core.Func, g *core.Graph, call *ast.CallExpr) (site hbSite, errOnTrue, found, propagated bool) {
	info := f.Info()
	as := assignOf(f, call)
	if as == nil || len(as.Lhs) == 0 {
		core.InspectNoLit(f.Body, func(n ast.Node) bool {
			if r, ok := n.(*ast.ReturnStmt); ok {
				for _, res := range r.Results {
					if core.Unparen(res) == ast.Expr(call) {
						propagated = true
					}
				}
			}
			return true
		})
		return
	}
	errObj := identObj(info, as.Lhs[len(as.Lhs)-1])
	if errObj == nil {
		return
	}
	best := token.NoPos
	for _, s := range hbSites(g) {
		if s.Cond.Pos() < as.Pos() {
			continue
		}
		t, fl := hbImplies(f, s.Cond, func(e ast.Expr) (bool, bool) {
			x, isEq, ok := hbNilCmp(info, e)
			if !ok || identObj(info, x) != errObj {
				return false, false
			}
			return !isEq, isEq // fact: "the error is non-nil"
		})
		if t == fl {
			continue
		}
		if !best.IsValid() || s.Cond.Pos() < best {
			best = s.Cond.Pos()
			site, errOnTrue, found = s, t, true
		}
	}
	return
}

// hbBranch returns the pseudo start point of the true (which == 0) or false
// (which == 1) edge of a site.
func hbBranch(s hbSite, onTrue bool) *core.Point {
	k := 1
	if onTrue {
		k = 0
	}
	return &core.Point{B: s.B.Succs[k], I: -1}
}

// hbFailingExits lists the return exits whose last result is not the literal nil.
func hbFailingExits(g *core.Graph) []core.Point {
	var out []core.Point
	for _, e := range normalExits(g) {
		if e.Kind == "return" && !returnsNil(g.F.Info(), e.Ret) {
			out = append(out, e.P)
		}
	}
	return out
}

// hbHasCall reports whether n contains a call expression (not entering literals).
func hbHasCall(n ast.Node) bool {
	found := false
	core.InspectNoLit(n, func(x ast.Node) bool {
		if _, ok := x.(*ast.CallExpr); ok {
			found = true
		}
		return !found
	})
	return found
}

// hbParam returns the object of the i-th parameter of f (counting names), or nil.
func hbParam(f *core.Func, i int) types.Object {
	k := 0
	for _, fl := range f.Type.Params.List {
		if len(fl.Names) == 0 {
			k++
			continue
		}
		for _, n := range fl.Names {
			if k == i {
				return f.Info().Defs[n]
			}
			k++
		}
	}
	return nil
}

// hbRecv returns the receiver object of a method declaration, or nil.
func hbRecv(f *core.Func) types.Object {
	if f.Decl == nil || f.Decl.Recv == nil || len(f.Decl.Recv.List) == 0 || len(f.Decl.Recv.List[0].Names) == 0 {
		return nil
	}
	return f.Info().Defs[f.Decl.Recv.List[0].Names[0]]
}

// hbFieldOf decomposes a field selection x.f into the field object and x.
func hbFieldOf(info *types.Info, e ast.Expr) (*types.Var, ast.Expr) {
	sel, ok := core.Unparen(e).(*ast.SelectorExpr)
	if !ok {
		return nil, nil
	}
	if s := info.Selections[sel]; s != nil && s.Kind() == types.FieldVal {
		if v, ok := s.Obj().(*types.Var); ok {
			return v, sel.X
		}
	}
	return nil, nil
}

// hbLoop describes a loop that visits the elements of a slice in index order:
// `for k, v := range X`, `for k := range X`, or the canonical
// `for k := 0; k < len(X); k++` (with an optional `v := X[k]` / `v := &X[k]`
// as element variable).
type hbLoop struct {
	Stmt     ast.Stmt
	Body     *ast.BlockStmt
	Key, Val types.Object // index variable; element variable (nil if none)
	ValIsPtr bool         // the element variable is a pointer to the element
	X        ast.Expr     // the collection as written
	Coll     ast.Expr     // the collection with single-definition aliases resolved
}

// hbLoopOf recognises n as an index-order loop over a slice, or returns nil.
func hbLoopOf(f *core.Func, n ast.Node) *hbLoop {
	info := f.Info()
	lp := &hbLoop{}
	switch s := n.(type) {
	case *ast.RangeStmt:
		if s.Key == nil {
			return nil
		}
		lp.Stmt, lp.Body, lp.X = s, s.Body, s.X
		lp.Key = identObj(info, s.Key)
		if s.Value != nil {
			lp.Val = identObj(info, s.Value)
		}
	case *ast.ForStmt:
		init, ok := s.Init.(*ast.AssignStmt)
		if !ok || len(init.Lhs) != 1 || len(init.Rhs) != 1 || s.Cond == nil || s.Post == nil {
			return nil
		}
		if v, isC := constInt(info, init.Rhs[0]); !isC || v != 0 {
			return nil
		}
		lp.Key = identObj(info, init.Lhs[0])
		be, ok := core.Unparen(s.Cond).(*ast.BinaryExpr)
		if !ok {
			return nil
		}
		var lenCall ast.Expr
		switch {
		case be.Op == token.LSS && identObj(info, be.X) == lp.Key:
			lenCall = be.Y
		case be.Op == token.GTR && identObj(info, be.Y) == lp.Key:
			lenCall = be.X
		default:
			return nil
		}
		call, ok := hbResolve(f, lenCall).(*ast.CallExpr)
		if !ok || f.CalleeID(call) != "builtin.len" || len(call.Args) != 1 {
			return nil
		}
		if inc, ok := s.Post.(*ast.IncDecStmt); !ok || inc.Tok != token.INC || identObj(info, inc.X) != lp.Key {
			return nil
		}
		lp.Stmt, lp.Body, lp.X = s, s.Body, call.Args[0]
		core.InspectNoLit(s.Body, func(x ast.Node) bool {
			as, ok := x.(*ast.AssignStmt)
			if !ok || as.Tok != token.DEFINE || len(as.Lhs) != 1 || len(as.Rhs) != 1 || lp.Val != nil {
				return true
			}
			r := core.Unparen(as.Rhs[0])
			ptr := false
			if u, ok := r.(*ast.UnaryExpr); ok && u.Op == token.AND {
				r, ptr = core.Unparen(u.X), true
			}
			if ix, ok := r.(*ast.IndexExpr); ok && hbSameExpr(info, ix.X, lp.X) && identObj(info, ix.Index) == lp.Key {
				lp.Val, lp.ValIsPtr = identObj(info, as.Lhs[0]), ptr
			}
			return true
		})
	default:
		return nil
	}
	if lp.Key == nil {
		return nil
	}
	if t := info.TypeOf(lp.X); t == nil {
		return nil
	} else if _, isSlice := t.Underlying().(*types.Slice); !isSlice {
		return nil
	}
	lp.Coll = hbResolve(f, lp.X)
	return lp
}

// IsElem reports whether e denotes the loop's current element: the element
// variable, X[k] (X as written or resolved), or a single-definition local
// defined as X[k] / &X[k].
func (lp *hbLoop) IsElem(f *core.Func, e ast.Expr) bool {
	info := f.Info()
	e = core.Unparen(e)
	if s, ok := e.(*ast.StarExpr); ok {
		e = core.Unparen(s.X)
	}
	if lp.Val != nil && identObj(info, e) == lp.Val {
		return true
	}
	if id, ok := e.(*ast.Ident); ok {
		if def := hbSingleDef(f, identObj(info, id)); def != nil {
			d := core.Unparen(def)
			if u, ok := d.(*ast.UnaryExpr); ok && u.Op == token.AND {
				d = core.Unparen(u.X)
			}
			if _, isIx := d.(*ast.IndexExpr); isIx {
				return lp.IsElem(f, d)
			}
		}
		return false
	}
	if ix, ok := e.(*ast.IndexExpr); ok && identObj(info, ix.Index) == lp.Key {
		return hbSameExpr(info, ix.X, lp.X) || hbSameExpr(info, hbResolve(f, ix.X), lp.Coll)
	}
	return false
}

// hbEnclosingLoop returns the innermost index-order loop of f that lexically contains pos.
func hbEnclosingLoop(f *core.Func, pos token.Pos) *hbLoop {
	var best *hbLoop
	core.InspectNoLit(f.Body, func(n ast.Node) bool {
		switch n.(type) {
		case *ast.RangeStmt, *ast.ForStmt:
			if n.Pos() <= pos && pos < n.End() {
				if lp := hbLoopOf(f, n); lp != nil && lp.Body.Pos() <= pos && pos < lp.Body.End() {
					best = lp
				}
			}
		}
		return true
	})
	return best
}

// hbIsLenOf reports whether e (aliases resolved) is len(X) for a slice X satisfying isX.
func hbIsLenOf(f *core.Func, e ast.Expr, isX func(ast.Expr) bool) bool {
	call, ok := hbResolve(f, e).(*ast.CallExpr)
	return ok && f.CalleeID(call) == "builtin.len" && len(call.Args) == 1 && isX(call.Args[0])
}

// hbIsLenMinus1 reports whether e (aliases resolved) is len(X)-1 for a slice X satisfying isX.
func hbIsLenMinus1(f *core.Func, e ast.Expr, isX func(ast.Expr) bool) bool {
	be, ok := hbResolve(f, e).(*ast.BinaryExpr)
	if !ok || be.Op != token.SUB {
		return false
	}
	v, isC := constInt(f.Info(), be.Y)
	return isC && v == 1 && hbIsLenOf(f, be.X, isX)
}

// hbIsPlus1 reports whether e is obj+1 or 1+obj.
func hbIsPlus1(info *types.Info, e ast.Expr, obj types.Object) bool {
	be, ok := core.Unparen(e).(*ast.BinaryExpr)
	if !ok || be.Op != token.ADD || obj == nil {
		return false
	}
	if identObj(info, be.X) == obj {
		v, isC := constInt(info, be.Y)
		return isC && v == 1
	}
	if identObj(info, be.Y) == obj {
		v, isC := constInt(info, be.X)
		return isC && v == 1
	}
	return false
}

// hbIsLastIndexTest reports whether e states that the index variable key is
// the last index of a slice satisfying isX: key == len(X)-1, key+1 == len(X),
// key >= len(X)-1 (either operand order; `last := len(X)-1` resolved).
func hbIsLastIndexTest(f *core.Func, e ast.Expr, key types.Object, isX func(ast.Expr) bool) bool {
	info := f.Info()
	be, ok := core.Unparen(e).(*ast.BinaryExpr)
	if !ok || key == nil {
		return false
	}
	x, y, op := be.X, be.Y, be.Op
	form := func(a, b ast.Expr, op token.Token) bool {
		switch op {
		case token.EQL:
			return (identObj(info, a) == key && hbIsLenMinus1(f, b, isX)) || (hbIsPlus1(info, a, key) && hbIsLenOf(f, b, isX))
		case token.GEQ:
			return identObj(info, a) == key && hbIsLenMinus1(f, b, isX)
		}
		return false
	}
	if form(x, y, op) {
		return true
	}
	flip := map[token.Token]token.Token{token.EQL: token.EQL, token.GEQ: token.LEQ, token.LEQ: token.GEQ}
	if fop, ok := flip[op]; ok {
		return form(y, x, fop)
	}
	return false
}

// hbParamsWhere lists the parameter objects of f whose type satisfies pred, with their positions.
func hbParamsWhere(f *core.Func, pred func(types.Type) bool) (objs []types.Object, idx []int) {
	i := 0
	for _, fl := range f.Type.Params.List {
		if len(fl.Names) == 0 {
			i++
			continue
		}
		for _, n := range fl.Names {
			if o := f.Info().Defs[n]; o != nil && pred(o.Type()) {
				objs = append(objs, o)
				idx = append(idx, i)
			}
			i++
		}
	}
	return
}
