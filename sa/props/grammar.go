package props

import (
	"os"
	"path/filepath"
	"strings"
	"unicode"

	"verif/sa/core"
)

// yAlt is one alternative of a grammar rule.
type yAlt struct {
	Syms   []string // symbols of the right-hand side (mid-rule actions dropped)
	Action string   // text of the final action, without the outer braces
	Line   int
}

// yGrammar is the rules section of parser.y.
type yGrammar struct {
	Rules  map[string][]yAlt
	Order  []string
	Tokens map[string]string // token -> <type> tag ("" if none)
	Types  map[string]string // nonterminal -> <type> tag
	Path   string
}

// readGrammar parses the grammar file of the mtail parser (a plain yacc file:
// declarations, %%, rules with Go actions, %%, Go code).  It understands
// comments, nested braces, string and rune literals inside actions, rules
// without a terminating semicolon, and empty alternatives.
func readGrammar(c *core.Check) (*yGrammar, string) {
	path := filepath.Join(c.Prog.Root, "internal/runtime/compiler/parser/parser.y")
	b, err := os.ReadFile(path)
	if err != nil {
		return nil, err.Error()
	}
	src := string(b)
	g := &yGrammar{Rules: map[string][]yAlt{}, Tokens: map[string]string{}, Types: map[string]string{}, Path: "internal/runtime/compiler/parser/parser.y"}
	parts := strings.SplitN(src, "\n%%", 3)
	if len(parts) < 2 {
		return nil, "no %% separator"
	}
	// declarations
	for _, ln := range strings.Split(parts[0], "\n") {
		f := strings.Fields(ln)
		if len(f) < 2 || (f[0] != "%token" && f[0] != "%type") {
			continue
		}
		tag := ""
		rest := f[1:]
		if strings.HasPrefix(rest[0], "<") {
			tag = strings.Trim(rest[0], "<>")
			rest = rest[1:]
		}
		for _, s := range rest {
			if strings.HasPrefix(s, "//") {
				break
			}
			if f[0] == "%token" {
				g.Tokens[s] = tag
			} else {
				g.Types[s] = tag
			}
		}
	}
	rules := parts[1]
	line := strings.Count(parts[0], "\n") + 2
	// tokenise
	type tok struct {
		kind, text string // "id", ":", "|", ";", "act"
		line       int
	}
	var toks []tok
	i := 0
	for i < len(rules) {
		ch := rules[i]
		switch {
		case ch == '\n':
			line++
			i++
		case ch == ' ' || ch == '\t' || ch == '\r':
			i++
		case strings.HasPrefix(rules[i:], "/*"):
			j := strings.Index(rules[i+2:], "*/")
			if j < 0 {
				return nil, "unterminated comment"
			}
			line += strings.Count(rules[i:i+2+j+2], "\n")
			i += 2 + j + 2
		case strings.HasPrefix(rules[i:], "//"):
			j := strings.IndexByte(rules[i:], '\n')
			if j < 0 {
				j = len(rules) - i
			}
			i += j
		case ch == '{':
			depth := 0
			start := i
			startLine := line
			for i < len(rules) {
				c := rules[i]
				if c == '\n' {
					line++
				}
				if c == '"' || c == '`' || c == '\'' {
					q := c
					i++
					for i < len(rules) && rules[i] != q {
						if rules[i] == '\\' && q != '`' {
							i++
						}
						if i < len(rules) && rules[i] == '\n' {
							line++
						}
						i++
					}
					i++
					continue
				}
				if strings.HasPrefix(rules[i:], "//") {
					for i < len(rules) && rules[i] != '\n' {
						i++
					}
					continue
				}
				if c == '{' {
					depth++
				}
				if c == '}' {
					depth--
					if depth == 0 {
						i++
						break
					}
				}
				i++
			}
			toks = append(toks, tok{"act", rules[start+1 : i-1], startLine})
		case ch == ':' || ch == '|' || ch == ';':
			toks = append(toks, tok{string(ch), string(ch), line})
			i++
		case ch == '\'':
			j := i + 1
			for j < len(rules) && rules[j] != '\'' {
				j++
			}
			toks = append(toks, tok{"id", rules[i : j+1], line})
			i = j + 1
		case ch == '$' || unicode.IsLetter(rune(ch)) || ch == '_' || ch == '%':
			j := i + 1
			for j < len(rules) && (unicode.IsLetter(rune(rules[j])) || unicode.IsDigit(rune(rules[j])) || rules[j] == '_') {
				j++
			}
			toks = append(toks, tok{"id", rules[i:j], line})
			i = j
		default:
			return nil, "unexpected character " + string(ch) + " in the rules section"
		}
	}
	// parse
	k := 0
	for k < len(toks) {
		if toks[k].kind != "id" || k+1 >= len(toks) || toks[k+1].kind != ":" {
			return nil, "rule head expected near " + toks[k].text
		}
		head := toks[k].text
		k += 2
		cur := yAlt{Line: toks[k-2].line}
		flush := func() {
			g.Rules[head] = append(g.Rules[head], cur)
			cur = yAlt{}
		}
		for k < len(toks) {
			t := toks[k]
			if t.kind == "id" && k+1 < len(toks) && toks[k+1].kind == ":" {
				break // next rule, no semicolon
			}
			k++
			switch t.kind {
			case "id":
				if cur.Line == 0 {
					cur.Line = t.line
				}
				cur.Syms = append(cur.Syms, t.text)
			case "act":
				if cur.Line == 0 {
					cur.Line = t.line
				}
				cur.Action = t.text // the last action of the alternative wins
			case "|":
				flush()
			case ";":
				goto done
			}
		}
	done:
		flush()
		if _, seen := g.Rules[head]; seen {
			found := false
			for _, o := range g.Order {
				if o == head {
					found = true
				}
			}
			if !found {
				g.Order = append(g.Order, head)
			}
		}
	}
	return g, ""
}

// unitClosure returns the nonterminals derivable from nt by unit productions
// alone (X : Y), nt included: an expression built by a production of such a
// nonterminal can stand where nt is expected without brackets.
func (g *yGrammar) unitClosure(nt string) map[string]bool {
	out := map[string]bool{nt: true}
	work := []string{nt}
	for len(work) > 0 {
		x := work[0]
		work = work[1:]
		for _, a := range g.Rules[x] {
			if len(a.Syms) == 1 {
				if _, isNT := g.Rules[a.Syms[0]]; isNT && !out[a.Syms[0]] {
					out[a.Syms[0]] = true
					work = append(work, a.Syms[0])
				}
			}
		}
	}
	return out
}

// opTokens returns the tokens an operator nonterminal (rel_op, add_op, …)
// stands for, or the token itself.
func (g *yGrammar) opTokens(sym string) []string {
	if _, isTok := g.Tokens[sym]; isTok {
		return []string{sym}
	}
	var out []string
	for _, a := range g.Rules[sym] {
		if len(a.Syms) == 1 {
			if _, isTok := g.Tokens[a.Syms[0]]; isTok {
				out = append(out, a.Syms[0])
			}
		}
	}
	return out
}
