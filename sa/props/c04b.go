package props

import (
	"fmt"
	"go/ast"
	"go/token"
	"go/types"
	"strings"

	"verif/sa/core"
)

// Extra C04 rule (own file; runs after the main C04 rules).
func init() { register("C04", c04SearchIndex) }

// c04SearchIndex: a binary search that finds nothing returns the length of the
// searched range; using its result as an index without comparing it with the
// length faults for a value beyond every element (for an ordered float key:
// NaN, for which every comparison is false).  Decided for every function of
// the module that instruction execution can reach.
func c04SearchIndex(c *core.Check) {
	c.Rule("C04-R8", "SEARCH-INDEX: in every function reachable from (*VM).execute, the result of sort.Search / sort.Search* / slices.BinarySearch* is used as an index or slice bound only where a comparison of it with the length of the searched range dominates the use")
	exe := c.Prog.Fn(vmExecute)
	if exe == nil {
		c.Undecided("C04-R8", vmExecute, "-", "execute not found")
		return
	}
	// reachable: statically resolved calls plus every method of the datum package (called through the Datum interface)
	fs := closureFrom(exe)
	seen := map[*core.Func]bool{}
	for _, f := range fs {
		seen[f] = true
	}
	for _, k := range c.Prog.SortedFuncKeys() {
		f := c.Prog.Funcs[k]
		if f.Lit == nil && core.Rel(f.Pkg.PkgPath) == "internal/metrics/datum" && !seen[f] {
			for _, g := range closureFrom(f) {
				if !seen[g] {
					seen[g] = true
					fs = append(fs, g)
				}
			}
		}
	}
	nf, nsite := 0, 0
	for _, f := range fs {
		if c.Prog.IsTestSupport(f) {
			continue
		}
		nf++
		info := f.Info()
		res := map[types.Object]*ast.CallExpr{}
		ast.Inspect(f.Body, func(n ast.Node) bool {
			as, ok := n.(*ast.AssignStmt)
			if !ok || len(as.Rhs) != 1 {
				return true
			}
			call, ok := core.Unparen(as.Rhs[0]).(*ast.CallExpr)
			if !ok {
				return true
			}
			id := f.CalleeID(call)
			if strings.HasPrefix(id, "sort.Search") || strings.HasPrefix(id, "slices.BinarySearch") {
				if o := identObj(info, as.Lhs[0]); o != nil {
					res[o] = call
				}
			}
			return true
		})
		if len(res) == 0 {
			continue
		}
		c.Analysed(f)
		for o, call := range res {
			ast.Inspect(f.Body, func(n ast.Node) bool {
				ix, ok := n.(*ast.IndexExpr)
				if !ok || identObj(info, ix.Index) != o {
					return true
				}
				nsite++
				key := fmt.Sprintf("%s|index by search result#%d", f.Key, nsite)
				// dominated by a comparison of o with something (a length)
				guarded := false
				for _, ic := range f.EnclosingIfs(ix.Pos()) {
					ast.Inspect(ic.If.Cond, func(m ast.Node) bool {
						if be, ok := m.(*ast.BinaryExpr); ok && (be.Op == token.LSS || be.Op == token.GEQ || be.Op == token.GTR || be.Op == token.LEQ || be.Op == token.NEQ || be.Op == token.EQL) {
							if identObj(info, be.X) == o || identObj(info, be.Y) == o {
								guarded = true
							}
						}
						return true
					})
				}
				c.Verdict(guarded, "C04-R8", key, pos(c, ix), "compared with the length first", "the result of "+f.CalleeID(call)+" indexes a slice without being compared with the length: for a value beyond every element (NaN compares false with every bound) the search returns len and the index faults inside the VM (a panic recovered as a runtime error instead of a counted observation)")
				return true
			})
		}
	}
	c.Extra["functions_reachable_from_execute"] = nf
	if nsite == 0 {
		c.Ok("C04-R8", "no search-result index", "-", fmt.Sprintf("%d functions reachable from execute, none indexes by a binary-search result", nf))
	}
}
