package props

import (
	"fmt"
	"go/ast"
	"go/token"
	"go/types"
	"strings"

	"golang.org/x/tools/go/cfg"

	"verif/sa/core"
)

type cfgBlock = cfg.Block

// Extra C04 rule (own file; runs after the main C04 rules).
func init() { register("C04", c04SearchIndex) }

// c04SearchIndex: a binary search that finds nothing returns the length of the
// searched range; using its result as an index without comparing it with the
// length faults for a value beyond every element (for an ordered float key:
// NaN, for which every comparison is false).  Decided for every function of
// the module that instruction execution can reach.
func c04SearchIndex(c *core.Check) {
	c.Rule("C04-R8", "SEARCH-INDEX: in every function reachable from (*VM).execute, the result of sort.Search / sort.Search* / slices.BinarySearch* is used as an index or slice bound only where a comparison of it with the length of the searched range dominates the use")
	exe := c.Prog.Fn(vmExecute)
	if exe == nil {
		c.Undecided("C04-R8", vmExecute, "-", "execute not found")
		return
	}
	// reachable: statically resolved calls plus every method of the datum package (called through the Datum interface)
	fs := closureFrom(exe)
	seen := map[*core.Func]bool{}
	for _, f := range fs {
		seen[f] = true
	}
	for _, k := range c.Prog.SortedFuncKeys() {
		f := c.Prog.Funcs[k]
		if f.Lit == nil && core.Rel(f.Pkg.PkgPath) == "internal/metrics/datum" && !seen[f] {
			for _, g := range closureFrom(f) {
				if !seen[g] {
					seen[g] = true
					fs = append(fs, g)
				}
			}
		}
	}
	nf, nsite := 0, 0
	for _, f := range fs {
		if c.Prog.IsTestSupport(f) {
			continue
		}
		nf++
		info := f.Info()
		res := map[types.Object]*ast.CallExpr{}
		ast.Inspect(f.Body, func(n ast.Node) bool {
			as, ok := n.(*ast.AssignStmt)
			if !ok || len(as.Rhs) != 1 {
				return true
			}
			call, ok := core.Unparen(as.Rhs[0]).(*ast.CallExpr)
			if !ok {
				return true
			}
			id := f.CalleeID(call)
			if strings.HasPrefix(id, "sort.Search") || strings.HasPrefix(id, "slices.BinarySearch") {
				if o := identObj(info, as.Lhs[0]); o != nil {
					res[o] = call
				}
			}
			return true
		})
		if len(res) == 0 {
			continue
		}
		c.Analysed(f)
		for o, call := range res {
			ast.Inspect(f.Body, func(n ast.Node) bool {
				ix, ok := n.(*ast.IndexExpr)
				if !ok || identObj(info, ix.Index) != o {
					return true
				}
				nsite++
				key := fmt.Sprintf("%s|index by search result#%d", f.Key, nsite)
				// dominated by a comparison of o with something (a length)
				guarded := false
				for _, ic := range f.EnclosingIfs(ix.Pos()) {
					ast.Inspect(ic.If.Cond, func(m ast.Node) bool {
						if be, ok := m.(*ast.BinaryExpr); ok && (be.Op == token.LSS || be.Op == token.GEQ || be.Op == token.GTR || be.Op == token.LEQ || be.Op == token.NEQ || be.Op == token.EQL) {
							if identObj(info, be.X) == o || identObj(info, be.Y) == o {
								guarded = true
							}
						}
						return true
					})
				}
				c.Verdict(guarded, "C04-R8", key, pos(c, ix), "compared with the length first", "the result of "+f.CalleeID(call)+" indexes a slice without being compared with the length: for a value beyond every element (NaN compares false with every bound) the search returns len and the index faults inside the VM (a panic recovered as a runtime error instead of a counted observation)")
				return true
			})
		}
	}
	c.Extra["functions_reachable_from_execute"] = nf
	if nsite == 0 {
		c.Ok("C04-R8", "no search-result index", "-", fmt.Sprintf("%d functions reachable from execute, none indexes by a binary-search result", nf))
	}
}

func init() { register("C04", c04IntDivision); register("C04", c04ConditionValue) }

// c04IntDivision: an integer division or remainder faults on a zero divisor
// (and Go does not turn that into NaN as it does for floats).  Every such
// operation in the VM package that instruction execution can reach must be on
// a path where its divisor was found different from zero, or divide by a
// non-zero constant.
func c04IntDivision(c *core.Check) {
	c.Rule("C04-R9", "INT-DIVISION: in every function of package vm reachable from (*VM).execute, each integer `/` or `%` (also `/=`, `%=`) has a divisor that is a non-zero constant, or is reached only over the non-zero edge of a comparison of that divisor with 0 — the explicit `division by zero` runtime error is the only way a zero divisor is met")
	exe := c.Prog.Fn(vmExecute)
	if exe == nil {
		c.Undecided("C04-R9", vmExecute, "-", "execute not found")
		return
	}
	n := 0
	for _, f := range closureFrom(exe) {
		if core.Rel(f.Pkg.PkgPath) != "internal/runtime/vm" {
			continue
		}
		info := f.Info()
		isInt := func(e ast.Expr) bool {
			t := info.TypeOf(e)
			if t == nil {
				return false
			}
			b, ok := t.Underlying().(*types.Basic)
			return ok && b.Info()&types.IsInteger != 0
		}
		g := f.Graph()
		var sites []struct {
			node    ast.Node
			divisor ast.Expr
		}
		ast.Inspect(f.Body, func(nd ast.Node) bool {
			switch x := nd.(type) {
			case *ast.BinaryExpr:
				if (x.Op == token.QUO || x.Op == token.REM) && isInt(x.X) && isInt(x.Y) {
					sites = append(sites, struct {
						node    ast.Node
						divisor ast.Expr
					}{x, x.Y})
				}
			case *ast.AssignStmt:
				if (x.Tok == token.QUO_ASSIGN || x.Tok == token.REM_ASSIGN) && len(x.Lhs) == 1 && isInt(x.Lhs[0]) {
					sites = append(sites, struct {
						node    ast.Node
						divisor ast.Expr
					}{x, x.Rhs[0]})
				}
			}
			return true
		})
		for _, s := range sites {
			n++
			key := fmt.Sprintf("%s|integer division#%d", f.Key, n)
			c.Analysed(f)
			if v, ok := constInt(info, s.divisor); ok {
				c.Verdict(v != 0, "C04-R9", key, pos(c, s.node), "non-zero constant divisor", "division by the constant 0")
				continue
			}
			d := identObj(info, s.divisor)
			p, okP := g.PointOf(s.node)
			if d == nil || !okP {
				c.Undecided("C04-R9", key, pos(c, s.node), "divisor is not a plain variable (or the operation is not in the control-flow graph): no zero test can be matched to it")
				continue
			}
			// edges on which d != 0 is known: else-edge of `d == 0`, then-edge of `d != 0`
			type edge struct {
				b    *cfg.Block
				succ int
			}
			known := map[edge]bool{}
			for _, is := range ifsWhere(f, func(is *ast.IfStmt) bool {
				be, ok := core.Unparen(is.Cond).(*ast.BinaryExpr)
				if !ok || (be.Op != token.EQL && be.Op != token.NEQ) {
					return false
				}
				zx, okx := constInt(info, be.X)
				zy, oky := constInt(info, be.Y)
				return identObj(info, be.X) == d && oky && zy == 0 || identObj(info, be.Y) == d && okx && zx == 0
			}) {
				cb := g.CondBlock(is)
				if cb == nil {
					continue
				}
				be := core.Unparen(is.Cond).(*ast.BinaryExpr)
				if be.Op == token.EQL {
					known[edge{cb, 1}] = true
				} else {
					known[edge{cb, 0}] = true
				}
			}
			// is there a path from the last definition-free entry to the division that never takes a known edge?
			// (paths through a known edge are cut)
			tr, found := g.Search(core.Query{Goal: core.At(p), AvoidEdge: func(b *cfgBlock, succ int) bool { return known[edge{b, succ}] }})
			c.Verdict(!found, "C04-R9", key, pos(c, s.node), "reached only with a divisor found non-zero", "an integer division or remainder is reachable with a divisor that was never compared with zero: a zero divisor (for `1 / r`: any base whose power wraps to 0) makes the Go runtime panic inside the VM instead of raising the checked `divide by zero` runtime error", g.Trail(tr)...)
		}
	}
	c.Floor("C04-R9", 2)
}

// c04ConditionValue: the conditional jump pops exactly one value, so every
// kind of node that the checker accepts as the condition of a block must push
// exactly one.  A builtin call can push none (settime, strptime and every
// other builtin whose result type is None).
func c04ConditionValue(c *core.Check) {
	c.Rule("C04-R10", "CONDITION-VALUE: the node kinds that checker.VisitAfter accepts (reports no error for) as the condition of a CondStmt are kinds whose code always pushes one value; *ast.BuiltinExpr is such a kind only if the acceptance is conditional on the call's type (some builtins return None and push nothing: the jump would pop an empty stack)")
	va := c.Prog.Fn(checkerAfter)
	if va == nil {
		c.Undecided("C04-R10", checkerAfter, "-", "checker VisitAfter not found")
		return
	}
	info := va.Info()
	c.Analysed(va)
	// builtins without a value
	noneBuiltins := 0
	if tp := c.Prog.Pkgs["internal/runtime/compiler/types"]; tp != nil {
		for _, f := range tp.Syntax {
			ast.Inspect(f, func(n ast.Node) bool {
				kv, ok := n.(*ast.KeyValueExpr)
				if !ok {
					return true
				}
				if call, ok := kv.Value.(*ast.CallExpr); ok && len(call.Args) > 0 {
					last := call.Args[len(call.Args)-1]
					if id, ok := last.(*ast.Ident); ok && id.Name == "None" {
						if _, isStr := kv.Key.(*ast.BasicLit); isStr {
							noneBuiltins++
						}
					}
				}
				return true
			})
		}
	}
	c.Extra["builtins_without_value"] = noneBuiltins
	found := false
	ast.Inspect(va.Body, func(n ast.Node) bool {
		cc, ok := n.(*ast.CaseClause)
		if !ok {
			return true
		}
		isCond := false
		for _, e := range cc.List {
			if t := info.TypeOf(e); t != nil && strings.HasSuffix(t.String(), "ast.CondStmt") {
				isCond = true
			}
		}
		if !isCond {
			return true
		}
		ast.Inspect(cc, func(m ast.Node) bool {
			ts, ok := m.(*ast.TypeSwitchStmt)
			if !ok {
				return true
			}
			// a type switch on <node>.Cond
			tagOK := false
			ast.Inspect(ts.Assign, func(x ast.Node) bool {
				if sel, ok := x.(*ast.SelectorExpr); ok && sel.Sel.Name == "Cond" {
					tagOK = true
				}
				return true
			})
			if !tagOK {
				return true
			}
			found = true
			for _, cl := range ts.Body.List {
				k := cl.(*ast.CaseClause)
				rejects := false
				ast.Inspect(k, func(x ast.Node) bool {
					if call, ok := x.(*ast.CallExpr); ok && strings.HasSuffix(va.CalleeID(call), "ErrorList).Add") {
						rejects = true
					}
					return true
				})
				typeTested := false
				ast.Inspect(k, func(x ast.Node) bool {
					if call, ok := x.(*ast.CallExpr); ok {
						if sel, ok := call.Fun.(*ast.SelectorExpr); ok && sel.Sel.Name == "Type" {
							typeTested = true
						}
					}
					return true
				})
				for _, e := range k.List {
					t := info.TypeOf(e)
					if t == nil {
						continue
					}
					name := t.String()
					name = name[strings.LastIndex(name, ".")+1:]
					key := "condition kind " + name
					switch {
					case rejects && !typeTested:
						c.Ok("C04-R10", key, pos(c, e), "rejected with an error")
					case name == "BuiltinExpr" && noneBuiltins > 0 && !typeTested:
						c.Fail("C04-R10", key, pos(c, e), fmt.Sprintf("a builtin call is accepted as the condition of a block whatever its type, but %d builtins (settime, strptime, …) return None and push no value: the conditional jump that follows pops an empty stack — index out of range inside the VM for a program the compiler accepted", noneBuiltins))
					case name == "ExprList" || name == "StmtList":
						c.Fail("C04-R10", key, pos(c, e), "a list node is accepted as a condition: it pushes any number of values")
					default:
						c.Ok("C04-R10", key, pos(c, e), "pushes one value")
					}
				}
			}
			return false
		})
		return true
	})
	if !found {
		c.Undecided("C04-R10", checkerAfter+"|CondStmt", pos(c, va.Decl), "the type switch over the condition's node kind was not found in the CondStmt clause")
	}
	c.Floor("C04-R10", 3)
}
