package props

import (
	"fmt"
	"go/ast"
	"go/token"
	"go/types"
	"sort"
	"strings"

	"golang.org/x/tools/go/cfg"

	"verif/sa/core"
)

func init() { register("C17", c17) }

const (
	c17Pkg           = "internal/tailer/logstream"
	c17NewLineReader = c17Pkg + ".NewLineReader"
	c17SetDeadline   = c17Pkg + ".SetReadDeadlineOnDone"
	c17IsExitable    = c17Pkg + ".IsExitableError"
	c17LrSend        = c17Pkg + ".(*LineReader).send"
	c17CtxDone       = "context.Context.Done"
	c17CtxErr        = "context.Context.Err"
	c17WakerWake     = "internal/waker.Waker.Wake"
	c17Accept        = "net.Listener.Accept"
	c17ListenerClose = "net.Listener.Close"
	c17WgAdd         = "sync.(*WaitGroup).Add"
	c17WgDone        = "sync.(*WaitGroup).Done"
	c17WgWait        = "sync.(*WaitGroup).Wait"
	c17OnceDo        = "sync.(*Once).Do"
)

// c17Stream is one of the three non-file stream types.
type c17Stream struct {
	kind    string       // fifo, socket, dgram
	typ     string       // fifoStream, socketStream, dgramStream
	funcs   []*core.Func // every function body (declarations and literals) of the type's methods
	rg      *core.Func   // the function that holds the read loop
	reads   []core.Hit   // ReadAndSend calls in rg
	lrObj   types.Object // the line reader variable used by the read loop
	recvObj types.Object // receiver variable of rg's declaration
	newLR   *ast.CallExpr
	newLRIn *core.Func
	srcObj  types.Object // the byte source handed to NewLineReader
}

var c17Kinds = []struct{ kind, typ string }{{"fifo", "fifoStream"}, {"socket", "socketStream"}, {"dgram", "dgramStream"}}

func c17RecvType(f *core.Func) string {
	if f.Decl.Recv == nil || len(f.Decl.Recv.List) == 0 {
		return ""
	}
	t := f.Decl.Recv.List[0].Type
	if s, ok := t.(*ast.StarExpr); ok {
		t = s.X
	}
	if id, ok := t.(*ast.Ident); ok {
		return id.Name
	}
	return ""
}

func c17RecvObj(f *core.Func) types.Object {
	if f.Decl.Recv == nil || len(f.Decl.Recv.List) == 0 || len(f.Decl.Recv.List[0].Names) == 0 {
		return nil
	}
	return f.Info().Defs[f.Decl.Recv.List[0].Names[0]]
}

// c17DeclOf returns the declaration-level Func of f.
func c17DeclOf(c *core.Check, f *core.Func) *core.Func { return c.Prog.FuncOf[f.Decl] }

// c17FuncAt returns the innermost function body of decl that contains p.
func c17FuncAt(c *core.Check, decl *core.Func, p token.Pos) *core.Func {
	best := decl
	for _, l := range decl.Lits {
		if l.Body.Pos() <= p && p < l.Body.End() && l.Body.Pos() >= best.Body.Pos() {
			best = l
		}
	}
	return best
}

// c17Def is one place where a variable gets a value.
type c17Def struct {
	node ast.Node
	rhs  ast.Expr // nil when not a simple 1:1 or n:1 assignment
	idx  int      // position on the left-hand side
	n    int      // number of left-hand sides
}

// c17Defs lists every assignment to obj inside the declaration (literals
// included).  Parameters are not listed; see c17IsParam.
func c17Defs(decl *core.Func, obj types.Object) []c17Def {
	var out []c17Def
	info := decl.Info()
	is := func(e ast.Expr) bool {
		id, ok := core.Unparen(e).(*ast.Ident)
		return ok && (info.Defs[id] == obj || info.Uses[id] == obj)
	}
	ast.Inspect(decl.Body, func(n ast.Node) bool {
		switch x := n.(type) {
		case *ast.AssignStmt:
			for i, l := range x.Lhs {
				if !is(l) {
					continue
				}
				d := c17Def{node: x, idx: i, n: len(x.Lhs)}
				if len(x.Rhs) == len(x.Lhs) {
					d.rhs = x.Rhs[i]
				} else if len(x.Rhs) == 1 {
					d.rhs = x.Rhs[0]
				}
				out = append(out, d)
			}
		case *ast.ValueSpec:
			for i, nm := range x.Names {
				if info.Defs[nm] != obj {
					continue
				}
				d := c17Def{node: x, idx: i, n: len(x.Names)}
				if len(x.Values) == len(x.Names) {
					d.rhs = x.Values[i]
				} else if len(x.Values) == 1 {
					d.rhs = x.Values[0]
				}
				out = append(out, d)
			}
		case *ast.IncDecStmt:
			if is(x.X) {
				out = append(out, c17Def{node: x})
			}
		case *ast.RangeStmt:
			if (x.Key != nil && is(x.Key)) || (x.Value != nil && is(x.Value)) {
				out = append(out, c17Def{node: x})
			}
		case *ast.UnaryExpr:
			if x.Op == token.AND && is(x.X) {
				// address taken: writes through the pointer are not tracked; only
				// flagged for variables where it matters (callers test for it)
			}
		}
		return true
	})
	return out
}

// c17ParamOf reports the function (declaration or literal) of which obj is a
// parameter, and its index.
func c17ParamOf(c *core.Check, decl *core.Func, obj types.Object) (*core.Func, int) {
	fs := append([]*core.Func{decl}, decl.Lits...)
	for _, f := range fs {
		i := 0
		for _, fl := range f.Type.Params.List {
			if len(fl.Names) == 0 {
				i++
				continue
			}
			for _, nm := range fl.Names {
				if f.Info().Defs[nm] == obj {
					return f, i
				}
				i++
			}
		}
	}
	return nil, -1
}

// c17InLoop reports whether the point can be executed again after it has
// been executed (it lies on a cycle of its function's graph).
func c17InLoop(g *core.Graph, p core.Point) bool {
	_, again := g.Search(core.Query{From: &p, Goal: core.At(p)})
	return again
}

// c17Site is a call of a module function found somewhere in shipped code.
type c17Site struct {
	f    *core.Func
	hit  core.Hit
	call *ast.CallExpr
}

func c17Callers(c *core.Check, target *core.Func) []c17Site {
	var out []c17Site
	for _, sf := range shipped(c) {
		g := sf.Graph()
		for _, h := range g.Calls(func(_ string, call *ast.CallExpr) bool { return sf.CalleeFunc(call) == target }) {
			out = append(out, c17Site{sf, h, h.N.(*ast.CallExpr)})
		}
	}
	return out
}

// c17SourceObj resolves the byte-source argument of NewLineReader to the
// variable that names the descriptor: `fd`, `c`, `&dgramConn{c}` -> c.
func c17SourceObj(info *types.Info, e ast.Expr) types.Object {
	e = core.Unparen(e)
	if u, ok := e.(*ast.UnaryExpr); ok && u.Op == token.AND {
		e = core.Unparen(u.X)
	}
	if cl, ok := e.(*ast.CompositeLit); ok && len(cl.Elts) == 1 {
		el := cl.Elts[0]
		if kv, ok := el.(*ast.KeyValueExpr); ok {
			el = kv.Value
		}
		return identObj(info, el)
	}
	return identObj(info, e)
}

// c17IsLinesField reports whether e is `<recv>.lines` (the stream's own
// outbound channel: the field named lines of the embedded streamBase).
func c17IsLinesField(info *types.Info, e ast.Expr, recv types.Object) bool {
	sel, ok := core.Unparen(e).(*ast.SelectorExpr)
	if !ok {
		return false
	}
	v, ok := info.Uses[sel.Sel].(*types.Var)
	if !ok || !v.IsField() || v.Name() != "lines" || !isChanOfLogLine(info, e) {
		return false
	}
	// the root of the selector chain is the receiver
	x := core.Unparen(sel.X)
	for {
		if s, ok := x.(*ast.SelectorExpr); ok {
			x = core.Unparen(s.X)
			continue
		}
		break
	}
	return recv != nil && identObj(info, x) == recv
}

func c17Discover(c *core.Check) []*c17Stream {
	var out []*c17Stream
	for _, k := range c17Kinds {
		s := &c17Stream{kind: k.kind, typ: k.typ}
		for _, key := range c.Prog.SortedFuncKeys() {
			f := c.Prog.Funcs[key]
			if core.Rel(f.Pkg.PkgPath) != c17Pkg || c17RecvType(f) != k.typ {
				continue
			}
			s.funcs = append(s.funcs, f)
			if rs := f.Graph().CallsTo(lrReadAndSend); len(rs) > 0 {
				if s.rg != nil {
					c.Undecided("C17-R1", k.typ, pos(c, f.Body), "more than one function of the stream type reads from a line reader; the rules recognise one read loop per stream type")
					continue
				}
				s.rg, s.reads = f, rs
			}
		}
		if s.rg == nil {
			c.Undecided("C17-R1", k.typ, "-", "no method of the stream type calls LineReader.ReadAndSend: anchor not found")
			continue
		}
		c.Analysed(s.funcs...)
		s.recvObj = c17RecvObj(s.rg)
		out = append(out, s)
	}
	return out
}

func c17(c *core.Check) {
	c.Explain = "Decides structural necessary conditions of C17 on the fifo/stdin, stream-socket and datagram-socket log streams, for every control-flow path of the current source: (R1) the read loop of each stream uses one LineReader bound once outside the loop, created from the stream's own lines channel and from the one descriptor opened for that reader; for stream sockets the reader is created per accepted connection (the handler's connection is the Accept result of the same iteration), so partial lines of different connections are never joined; (R2) every exit of the reading goroutine flushes the unterminated tail (Finish) before the lines channel is closed; the channel is closed exactly once, for sockets only after the listener is closed and every connection handler has been joined, and handlers flush before they report done; (R3) every reading goroutine arms SetReadDeadlineOnDone on the descriptor it reads, with a cancellable context, before its first read; SetReadDeadlineOnDone sets an immediate deadline from a separate goroutine; every blocking select also waits for cancellation; (R4) every receive outside a select waits either for cancellation or on a channel whose close no path of the closing goroutine can skip; (R5) a decision table obtained by abstractly executing one loop iteration for the outcomes of a read (data / EOF with and without earlier data / deadline after cancellation / empty datagram) gives exactly: keep reading on data, keep waiting on EOF before any data on a fifo, return on EOF after data (pipes) or on a connection, return on the deadline error after cancellation; (R6) the line reader delivers every complete line and the final fragment with an unconditional send, and offers each Read at least `size` free bytes (datagrams are never truncated), `size` for datagrams being at least the maximal UDP payload. Not decided: index arithmetic inside the reader (C15), kernel behaviour of descriptors (whether SetReadDeadline is supported on a given stdin), the order in which concurrently running connection handlers interleave their lines, and the happens-before relation between an Accept that returns while the listener is being closed and the final WaitGroup.Wait."
	c.Assume = append(c.Assume,
		"a read on a descriptor with an expired deadline returns an error for which os.IsTimeout is true; a closed peer gives io.EOF with zero bytes",
		"the waker stops waking once its context is cancelled (internal/waker.NewTimed), so a wait that ignores cancellation can block forever",
		"exits by panic are not considered",
		"datagrams are at most 65507 bytes (UDP maximum); larger unixgram datagrams are outside the decided range")
	streams := c17Discover(c)
	c17R1(c, streams)
	c17R2(c, streams)
	c17R3(c, streams)
	c17R4(c, streams)
	c17R5(c, streams)
	c17R6(c, streams)
	tab := map[string]any{}
	for _, s := range streams {
		e := map[string]string{"read_loop": s.rg.Key}
		if s.lrObj != nil {
			e["reader_var"] = s.lrObj.Name()
		}
		if s.newLRIn != nil {
			e["reader_created_in"] = s.newLRIn.Key
		}
		if s.srcObj != nil {
			e["byte_source_var"] = s.srcObj.Name()
		}
		tab[s.typ] = e
	}
	c.Extra["c17_streams"] = tab
	var all []string
	for _, o := range c.Obs {
		all = append(all, fmt.Sprintf("%s | %s | %s | %s", o.Rule, o.Construct, o.Status, o.Detail))
	}
	c.Extra["c17_all_obligations"] = all
}

// ---------------------------------------------------------------- R1

func c17R1(c *core.Check, streams []*c17Stream) {
	c.Rule("C17-R1", "ONE-READER-PER-BYTE-STREAM: in each stream type the read loop calls ReadAndSend/Finish on one variable bound exactly once, outside any loop, to NewLineReader(name, <recv>.lines, src, ...); src is a descriptor obtained once in the same function activation (fifoOpen / ListenPacket) or, for stream sockets, the connection parameter of the handler, and every start of the handler passes the result of the Accept of the same loop iteration")
	for _, s := range streams {
		rg := s.rg
		g := rg.Graph()
		decl := c17DeclOf(c, rg)
		info := rg.Info()
		key := rg.Key + "|reader binding"
		// receiver of every ReadAndSend / Finish
		var bad string
		var badPos ast.Node
		uses := append(append([]core.Hit{}, s.reads...), g.CallsTo(lrFinish)...)
		for _, df := range decl.Lits {
			if df != rg && df.Body.Pos() >= rg.Body.Pos() && df.Body.End() <= rg.Body.End() {
				uses = append(uses, df.Graph().CallsTo(lrFinish)...)
			}
		}
		undec := ""
		for _, h := range uses {
			r := core.Unparen(core.RecvExpr(h.N.(*ast.CallExpr)))
			switch x := r.(type) {
			case *ast.Ident:
				o := identObj(info, x)
				if s.lrObj == nil {
					s.lrObj = o
				} else if o != s.lrObj {
					bad, badPos = "the read loop and the flush use different line readers: the fragment held by one is never flushed", h.N
				}
			case *ast.CallExpr:
				if rg.CalleeID(x) == c17NewLineReader {
					bad, badPos = "a new LineReader is created for a single read: the unterminated fragment kept between two reads is thrown away, so a line split across two writes is lost or cut", h.N
				} else {
					undec = "reader obtained from a call"
				}
			case *ast.SelectorExpr:
				bad, badPos = "the line reader is kept in a field of the stream object, which every connection/goroutine of the stream shares: partial lines of different byte streams are joined", h.N
			default:
				undec = "unrecognised reader expression"
			}
		}
		if bad != "" {
			c.Fail("C17-R1", key, pos(c, badPos), bad)
			continue
		}
		if undec != "" || s.lrObj == nil {
			c.Undecided("C17-R1", key, pos(c, rg.Body), "cannot resolve the line reader variable: "+undec)
			continue
		}
		// where is it created?
		defs := c17Defs(decl, s.lrObj)
		pf, pidx := c17ParamOf(c, decl, s.lrObj)
		var sites []c17Site // handler start sites when the reader or the connection is a parameter
		switch {
		case pf != nil && len(defs) == 0:
			// reader handed in by the caller: follow to the call sites
			if pf != decl {
				c.Undecided("C17-R1", key, pos(c, rg.Body), "reader is a parameter of a function literal")
				continue
			}
			sites = c17Callers(c, decl)
			if len(sites) == 0 {
				c.Undecided("C17-R1", key, pos(c, rg.Body), "reader is a parameter but no call site was found")
				continue
			}
			ok := true
			for _, st := range sites {
				o := identObj(st.f.Info(), st.call.Args[pidx])
				sd := c17DeclOf(c, st.f)
				var ds []c17Def
				if o != nil {
					ds = c17Defs(sd, o)
				}
				if len(ds) != 1 || ds[0].rhs == nil {
					ok = false
					continue
				}
				call, _ := core.Unparen(ds[0].rhs).(*ast.CallExpr)
				if call == nil || st.f.CalleeID(call) != c17NewLineReader || c17FuncAt(c, sd, ds[0].node.Pos()) != st.f {
					ok = false
					continue
				}
				s.newLR, s.newLRIn = call, st.f
				// a fresh reader for every start of the handler
				dp, okp := st.f.Graph().PointOf(ds[0].node)
				if !okp {
					ok = false
					continue
				}
				site := st.hit.P
				if tr, again := st.f.Graph().Search(core.Query{From: &site, Goal: core.At(site), Avoid: core.At(dp)}); again {
					c.Fail("C17-R1", key, pos(c, st.call), "the same LineReader is handed to more than one handler: their partial lines are joined", st.f.Graph().Trail(tr)...)
					ok = false
				}
			}
			if !ok {
				if s.newLR == nil {
					c.Undecided("C17-R1", key, pos(c, rg.Body), "cannot follow the reader parameter to a NewLineReader call at every call site")
				}
				continue
			}
			c.Ok("C17-R1", key, pos(c, s.newLR), "reader created by the caller, one per start of the handler")
		case pf == nil && len(defs) == 1 && defs[0].rhs != nil:
			if sel, isSel := core.Unparen(defs[0].rhs).(*ast.SelectorExpr); isSel {
				if v, isVar := info.Uses[sel.Sel].(*types.Var); isVar && v.IsField() {
					c.Fail("C17-R1", key, pos(c, defs[0].node), "the line reader is taken from a field of the stream object ("+exprStr(sel)+"), which every connection/goroutine of the stream shares: one fragment buffer serves several byte streams, so the partial line of one connection is joined to the data of another")
					continue
				}
			}
			call, _ := core.Unparen(defs[0].rhs).(*ast.CallExpr)
			if call == nil || rg.CalleeID(call) != c17NewLineReader {
				c.Undecided("C17-R1", key, pos(c, defs[0].node), "the line reader is not bound to a NewLineReader call")
				continue
			}
			s.newLR, s.newLRIn = call, c17FuncAt(c, decl, defs[0].node.Pos())
			dg := s.newLRIn.Graph()
			dp, okp := dg.PointOf(defs[0].node)
			if !okp {
				c.Undecided("C17-R1", key, pos(c, defs[0].node), "creation point not found in the CFG")
				continue
			}
			if c17InLoop(dg, dp) {
				c.Fail("C17-R1", key, pos(c, call), "the LineReader is re-created inside a loop: the unterminated fragment kept between two reads is thrown away with the old reader, so a line split across two writes is lost or cut")
				continue
			}
			c.Ok("C17-R1", key, pos(c, call), "bound once, outside any loop, in "+s.newLRIn.Key)
		default:
			c.Undecided("C17-R1", key, pos(c, rg.Body), fmt.Sprintf("the line reader variable has %d assignments; expected exactly one binding to NewLineReader", len(defs)))
			continue
		}
		nf := s.newLRIn
		ninfo := nf.Info()
		ndecl := c17DeclOf(c, nf)
		if len(s.newLR.Args) < 3 {
			c.Undecided("C17-R1", rg.Key+"|lines channel", pos(c, s.newLR), "NewLineReader call has fewer than 3 arguments")
			continue
		}
		// lines channel
		c.Verdict(c17IsLinesField(ninfo, s.newLR.Args[1], c17RecvObj(nf)), "C17-R1", rg.Key+"|lines channel", pos(c, s.newLR.Args[1]),
			"lines go to the stream's own channel",
			"the reader does not send to the stream's own lines channel (the one Lines() returns): what it reads is never delivered, or is delivered as another stream's lines")
		// byte source
		skey := rg.Key + "|byte source"
		src := c17SourceObj(ninfo, s.newLR.Args[2])
		if src == nil {
			c.Undecided("C17-R1", skey, pos(c, s.newLR.Args[2]), "cannot resolve the byte source argument to a variable")
			continue
		}
		s.srcObj = src
		sdefs := c17Defs(ndecl, src)
		spf, spidx := c17ParamOf(c, ndecl, src)
		switch {
		case spf == nil && len(sdefs) == 1 && sdefs[0].rhs != nil:
			call, _ := core.Unparen(sdefs[0].rhs).(*ast.CallExpr)
			in := c17FuncAt(c, ndecl, sdefs[0].node.Pos())
			if call == nil {
				c.Undecided("C17-R1", skey, pos(c, sdefs[0].node), "byte source is not the result of a call")
				break
			}
			id := in.CalleeID(call)
			if id == c17Accept && s.kind == "socket" {
				// reader created next to Accept (refactored shape): one per iteration is decided above via sites
				sp, ok1 := in.Graph().PointOf(sdefs[0].node)
				np, ok2 := nf.Graph().PointOf(s.newLR)
				if !ok1 || !ok2 || in != nf {
					c.Undecided("C17-R1", skey, pos(c, call), "Accept and NewLineReader are not in the same function")
					break
				}
				if tr, again := nf.Graph().Search(core.Query{From: &np, Goal: core.At(np), Avoid: core.At(sp)}); again {
					c.Fail("C17-R1", skey, pos(c, s.newLR), "a second LineReader can be created on the same accepted connection", nf.Graph().Trail(tr)...)
					break
				}
				c.Ok("C17-R1", skey, pos(c, call), "one reader per Accept result")
				// name of that connection inside the handler (for C17-R3)
				s.srcObj = nil
				for _, st := range sites {
					for j, a := range st.call.Args {
						if identObj(st.f.Info(), a) == src {
							s.srcObj = c17ParamAt(decl, j)
						}
					}
				}
				break
			}
			dp, okp := in.Graph().PointOf(sdefs[0].node)
			if !okp || in != nf {
				c.Undecided("C17-R1", skey, pos(c, call), "the descriptor is not opened in the function that creates the reader")
				break
			}
			if c17InLoop(in.Graph(), dp) {
				c.Fail("C17-R1", skey, pos(c, call), "the descriptor is re-opened in a loop while one LineReader keeps reading the first one")
				break
			}
			if s.kind == "socket" {
				c.Fail("C17-R1", skey, pos(c, call), "the stream-socket reader is not created per accepted connection (its byte source is "+id+"): lines of different connections share one fragment buffer and can be joined")
				break
			}
			c.Ok("C17-R1", skey, pos(c, call), "one descriptor ("+id+") per reader, opened once")
		case spf != nil && len(sdefs) == 0:
			if s.kind != "socket" {
				c.Undecided("C17-R1", skey, pos(c, s.newLR.Args[2]), "byte source is a parameter; only the stream-socket handler is expected to receive its connection")
				break
			}
			if spf != ndecl {
				c.Undecided("C17-R1", skey, pos(c, s.newLR.Args[2]), "connection is the parameter of a literal")
				break
			}
			sites = c17Callers(c, ndecl)
			if len(sites) == 0 {
				c.Undecided("C17-R1", skey, pos(c, ndecl.Decl), "no start site of the connection handler found")
				break
			}
			for i, st := range sites {
				k := fmt.Sprintf("%s|handler start#%d", rg.Key, i+1)
				o := identObj(st.f.Info(), st.call.Args[spidx])
				sd := c17DeclOf(c, st.f)
				var ds []c17Def
				if o != nil {
					ds = c17Defs(sd, o)
				}
				if len(ds) != 1 || ds[0].rhs == nil {
					c.Undecided("C17-R1", k, pos(c, st.call), "cannot resolve the connection passed to the handler to a single definition")
					continue
				}
				acall, _ := core.Unparen(ds[0].rhs).(*ast.CallExpr)
				if acall == nil || st.f.CalleeID(acall) != c17Accept || ds[0].idx != 0 || c17FuncAt(c, sd, ds[0].node.Pos()) != st.f {
					c.Fail("C17-R1", k, pos(c, st.call), "the connection handed to the handler is not the result of Listener.Accept in the same goroutine: the handler does not own one accepted connection")
					continue
				}
				ap, okp := st.f.Graph().PointOf(ds[0].node)
				if !okp {
					c.Undecided("C17-R1", k, pos(c, st.call), "Accept point not found")
					continue
				}
				site := st.hit.P
				var allSites []core.Point
				for _, o := range sites {
					if o.f == st.f {
						allSites = append(allSites, o.hit.P)
					}
				}
				if tr, again := st.f.Graph().Search(core.Query{From: &site, Goal: core.At(allSites...), Avoid: core.At(ap)}); again {
					c.Fail("C17-R1", k, pos(c, st.call), "two handlers (two LineReaders) can be started on the same accepted connection: its bytes are split between two fragment buffers", st.f.Graph().Trail(tr)...)
					continue
				}
				c.Ok("C17-R1", k, pos(c, st.call), "each start of the handler gets the Accept result of its own iteration")
			}
			c.Ok("C17-R1", skey, pos(c, s.newLR.Args[2]), "reader reads the handler's own connection parameter")
		default:
			c.Undecided("C17-R1", skey, pos(c, s.newLR.Args[2]), fmt.Sprintf("byte source variable has %d assignments", len(sdefs)))
		}
	}
	c.Floor("C17-R1", 9)
}

// ---------------------------------------------------------------- R2

// c17Ev is an occurrence of an exit-time event of a reading goroutine.
type c17Ev struct {
	hit    core.Hit
	in     *core.Func // function whose graph holds hit: the goroutine itself or a deferred literal
	defer_ int        // index of the defer statement (registration order) or -1 for a direct call
	order  int        // position in the exit sequence: 0 = body, then defers last-registered first
}

type c17Defer struct {
	p   core.Point
	st  *ast.DeferStmt
	lit *core.Func
}

func c17Defers(c *core.Check, f *core.Func) []c17Defer {
	var out []c17Defer
	for _, h := range f.Graph().Find(func(n ast.Node) bool { _, ok := n.(*ast.DeferStmt); return ok }) {
		ds := h.N.(*ast.DeferStmt)
		d := c17Defer{p: h.P, st: ds}
		if lit, ok := core.Unparen(ds.Call.Fun).(*ast.FuncLit); ok {
			d.lit = c.Prog.FuncOf[lit]
		}
		out = append(out, d)
	}
	return out
}

// c17Events finds the occurrences of an event at exit time of f: direct
// calls in the body, `defer call()` and calls in the body of deferred literals.
func c17Events(c *core.Check, f *core.Func, match func(in *core.Func, call *ast.CallExpr) bool) []c17Ev {
	var out []c17Ev
	ds := c17Defers(c, f)
	k := len(ds)
	g := f.Graph()
	for _, h := range g.Calls(func(_ string, call *ast.CallExpr) bool { return match(f, call) }) {
		if !h.InDefer {
			out = append(out, c17Ev{hit: h, in: f, defer_: -1, order: 0})
			continue
		}
		for i, d := range ds {
			if d.p == h.P && d.st.Call == h.N {
				out = append(out, c17Ev{hit: h, in: f, defer_: i, order: k - i})
			}
		}
	}
	for i, d := range ds {
		if d.lit == nil {
			continue
		}
		for _, h := range d.lit.Graph().Calls(func(_ string, call *ast.CallExpr) bool { return match(d.lit, call) }) {
			if h.InDefer || h.InGo {
				continue
			}
			out = append(out, c17Ev{hit: h, in: d.lit, defer_: i, order: k - i})
		}
	}
	return out
}

// c17Guaranteed decides whether every exit of f that follows a read passes
// the event.  It returns a witness trail when not.
func c17Guaranteed(c *core.Check, f *core.Func, reads []core.Hit, evs []c17Ev) (bool, []string) {
	g := f.Graph()
	ds := c17Defers(c, f)
	exits := core.ExitPoints(normalExits(g))
	var direct []core.Point
	byDefer := map[int][]core.Point{}
	for _, e := range evs {
		if e.defer_ < 0 {
			direct = append(direct, e.hit.P)
		} else {
			byDefer[e.defer_] = append(byDefer[e.defer_], e.hit.P)
		}
	}
	var firstTrail []string
	for i, pts := range byDefer {
		d := ds[i]
		if d.lit != nil {
			lg := d.lit.Graph()
			if tr, skip := pathAvoiding(lg, nil, core.ExitPoints(normalExits(lg)), pts); skip {
				if firstTrail == nil {
					firstTrail = append([]string{"inside the deferred function:"}, tr...)
				}
				continue
			}
		}
		// registered on every path before the first read?
		if tr, skip := pathAvoiding(g, nil, core.HitPoints(reads), []core.Point{d.p}); skip {
			if firstTrail == nil {
				firstTrail = append([]string{"a read is reached without registering the defer:"}, tr...)
			}
			continue
		}
		return true, nil
	}
	if len(direct) > 0 {
		ok := true
		for _, r := range reads {
			from := r.P
			if tr, skip := pathAvoiding(g, &from, exits, direct); skip {
				ok = false
				if firstTrail == nil {
					firstTrail = tr
				}
				break
			}
		}
		if ok {
			return true, nil
		}
	}
	if firstTrail == nil {
		for _, r := range reads {
			from := r.P
			if tr, found := pathAvoiding(g, &from, exits, nil); found {
				firstTrail = tr
				break
			}
		}
	}
	return false, firstTrail
}

// c17Before decides that every occurrence of a runs before every occurrence
// of b in the exit sequence.  Empty string = yes.
func c17Before(as, bs []c17Ev) string {
	for _, b := range bs {
		for _, a := range as {
			switch {
			case a.order < b.order:
			case a.order > b.order:
				return "runs after"
			default:
				if a.in != b.in {
					return "cannot order"
				}
				g := a.in.Graph()
				from := b.hit.P
				if _, found := g.Search(core.Query{From: &from, Goal: core.At(a.hit.P)}); found {
					return "runs after"
				}
				if a.hit.P.B == b.hit.P.B && a.hit.P.I > b.hit.P.I {
					return "runs after"
				}
				if a.hit.P == b.hit.P && a.hit.N.Pos() > b.hit.N.Pos() {
					return "runs after"
				}
			}
		}
	}
	return ""
}

func (s *c17Stream) isFinish(in *core.Func, call *ast.CallExpr) bool {
	return in.CalleeID(call) == lrFinish && identObj(in.Info(), core.RecvExpr(call)) == s.lrObj && s.lrObj != nil
}

func (s *c17Stream) isCloseLines(in *core.Func, call *ast.CallExpr) bool {
	return in.CalleeID(call) == "builtin.close" && len(call.Args) == 1 && c17IsLinesField(in.Info(), call.Args[0], c17RecvObj(in))
}

func c17R2(c *core.Check, streams []*c17Stream) {
	c.Rule("C17-R2", "FLUSH-THEN-CLOSE: every exit of a reading goroutine that follows a read runs LineReader.Finish on the loop's reader; each stream type closes its lines channel at exactly one site, executed exactly once, and only after the flush (fifo, datagram) or after Listener.Close and then WaitGroup.Wait on the handlers' WaitGroup (stream socket); a connection handler flushes before it calls Done on that WaitGroup; WaitGroup.Add precedes every handler start")
	for _, s := range streams {
		if s.lrObj == nil {
			c.Undecided("C17-R2", s.rg.Key+"|flush on exit", pos(c, s.rg.Body), "line reader not resolved (see C17-R1)")
			continue
		}
		rg := s.rg
		fin := c17Events(c, rg, s.isFinish)
		ok, tr := c17Guaranteed(c, rg, s.reads, fin)
		c.Verdict(ok, "C17-R2", rg.Key+"|flush on exit", pos(c, rg.Body), fmt.Sprintf("Finish on every exit (%d sites)", len(fin)),
			"the reading goroutine can end without LineReader.Finish: the unterminated tail of the pipe/connection is never delivered", tr...)
		// close sites of the whole stream type
		var closes []c17Site
		for _, f := range s.funcs {
			for _, h := range f.Graph().Calls(func(_ string, call *ast.CallExpr) bool { return s.isCloseLines(f, call) }) {
				closes = append(closes, c17Site{f, h, h.N.(*ast.CallExpr)})
			}
		}
		ckey := s.typ + "|close(lines) sites"
		if len(closes) != 1 {
			if len(closes) == 0 {
				c.Fail("C17-R2", ckey, pos(c, rg.Body), "the stream type never closes its lines channel: the stream's output never ends and the tailer waits for it forever")
			} else {
				c.Fail("C17-R2", ckey, pos(c, closes[1].call), fmt.Sprintf("the lines channel is closed at %d sites: a second close panics (or one goroutine closes while another still sends)", len(closes)))
			}
			continue
		}
		c.Ok("C17-R2", ckey, pos(c, closes[0].call), "one close site, in "+closes[0].f.Key)
		cf := closes[0].f
		if s.kind != "socket" {
			// the close must be an exit event of the reading goroutine, after the flush
			cl := c17Events(c, rg, s.isCloseLines)
			if len(cl) != 1 {
				c.Fail("C17-R2", rg.Key+"|close on exit", pos(c, closes[0].call), "the lines channel is not closed by the reading goroutine's exit sequence (found in "+cf.Key+"): it can be closed while the reader still sends")
				continue
			}
			ok, tr := c17Guaranteed(c, rg, s.reads, cl)
			once := !c17InLoop(cl[0].in.Graph(), cl[0].hit.P)
			c.Verdict(ok && once, "C17-R2", rg.Key+"|close on exit", pos(c, cl[0].hit.N), "closed exactly once on every exit",
				"the reading goroutine can end without closing the lines channel (or closes it repeatedly): the stream never ends for its consumer, or a second close panics", tr...)
			why := c17Before(fin, cl)
			c.Verdict(why == "", "C17-R2", rg.Key+"|flush before close", pos(c, cl[0].hit.N), "Finish runs before close(lines)",
				"LineReader.Finish "+why+" close(lines) in the exit sequence: the final fragment is sent on a closed channel (panic) instead of being delivered")
			// the goroutine itself starts once per stream
			c17StartedOnce(c, s, rg)
			continue
		}
		// ---- stream socket
		// handler: flush before Done on its WaitGroup parameter
		hdecl := c17DeclOf(c, rg)
		var wgParam types.Object
		wgIdx := -1
		{
			i := 0
			for _, fl := range hdecl.Type.Params.List {
				for _, nm := range fl.Names {
					if t := hdecl.Info().TypeOf(fl.Type); t != nil && strings.HasSuffix(t.String(), "sync.WaitGroup") {
						wgParam, wgIdx = hdecl.Info().Defs[nm], i
					}
					i++
				}
				if len(fl.Names) == 0 {
					i++
				}
			}
		}
		hkey := rg.Key + "|flush before Done"
		if wgParam == nil || hdecl != rg {
			c.Undecided("C17-R2", hkey, pos(c, rg.Body), "the connection handler is expected to be a method with a *sync.WaitGroup parameter")
			continue
		}
		done := c17Events(c, rg, func(in *core.Func, call *ast.CallExpr) bool {
			return in.CalleeID(call) == c17WgDone && identObj(in.Info(), core.RecvExpr(call)) == wgParam
		})
		okd, trd := c17Guaranteed(c, rg, s.reads, done)
		if !okd {
			c.Fail("C17-R2", hkey, pos(c, rg.Body), "the connection handler can end without WaitGroup.Done: the shutdown goroutine waits forever and the lines channel is never closed", trd...)
		} else {
			why := c17Before(fin, done)
			c.Verdict(why == "", "C17-R2", hkey, pos(c, done[0].hit.N), "Finish runs before Done",
				"LineReader.Finish "+why+" WaitGroup.Done in the handler's exit sequence: the shutdown goroutine may close the lines channel before the connection's final fragment is sent (send on closed channel / fragment lost)")
		}
		// shutdown function: Listener.Close -> Wait -> close(lines)
		cg := cf.Graph()
		cp := closes[0].hit.P
		skey := cf.Key + "|shutdown order"
		// handler start sites give the listener and the WaitGroup
		starts := c17Callers(c, hdecl)
		if len(starts) == 0 {
			c.Undecided("C17-R2", skey, pos(c, cf.Body), "no start site of the connection handler")
			continue
		}
		var wgObj, lObj types.Object
		for i, st := range starts {
			k := fmt.Sprintf("%s|handler start#%d Add", rg.Key, i+1)
			arg := core.Unparen(st.call.Args[wgIdx])
			if u, ok := arg.(*ast.UnaryExpr); ok && u.Op == token.AND {
				arg = u.X
			}
			wo := identObj(st.f.Info(), arg)
			if wo == nil {
				c.Undecided("C17-R2", k, pos(c, st.call), "cannot resolve the WaitGroup handed to the handler")
				continue
			}
			if wgObj != nil && wgObj != wo {
				c.Undecided("C17-R2", k, pos(c, st.call), "handlers are tracked by different WaitGroups")
				continue
			}
			wgObj = wo
			sg := st.f.Graph()
			adds := sg.Calls(func(id string, call *ast.CallExpr) bool {
				if id != c17WgAdd || identObj(st.f.Info(), core.RecvExpr(call)) != wo {
					return false
				}
				v, isC := constInt(st.f.Info(), call.Args[0])
				return isC && v == 1
			})
			accepts := sg.CallsTo(c17Accept)
			for _, a := range accepts {
				lObj = identObj(st.f.Info(), core.RecvExpr(a.N.(*ast.CallExpr)))
			}
			// from the start of an iteration (Accept) to the handler start, Add(1) cannot be skipped;
			// and between two starts there is an Add.
			bad := false
			for _, a := range accepts {
				from := a.P
				if tr, skip := pathAvoiding(sg, &from, []core.Point{st.hit.P}, core.HitPoints(adds)); skip {
					bad = true
					c.Fail("C17-R2", k, pos(c, st.call), "a connection handler is started without a preceding WaitGroup.Add(1) on the handlers' WaitGroup: the shutdown goroutine's Wait can return while the handler still reads, and the lines channel is closed under it", tr...)
					break
				}
			}
			if len(accepts) == 0 {
				if tr, skip := pathAvoiding(sg, nil, []core.Point{st.hit.P}, core.HitPoints(adds)); skip {
					bad = true
					c.Fail("C17-R2", k, pos(c, st.call), "a connection handler is started without a preceding WaitGroup.Add(1)", tr...)
				}
			}
			if !bad {
				c.Ok("C17-R2", k, pos(c, st.call), "Add(1) before every start")
			}
		}
		if wgObj == nil || lObj == nil {
			c.Undecided("C17-R2", skey, pos(c, cf.Body), "listener or handlers' WaitGroup not resolved")
			continue
		}
		waits := cg.Calls(func(id string, call *ast.CallExpr) bool {
			return id == c17WgWait && identObj(cf.Info(), core.RecvExpr(call)) == wgObj
		})
		lcloses := cg.Calls(func(id string, call *ast.CallExpr) bool {
			return id == c17ListenerClose && identObj(cf.Info(), core.RecvExpr(call)) == lObj
		})
		exits := core.ExitPoints(normalExits(cg))
		switch {
		case closes[0].hit.InDefer || closes[0].hit.InGo:
			c.Undecided("C17-R2", skey, pos(c, closes[0].call), "close(lines) inside a defer/go statement of the shutdown function: shape not recognised")
		default:
			if tr, skip := pathAvoiding(cg, nil, []core.Point{cp}, core.HitPoints(waits)); skip {
				c.Fail("C17-R2", skey+"|join", pos(c, closes[0].call), "close(lines) can be reached without WaitGroup.Wait on the handlers' WaitGroup: a connection handler still sending its lines or its final fragment hits a closed channel", tr...)
			} else {
				c.Ok("C17-R2", skey+"|join", pos(c, closes[0].call), "handlers joined before close")
			}
			if len(waits) > 0 {
				if tr, skip := pathAvoiding(cg, nil, core.HitPoints(waits), core.HitPoints(lcloses)); skip {
					c.Fail("C17-R2", skey+"|listener", pos(c, waits[0].N), "the handlers are joined without first closing the listener: a connection accepted after the join sends on the closed lines channel, and Accept never returns", tr...)
				} else {
					c.Ok("C17-R2", skey+"|listener", pos(c, waits[0].N), "listener closed before the join")
				}
			}
			tr, skip := pathAvoiding(cg, nil, exits, []core.Point{cp})
			once := !c17InLoop(cg, cp)
			c.Verdict(!skip && once, "C17-R2", skey+"|close on exit", pos(c, closes[0].call), "closed exactly once on every exit",
				"the shutdown goroutine can end without closing the lines channel (or closes it in a loop): the stream never ends for its consumer", tr...)
		}
		// the goroutine that adds handlers must have ended before the handlers are joined
		for _, st := range starts {
			ag := st.f
			jk := cf.Key + "|shutdown order|accept loop joined"
			if ag == cf {
				c.Ok("C17-R2", jk, pos(c, st.call), "handlers are started by the shutdown function itself")
				continue
			}
			var joins []core.Point
			var joinDesc []string
			deferredIn := func(match func(in *core.Func, call *ast.CallExpr) bool) bool {
				for _, e := range c17Events(c, ag, match) {
					if e.defer_ < 0 {
						continue
					}
					d := c17Defers(c, ag)[e.defer_]
					ag2 := ag.Graph()
					if _, skip := pathAvoiding(ag2, nil, core.ExitPoints(normalExits(ag2)), []core.Point{d.p}); !skip {
						return true
					}
				}
				return false
			}
			for _, u := range c17BareReceives(cf) {
				x := identObj(cf.Info(), u.X)
				if x == nil {
					continue
				}
				if deferredIn(func(in *core.Func, call *ast.CallExpr) bool {
					return in.CalleeID(call) == "builtin.close" && len(call.Args) == 1 && identObj(in.Info(), call.Args[0]) == x
				}) {
					if p, ok := cg.PointOf(u); ok {
						joins = append(joins, p)
						joinDesc = append(joinDesc, "<-"+exprStr(u.X))
					}
				}
			}
			for _, h := range cg.CallsTo(c17WgWait) {
				y := identObj(cf.Info(), core.RecvExpr(h.N.(*ast.CallExpr)))
				if y == nil || y == wgObj {
					continue
				}
				if deferredIn(func(in *core.Func, call *ast.CallExpr) bool {
					return in.CalleeID(call) == c17WgDone && identObj(in.Info(), core.RecvExpr(call)) == y
				}) {
					joins = append(joins, h.P)
					joinDesc = append(joinDesc, exprStr(h.N.(*ast.CallExpr)))
				}
			}
			// does Add come only after Accept?
			sg := ag.Graph()
			addAfterAccept := false
			for _, a := range sg.CallsTo(c17Accept) {
				from := a.P
				adds := sg.Calls(func(id string, call *ast.CallExpr) bool {
					return id == c17WgAdd && identObj(ag.Info(), core.RecvExpr(call)) == wgObj
				})
				if _, reach := pathAvoiding(sg, &from, core.HitPoints(adds), nil); reach {
					addAfterAccept = true
				}
				if _, pre := pathAvoiding(sg, nil, []core.Point{a.P}, core.HitPoints(adds)); !pre {
					addAfterAccept = false // an Add on every path before the first Accept: the pre-add shape
				}
			}
			if !addAfterAccept {
				c.Undecided("C17-R2", jk, pos(c, st.call), "the handlers' WaitGroup is not incremented after Accept in the accept loop: shape not recognised")
				continue
			}
			if tr, skip := pathAvoiding(cg, nil, core.HitPoints(waits), joins); skip && len(waits) > 0 {
				c.Fail("C17-R2", jk, pos(c, waits[0].N), "the accept loop ("+ag.Key+") counts a handler in the WaitGroup only after Accept has returned, and the shutdown goroutine reaches WaitGroup.Wait without first waiting for the accept loop to end: a connection accepted while the listener is being closed gets its handler after Wait has returned and close(lines) has run, and the handler's line is sent on a closed channel (panic: send on closed channel -- the process dies instead of the stream ending)", tr...)
				continue
			}
			if tr, early := pathAvoiding(cg, nil, joins, core.HitPoints(lcloses)); early {
				c.Fail("C17-R2", jk, pos(c, st.call), "the shutdown goroutine waits for the accept loop to end before it has closed the listener: Accept never returns, so the wait never ends and the lines channel is never closed", tr...)
				continue
			}
			c.Ok("C17-R2", jk, pos(c, st.call), "accept loop joined ("+strings.Join(joinDesc, ", ")+") after the listener is closed and before the handlers are joined")
		}
		// in tailing (not one-shot) mode the shutdown function must not get to the close before cancellation
		{
			sim := &c17Sim{c: c, cancelled: false, oneShot: false, localRdy: true}
			reached := func(n ast.Node) bool {
				hit := false
				core.InspectNoLit(n, func(x ast.Node) bool {
					if x == ast.Node(closes[0].call) {
						hit = true
					}
					for _, lc := range lcloses {
						if x == lc.N {
							hit = true
						}
					}
					return !hit
				})
				return hit
			}
			t := sim.run(cf, map[types.Object]c17Val{}, cg.Entry(), reached)
			k := cf.Key + "|tailing mode ends only on cancellation"
			switch t.kind {
			case "wait":
				c.Ok("C17-R2", k, pos(c, t.at), "after the first connection the shutdown goroutine waits for the context to be done")
			case "unknown":
				c.Undecided("C17-R2", k, pos(c, cf.Body), "cannot execute the shutdown function abstractly: "+sim.why)
			default:
				c.Fail("C17-R2", k, pos(c, closes[0].call), "not one-shot and not cancelled, the shutdown goroutine still closes the listener and the lines channel once the first connection has been accepted: later connections are refused and their lines never delivered", t.trail...)
			}
		}
		c17StartedOnce(c, s, cf)
	}
	c.Floor("C17-R2", 16)
}

// c17StartedOnce checks that the goroutine literal f (which closes the lines
// channel) is started by one go statement that is not in a loop, in a method
// that the constructor calls once.
func c17StartedOnce(c *core.Check, s *c17Stream, f *core.Func) {
	key := f.Key + "|started once"
	if f.Lit == nil || f.Parent == nil {
		c.Undecided("C17-R2", key, pos(c, f.Body), "the function closing the lines channel is not a goroutine literal")
		return
	}
	pg := f.Parent.Graph()
	var gp *core.Point
	for _, h := range pg.Find(func(n ast.Node) bool {
		gs, ok := n.(*ast.GoStmt)
		return ok && core.Unparen(gs.Call.Fun) == ast.Expr(f.Lit)
	}) {
		p := h.P
		gp = &p
	}
	if gp == nil {
		c.Undecided("C17-R2", key, pos(c, f.Lit), "no go statement starts the function closing the lines channel")
		return
	}
	if c17InLoop(pg, *gp) {
		c.Fail("C17-R2", key, pos(c, f.Lit), "the goroutine that closes the lines channel is started in a loop: the channel is closed more than once (panic)")
		return
	}
	// callers of the parent method: constructor only, not in a loop
	pd := c17DeclOf(c, f.Parent)
	if pd != f.Parent {
		c.Undecided("C17-R2", key, pos(c, f.Lit), "goroutine nested in another literal")
		return
	}
	for _, st := range c17Callers(c, pd) {
		if c17RecvType(st.f) == s.typ || c17InLoop(st.f.Graph(), st.hit.P) {
			c.Fail("C17-R2", key, pos(c, st.call), "the method that starts the closing goroutine is called again for the same stream object (from "+st.f.Key+"): the lines channel is closed twice")
			return
		}
	}
	c.Ok("C17-R2", key, pos(c, f.Lit), "one go statement, outside loops, method called from the constructor only")
}

// ---------------------------------------------------------------- R3 / R4

// c17CtxOK classifies a context expression: "ok" = a context parameter of the
// enclosing declaration (or literal) or derived from one by context.With*;
// "bad" = rooted in context.Background()/TODO(); "" = unknown.
func c17CtxOK(c *core.Check, f *core.Func, e ast.Expr, seen map[types.Object]bool) string {
	e = core.Unparen(e)
	if call, ok := e.(*ast.CallExpr); ok {
		switch id := f.CalleeID(call); id {
		case "context.Background", "context.TODO":
			return "bad"
		case "context.WithCancel", "context.WithTimeout", "context.WithDeadline", "context.WithValue", "context.WithCancelCause", "context.WithoutCancel":
			if id == "context.WithoutCancel" {
				return "bad"
			}
			return c17CtxOK(c, f, call.Args[0], seen)
		}
		return ""
	}
	obj := identObj(f.Info(), e)
	if obj == nil {
		return ""
	}
	if t := obj.Type(); t == nil || t.String() != "context.Context" {
		return ""
	}
	if seen == nil {
		seen = map[types.Object]bool{}
	}
	if seen[obj] {
		return "ok" // cyclic re-derivation (ctx, cancel := context.WithCancel(ctx)): decided by the other definitions
	}
	seen[obj] = true
	decl := c17DeclOf(c, f)
	pf, pidx := c17ParamOf(c, decl, obj)
	defs := c17Defs(decl, obj)
	if pf == nil && len(defs) == 0 {
		return ""
	}
	res := "ok"
	if pf == decl && !decl.Decl.Name.IsExported() && len(seen) < 12 {
		// the parameter of an unexported function: every caller inside the module must pass a good context
		for _, cs := range c17Callers(c, decl) {
			if pidx >= len(cs.call.Args) {
				return ""
			}
			switch c17CtxOK(c, cs.f, cs.call.Args[pidx], seen) {
			case "bad":
				res = "bad"
			case "":
				if res != "bad" {
					res = ""
				}
			}
		}
	}
	for _, d := range defs {
		if d.rhs == nil || d.idx != 0 {
			return ""
		}
		switch c17CtxOK(c, c17FuncAt(c, decl, d.node.Pos()), d.rhs, seen) {
		case "bad":
			res = "bad"
		case "":
			if res != "bad" {
				res = ""
			}
		}
	}
	return res
}

// c17Selects lists the select statements of f (not in nested literals).
func c17Selects(f *core.Func) []*ast.SelectStmt {
	var out []*ast.SelectStmt
	core.InspectNoLit(f.Body, func(n ast.Node) bool {
		if s, ok := n.(*ast.SelectStmt); ok {
			out = append(out, s)
		}
		return true
	})
	return out
}

// c17CommRecv returns the channel expression received from by a comm clause, or nil (send / default).
func c17CommRecv(cc *ast.CommClause) ast.Expr {
	var e ast.Expr
	switch x := cc.Comm.(type) {
	case *ast.ExprStmt:
		e = x.X
	case *ast.AssignStmt:
		if len(x.Rhs) == 1 {
			e = x.Rhs[0]
		}
	}
	if u, ok := core.Unparen(e).(*ast.UnaryExpr); ok && u.Op == token.ARROW {
		return u.X
	}
	return nil
}

// c17BareReceives lists the receive expressions of f that are not the
// communication of a select clause.
func c17BareReceives(f *core.Func) []*ast.UnaryExpr {
	comm := map[ast.Node]bool{}
	for _, s := range c17Selects(f) {
		for _, cl := range s.Body.List {
			if cc := cl.(*ast.CommClause); cc.Comm != nil {
				comm[cc.Comm] = true
			}
		}
	}
	var out []*ast.UnaryExpr
	var walk func(n ast.Node)
	walk = func(n ast.Node) {
		core.InspectNoLit(n, func(x ast.Node) bool {
			if comm[x] {
				return false
			}
			if u, ok := x.(*ast.UnaryExpr); ok && u.Op == token.ARROW {
				out = append(out, u)
			}
			return true
		})
	}
	walk(f.Body)
	return out
}

func c17IsDoneCall(f *core.Func, e ast.Expr) (*ast.CallExpr, bool) {
	call, ok := core.Unparen(e).(*ast.CallExpr)
	if !ok || f.CalleeID(call) != c17CtxDone {
		return nil, false
	}
	return call, true
}

// c17BlockingFuncs: every function body of the three stream types plus the deadline helper.
func c17BlockingFuncs(c *core.Check, streams []*c17Stream) []*core.Func {
	var out []*core.Func
	for _, s := range streams {
		out = append(out, s.funcs...)
	}
	if f := c.Prog.Fn(c17SetDeadline); f != nil {
		out = append(out, f)
		out = append(out, f.Lits...)
	}
	return out
}

func c17R3(c *core.Check, streams []*c17Stream) {
	c.Rule("C17-R3", "INTERRUPTIBLE: every reading goroutine calls SetReadDeadlineOnDone(ctx, d) on every path before its first ReadAndSend, d being the descriptor its LineReader reads and ctx a context derived from the stream's context parameter (and the stream's start method receives such a context); SetReadDeadlineOnDone starts a goroutine that receives from ctx.Done() and then, on every path, calls d.SetReadDeadline(time.Now()); every select without default in the stream code has a case receiving from Done() of such a context")
	for _, s := range streams {
		rg := s.rg
		g := rg.Graph()
		key := rg.Key + "|deadline armed"
		dl := g.CallsTo(c17SetDeadline)
		host := rg
		if len(dl) == 0 && rg.Parent != nil {
			host = rg.Parent
			dl = host.Graph().CallsTo(c17SetDeadline)
		}
		if len(dl) == 0 {
			c.Fail("C17-R3", key, pos(c, rg.Body), "the reading goroutine never arms SetReadDeadlineOnDone: a Read blocked on an idle "+s.kind+" is not interrupted by cancellation, so the stream does not end until the peer writes or closes")
			continue
		}
		var tr []string
		var skip bool
		if host == rg {
			tr, skip = pathAvoiding(g, nil, core.HitPoints(s.reads), core.HitPoints(dl))
		} else {
			var gos []core.Point
			for _, h := range host.Graph().Find(func(n ast.Node) bool {
				gs, ok := n.(*ast.GoStmt)
				return ok && core.Unparen(gs.Call.Fun) == ast.Expr(rg.Lit)
			}) {
				gos = append(gos, h.P)
			}
			tr, skip = pathAvoiding(host.Graph(), nil, gos, core.HitPoints(dl))
		}
		c.Verdict(!skip, "C17-R3", key, pos(c, dl[0].N), "armed on every path before the first read",
			"a read can be reached without SetReadDeadlineOnDone: that Read is not interrupted by cancellation", tr...)
		for i, h := range dl {
			call := h.N.(*ast.CallExpr)
			if len(call.Args) != 2 {
				continue
			}
			k := fmt.Sprintf("%s|deadline#%d", rg.Key, i+1)
			d := c17SourceObj(host.Info(), call.Args[1])
			switch {
			case d == nil || s.srcObj == nil:
				c.Undecided("C17-R3", k+" descriptor", pos(c, call.Args[1]), "cannot resolve the descriptor argument (or the reader's byte source)")
			default:
				c.Verdict(d == s.srcObj, "C17-R3", k+" descriptor", pos(c, call.Args[1]), "deadline is set on the descriptor the reader reads",
					"the read deadline is armed on a different descriptor than the one the LineReader reads: cancellation does not interrupt the blocked Read")
			}
			switch c17CtxOK(c, host, call.Args[0], nil) {
			case "ok":
				c.Ok("C17-R3", k+" context", pos(c, call.Args[0]), "context derived from the stream's context")
			case "bad":
				c.Fail("C17-R3", k+" context", pos(c, call.Args[0]), "the context watched for the read deadline is rooted in context.Background/TODO: cancelling the stream never interrupts the blocked Read")
			default:
				c.Undecided("C17-R3", k+" context", pos(c, call.Args[0]), "cannot trace the context argument to a context parameter")
			}
		}
		// the declaration that hosts the goroutine gets a cancellable context from its callers
		decl := c17DeclOf(c, rg)
		ci := -1
		{
			i := 0
			for _, fl := range decl.Type.Params.List {
				n := len(fl.Names)
				if n == 0 {
					n = 1
				}
				if t := decl.Info().TypeOf(fl.Type); t != nil && t.String() == "context.Context" && ci < 0 {
					ci = i
				}
				i += n
			}
		}
		ck := decl.Key + "|context chain"
		if ci < 0 {
			c.Undecided("C17-R3", ck, pos(c, decl.Decl), "no context parameter")
		} else {
			st := "ok"
			var at ast.Node = decl.Decl
			sites := c17Callers(c, decl)
			for _, cs := range sites {
				if r := c17CtxOK(c, cs.f, cs.call.Args[ci], nil); r != "ok" && st == "ok" {
					st, at = r, cs.call
				}
			}
			switch {
			case len(sites) == 0:
				c.Undecided("C17-R3", ck, pos(c, decl.Decl), "no caller found")
			case st == "ok":
				c.Ok("C17-R3", ck, pos(c, at), fmt.Sprintf("%d caller(s) pass a context derived from their own context parameter", len(sites)))
			case st == "bad":
				c.Fail("C17-R3", ck, pos(c, at), "the stream is started with a context rooted in context.Background/TODO: cancelling the tailer does not end the stream")
			default:
				c.Undecided("C17-R3", ck, pos(c, at), "cannot trace the context passed by a caller")
			}
		}
	}
	// SetReadDeadlineOnDone itself
	if f := c.MustFn("C17-R3", c17SetDeadline); f != nil {
		key := c17SetDeadline
		var ctxP, dP types.Object
		for _, fl := range f.Type.Params.List {
			for _, nm := range fl.Names {
				o := f.Info().Defs[nm]
				if o.Type().String() == "context.Context" {
					ctxP = o
				} else {
					dP = o
				}
			}
		}
		blocks := len(c17BareReceives(f)) > 0 || len(c17Selects(f)) > 0
		var inPlace []*core.Func
		core.InspectNoLit(f.Body, func(n ast.Node) bool {
			if call, ok := n.(*ast.CallExpr); ok {
				if lit, ok := core.Unparen(call.Fun).(*ast.FuncLit); ok {
					if lf := c.Prog.FuncOf[lit]; lf != nil {
						inPlace = append(inPlace, lf)
					}
				}
			}
			return true
		})
		for _, gs := range goLits(c, f) {
			for i, lf := range inPlace {
				if lf == gs {
					inPlace = append(inPlace[:i:i], inPlace[i+1:]...)
					break
				}
			}
		}
		for _, lf := range inPlace {
			if len(c17BareReceives(lf)) > 0 || len(c17Selects(lf)) > 0 {
				blocks = true
			}
		}
		if blocks {
			c.Fail("C17-R3", key+"|asynchronous", pos(c, f.Body), "SetReadDeadlineOnDone itself waits (outside a goroutine): the caller is parked until cancellation and its read loop never starts, nothing is delivered")
		} else {
			c.Ok("C17-R3", key+"|asynchronous", pos(c, f.Body), "returns without blocking")
		}
		gl := goLits(c, f)
		if len(gl) == 0 && len(inPlace) == 1 {
			gl = inPlace // decided as failing above; still check what the literal does
		}
		if len(gl) != 1 || ctxP == nil || dP == nil {
			c.Undecided("C17-R3", key+"|watcher", pos(c, f.Body), fmt.Sprintf("expected one goroutine literal and (ctx, d) parameters, found %d literals", len(gl)))
		} else {
			lf := gl[0]
			c.Analysed(lf)
			lg := lf.Graph()
			var waits []core.Point
			for _, u := range c17BareReceives(lf) {
				if call, ok := c17IsDoneCall(lf, u.X); ok && identObj(lf.Info(), core.RecvExpr(call)) == ctxP {
					if p, ok := lg.PointOf(u); ok {
						waits = append(waits, p)
					}
				}
			}
			sets := lg.Calls(func(id string, call *ast.CallExpr) bool {
				return strings.HasSuffix(id, ".SetReadDeadline") && identObj(lf.Info(), core.RecvExpr(call)) == dP
			})
			exits := core.ExitPoints(normalExits(lg))
			if len(sets) == 0 {
				c.Fail("C17-R3", key+"|watcher", pos(c, lf.Body), "the watcher goroutine never calls SetReadDeadline on the descriptor it was given: cancellation does not interrupt a blocked Read")
			} else {
				tr1, skip1 := pathAvoiding(lg, nil, exits, core.HitPoints(sets))
				tr2, early := pathAvoiding(lg, nil, core.HitPoints(sets), waits)
				switch {
				case skip1:
					c.Fail("C17-R3", key+"|watcher", pos(c, sets[0].N), "the watcher goroutine can end without setting the read deadline: a blocked Read is not interrupted by cancellation", tr1...)
				case early:
					c.Fail("C17-R3", key+"|watcher", pos(c, sets[0].N), "the read deadline is set without waiting for the context to be done: reads of a live stream time out and the stream ends (or spins) while it is not cancelled", tr2...)
				default:
					c.Ok("C17-R3", key+"|watcher", pos(c, sets[0].N), "after <-ctx.Done(), SetReadDeadline on every path")
				}
				for i, h := range sets {
					call := h.N.(*ast.CallExpr)
					k := fmt.Sprintf("%s|deadline value#%d", key, i+1)
					switch v := c17DeadlineValue(lf, call.Args[0]); v {
					case "now":
						c.Ok("C17-R3", k, pos(c, call.Args[0]), "time.Now(): already expired when the Read is retried")
					case "zero":
						c.Fail("C17-R3", k, pos(c, call.Args[0]), "the deadline value is the zero time, which removes the deadline: a blocked Read is not interrupted by cancellation")
					case "future":
						c.Fail("C17-R3", k, pos(c, call.Args[0]), "the deadline is set in the future: cancellation does not interrupt the blocked Read until then, the stream does not end when cancelled")
					default:
						c.Undecided("C17-R3", k, pos(c, call.Args[0]), "deadline value is not time.Now() (possibly with a constant offset)")
					}
				}
			}
		}
	}
	// selects
	for _, f := range c17BlockingFuncs(c, streams) {
		for i, sel := range c17Selects(f) {
			hasDefault, hasDone, badCtx := false, false, false
			var chans []string
			for _, cl := range sel.Body.List {
				cc := cl.(*ast.CommClause)
				if cc.Comm == nil {
					hasDefault = true
					continue
				}
				x := c17CommRecv(cc)
				if x == nil {
					chans = append(chans, "send")
					continue
				}
				chans = append(chans, exprStr(x))
				if call, ok := c17IsDoneCall(f, x); ok {
					switch c17CtxOK(c, f, core.RecvExpr(call), nil) {
					case "ok":
						hasDone = true
					case "bad":
						badCtx = true
					}
				}
			}
			if hasDefault {
				continue
			}
			key := fmt.Sprintf("%s|select#%d", f.Key, i+1)
			c.Verdict(hasDone, "C17-R3", key, pos(c, sel), "waits for cancellation too ("+strings.Join(chans, ", ")+")",
				fmt.Sprintf("a blocking select (on %s) has no case for the stream context's Done()%s: after cancellation nothing is guaranteed to release it (the waker stops waking once its context is cancelled, no further connection may arrive), the goroutine stays parked here and the lines channel is never closed", strings.Join(chans, ", "), map[bool]string{true: " (the Done() it has belongs to a Background/TODO context)", false: ""}[badCtx]))
		}
	}
	c.Floor("C17-R3", 18)
}

// c17DeadlineValue classifies the argument of SetReadDeadline.
func c17DeadlineValue(f *core.Func, e ast.Expr) string {
	e = core.Unparen(e)
	if cl, ok := e.(*ast.CompositeLit); ok && len(cl.Elts) == 0 {
		if t := f.Info().TypeOf(cl); t != nil && t.String() == "time.Time" {
			return "zero"
		}
	}
	call, ok := e.(*ast.CallExpr)
	if !ok {
		return ""
	}
	switch f.CalleeID(call) {
	case "time.Now":
		return "now"
	case "time.Time.Add":
		if c17DeadlineValue(f, core.RecvExpr(call)) != "now" {
			return ""
		}
		tv, has := f.Info().Types[call.Args[0]]
		if !has || tv.Value == nil {
			return ""
		}
		var v int64
		if _, err := fmt.Sscan(tv.Value.ExactString(), &v); err != nil {
			return ""
		}
		if v > 0 {
			return "future"
		}
		return "now"
	}
	return ""
}

func c17R4(c *core.Check, streams []*c17Stream) {
	c.Rule("C17-R4", "CANCEL-AWARE RECEIVES: every receive outside a select in the stream code waits on Done() of a context derived from the stream's context, or on a local channel for which some close is passed by every path (entry to exit) of the function that performs it; anything else cannot be released by cancellation")
	for _, f := range c17BlockingFuncs(c, streams) {
		nDone, nLocal := 0, 0
		decl := c17DeclOf(c, f)
		for _, u := range c17BareReceives(f) {
			if call, ok := c17IsDoneCall(f, u.X); ok {
				nDone++
				key := fmt.Sprintf("%s|receive on Done#%d", f.Key, nDone)
				switch c17CtxOK(c, f, core.RecvExpr(call), nil) {
				case "ok":
					c.Ok("C17-R4", key, pos(c, u), "waits for the cancellation of a context derived from the stream's context")
				case "bad":
					c.Fail("C17-R4", key, pos(c, u), "waits for a context rooted in context.Background/TODO, which is never done: the goroutine never proceeds")
				default:
					c.Undecided("C17-R4", key, pos(c, u), "cannot trace the context")
				}
				continue
			}
			nLocal++
			key := fmt.Sprintf("%s|receive on channel#%d", f.Key, nLocal)
			if call, ok := core.Unparen(u.X).(*ast.CallExpr); ok && f.CalleeID(call) == c17WakerWake {
				c.Fail("C17-R4", key, pos(c, u), "waits for the waker outside a select: after cancellation the waker never wakes again and the goroutine never ends")
				continue
			}
			ch := identObj(f.Info(), u.X)
			if ch == nil {
				c.Undecided("C17-R4", key, pos(c, u), "receive on an expression that is not a local channel variable or Done()")
				continue
			}
			// sends release a receiver too: not modelled
			sends := false
			ast.Inspect(decl.Body, func(n ast.Node) bool {
				if ss, ok := n.(*ast.SendStmt); ok && identObj(f.Info(), ss.Chan) == ch {
					sends = true
				}
				return true
			})
			if sends {
				c.Undecided("C17-R4", key, pos(c, u), "the channel is also sent on; only close-released channels are recognised")
				continue
			}
			type closer struct {
				in *core.Func
				p  core.Point
				n  ast.Node
			}
			var closers []closer
			for _, cf := range append([]*core.Func{decl}, decl.Lits...) {
				for _, h := range cf.Graph().Calls(func(id string, call *ast.CallExpr) bool {
					return id == "builtin.close" && identObj(cf.Info(), call.Args[0]) == ch
				}) {
					cl := closer{cf, h.P, h.N}
					// lift a literal that is an argument of a call (sync.Once.Do) or is deferred/called in place to its user
					for cl.in.Lit != nil && cl.in.Parent != nil {
						pf := cl.in.Parent
						lifted := false
						for _, ph := range pf.Graph().Find(func(n ast.Node) bool {
							call, ok := n.(*ast.CallExpr)
							if !ok {
								return false
							}
							if core.Unparen(call.Fun) == ast.Expr(cl.in.Lit) {
								return true
							}
							for _, a := range call.Args {
								if core.Unparen(a) == ast.Expr(cl.in.Lit) && pf.CalleeID(call) == c17OnceDo {
									return true
								}
							}
							return false
						}) {
							if ph.InGo {
								continue
							}
							cl = closer{pf, ph.P, cl.n}
							lifted = true
							break
						}
						if !lifted {
							break
						}
					}
					closers = append(closers, cl)
				}
			}
			if len(closers) == 0 {
				c.Fail("C17-R4", key, pos(c, u), "receive on a channel that nothing closes: the goroutine never proceeds, the lines channel is never closed")
				continue
			}
			okClose := false
			var why []string
			var whyIn string
			for _, cl := range closers {
				cg := cl.in.Graph()
				tr, skip := pathAvoiding(cg, nil, core.ExitPoints(normalExits(cg)), []core.Point{cl.p})
				if !skip {
					okClose = true
					break
				}
				if why == nil {
					why, whyIn = tr, cl.in.Key
				}
			}
			c.Verdict(okClose, "C17-R4", key, pos(c, u), "released by an unconditional close",
				"this receive is not in a select with the context's Done(), and the only close of the channel (in "+whyIn+") is skipped on the path shown (and otherwise happens only after the event it signals): if the stream is cancelled before that event the goroutine is parked here forever -- for the stream socket: cancellation before the first connection leaves the listener open, Accept never returns, the lines channel is never closed and the tailer never finishes", why...)
		}
	}
	c.Floor("C17-R4", 2)
}

// ---------------------------------------------------------------- R5: decision table by abstract execution

type c17Val int

const (
	c17Unk c17Val = iota
	c17T
	c17F
	c17Zero
	c17Pos
	c17ENil
	c17EEOF
	c17ETimeout
	c17EOther // a non-nil error that is none of the above (for ctx.Err(): context.Canceled)
	c17NilLit
	c17EOFLit
	c17ErrClosedLit
	c17DeadlineLit
)

func c17Bool(b bool) c17Val {
	if b {
		return c17T
	}
	return c17F
}

func (v c17Val) isErr() bool { return v >= c17ENil && v <= c17EOther }

// c17Sim abstractly executes function bodies for one scenario.
type c17Sim struct {
	c         *core.Check
	cancelled bool
	oneShot   bool
	depth     int
	localRdy  bool   // receives on local (non-Done, non-waker) channel variables are ready
	why       string // first reason for an unknown
	steps     int
}

type c17Term struct {
	kind  string // return, read, wait, end, unknown
	val   c17Val // value of a single boolean result
	at    ast.Node
	trail []string
}

func (s *c17Sim) unknown(why string) c17Val {
	if s.why == "" {
		s.why = why
	}
	return c17Unk
}

func (s *c17Sim) eval(f *core.Func, env map[types.Object]c17Val, e ast.Expr) c17Val {
	info := f.Info()
	e = core.Unparen(e)
	if b, ok := constBool(info, e); ok {
		return c17Bool(b)
	}
	if v, ok := constInt(info, e); ok {
		if v == 0 {
			return c17Zero
		}
		if v > 0 {
			return c17Pos
		}
		return s.unknown("negative constant")
	}
	if t := info.TypeOf(e); t != nil {
		if nt, ok := t.(*types.Named); ok && nt.Obj().Name() == "OneShotMode" {
			switch e.(type) {
			case *ast.Ident, *ast.SelectorExpr:
				return c17Bool(s.oneShot)
			}
		}
	}
	switch x := e.(type) {
	case *ast.Ident:
		if isNilIdent(info, x) {
			return c17NilLit
		}
		if o := identObj(info, x); o != nil {
			if v, ok := env[o]; ok && v != c17Unk {
				return v
			}
		}
		return s.unknown("value of " + x.Name + " is not tracked")
	case *ast.SelectorExpr:
		if o, ok := info.Uses[x.Sel].(*types.Var); ok && o.Pkg() != nil && !o.IsField() {
			switch o.Pkg().Path() + "." + o.Name() {
			case "io.EOF":
				return c17EOFLit
			case "os.ErrClosed", "io/fs.ErrClosed", "net.ErrClosed":
				return c17ErrClosedLit
			case "os.ErrDeadlineExceeded", "context.DeadlineExceeded":
				return c17DeadlineLit
			}
		}
		return s.unknown("value of " + exprStr(x) + " is not tracked")
	case *ast.UnaryExpr:
		if x.Op == token.NOT {
			switch s.eval(f, env, x.X) {
			case c17T:
				return c17F
			case c17F:
				return c17T
			}
			return c17Unk
		}
	case *ast.BinaryExpr:
		switch x.Op {
		case token.LAND, token.LOR:
			l := s.eval(f, env, x.X)
			if x.Op == token.LAND && l == c17F {
				return c17F
			}
			if x.Op == token.LOR && l == c17T {
				return c17T
			}
			r := s.eval(f, env, x.Y)
			if l == c17Unk || r == c17Unk {
				if x.Op == token.LAND && r == c17F {
					return c17F
				}
				if x.Op == token.LOR && r == c17T {
					return c17T
				}
				return c17Unk
			}
			return r
		case token.EQL, token.NEQ, token.LSS, token.GTR, token.LEQ, token.GEQ:
			l, r := s.eval(f, env, x.X), s.eval(f, env, x.Y)
			if l == c17Unk || r == c17Unk {
				return c17Unk
			}
			op := x.Op
			ye := x.Y
			// normalise: tracked value on the left, constant / literal on the right
			_, lConst := constInt(info, x.X)
			_, rConst := constInt(info, x.Y)
			if (r.isErr() && !l.isErr()) || (lConst && !rConst) {
				l, r = r, l
				ye = x.X
				op = map[token.Token]token.Token{token.EQL: token.EQL, token.NEQ: token.NEQ, token.LSS: token.GTR, token.GTR: token.LSS, token.LEQ: token.GEQ, token.GEQ: token.LEQ}[op]
			}
			var res c17Val
			switch {
			case l.isErr() && r == c17NilLit:
				res = c17Bool(l == c17ENil)
			case l.isErr() && r == c17EOFLit:
				res = c17Bool(l == c17EEOF)
			case l.isErr() && r == c17DeadlineLit:
				res = c17Bool(l == c17ETimeout)
			case l.isErr() && r == c17ErrClosedLit:
				res = c17F
			case (l == c17T || l == c17F) && (r == c17T || r == c17F):
				res = c17Bool(l == r)
			case (l == c17Zero || l == c17Pos) && r == c17Zero:
				// l is a count that is zero or positive; compare with 0
				isZero := l == c17Zero
				switch op {
				case token.EQL:
					return c17Bool(isZero)
				case token.NEQ, token.GTR:
					return c17Bool(!isZero)
				case token.LEQ:
					return c17Bool(isZero)
				case token.GEQ:
					return c17T
				case token.LSS:
					return c17F
				}
			case (l == c17Zero || l == c17Pos) && r == c17Pos:
				// only `x < 1` / `x >= 1` with the constant one are decidable; others are not needed
				if v, ok := constInt(info, ye); ok && v == 1 {
					isZero := l == c17Zero
					switch op {
					case token.LSS:
						return c17Bool(isZero)
					case token.GEQ:
						return c17Bool(!isZero)
					}
				}
				return s.unknown("comparison of a byte count with a non-zero value")
			default:
				return s.unknown("comparison " + exprStr(x) + " not understood")
			}
			if op == token.NEQ {
				if res == c17T {
					return c17F
				}
				return c17T
			}
			if op != token.EQL {
				return s.unknown("ordering comparison on non-numbers")
			}
			return res
		}
	case *ast.CallExpr:
		id := f.CalleeID(x)
		switch id {
		case c17CtxErr:
			if s.cancelled {
				return c17EOther
			}
			return c17ENil
		case "errors.Is":
			l, r := s.eval(f, env, x.Args[0]), s.eval(f, env, x.Args[1])
			if !l.isErr() {
				return c17Unk
			}
			switch r {
			case c17EOFLit:
				return c17Bool(l == c17EEOF)
			case c17DeadlineLit:
				return c17Bool(l == c17ETimeout)
			case c17ErrClosedLit:
				return c17F
			}
			return s.unknown("errors.Is target not understood")
		case "os.IsTimeout":
			l := s.eval(f, env, x.Args[0])
			if !l.isErr() {
				return c17Unk
			}
			return c17Bool(l == c17ETimeout)
		case "strings.Contains", "strings.HasSuffix", "strings.HasPrefix":
			// message tests on the error text: none of the modelled errors (nil is excluded before, EOF, i/o timeout) matches a "closed connection" text
			return c17F
		}
		// conversion
		if tv, ok := info.Types[x.Fun]; ok && tv.IsType() && len(x.Args) == 1 {
			return s.eval(f, env, x.Args[0])
		}
		if cf := f.CalleeFunc(x); cf != nil && cf.Lit == nil && s.depth < 3 {
			// simulate a module predicate
			res := cf.Type.Results
			if res == nil || len(res.List) != 1 || len(res.List[0].Names) > 1 {
				return s.unknown("call of " + cf.Key + " does not return one value")
			}
			env2 := map[types.Object]c17Val{}
			i := 0
			for _, fl := range cf.Type.Params.List {
				for _, nm := range fl.Names {
					if i < len(x.Args) {
						save := s.why
						env2[cf.Info().Defs[nm]] = s.eval(f, env, x.Args[i])
						s.why = save
					}
					i++
				}
				if len(fl.Names) == 0 {
					i++
				}
			}
			s.depth++
			t := s.run(cf, env2, cf.Graph().Entry(), nil)
			s.depth--
			if t.kind == "return" && t.val != c17Unk {
				return t.val
			}
			return s.unknown("result of " + cf.Key + " not determined")
		}
		return s.unknown("call " + exprStr(x.Fun) + " not understood")
	}
	return s.unknown("expression " + exprStr(e) + " not understood")
}

// run executes from point p until the function returns, reaches a read,
// parks in a select without a ready case, or meets something not understood.
func (s *c17Sim) run(f *core.Func, env map[types.Object]c17Val, p core.Point, isRead func(ast.Node) bool) c17Term {
	g := f.Graph()
	info := f.Info()
	comm := map[ast.Node]bool{}
	for _, sel := range c17Selects(f) {
		for _, cl := range sel.Body.List {
			if cc := cl.(*ast.CommClause); cc.Comm != nil {
				comm[cc.Comm] = true
			}
		}
	}
	var trail []string
	b, i := p.B, p.I
	for {
		s.steps++
		if s.steps > 2000 {
			return c17Term{kind: "unknown", trail: trail}
		}
		if i == 0 || len(trail) == 0 {
			trail = append(trail, g.Trail([]*cfg.Block{b})...)
		}
		for ; i < len(b.Nodes); i++ {
			n := b.Nodes[i]
			if isRead != nil && isRead(n) {
				return c17Term{kind: "read", at: n, trail: trail}
			}
			if comm[n] {
				continue
			}
			switch x := n.(type) {
			case *ast.ReturnStmt:
				t := c17Term{kind: "return", at: x, trail: trail}
				if len(x.Results) == 1 {
					save := s.why
					t.val = s.eval(f, env, x.Results[0])
					s.why = save
				}
				return t
			case *ast.AssignStmt:
				for li, l := range x.Lhs {
					o := identObj(info, l)
					if o == nil {
						continue
					}
					if _, tracked := env[o]; !tracked {
						// a new boolean/int/error local computed from tracked values
						if len(x.Lhs) == len(x.Rhs) && (x.Tok == token.DEFINE || x.Tok == token.ASSIGN) {
							save := s.why
							if v := s.eval(f, env, x.Rhs[li]); v != c17Unk {
								env[o] = v
							}
							s.why = save
						}
						continue
					}
					switch {
					case x.Tok == token.ADD_ASSIGN && len(x.Rhs) == 1:
						save := s.why
						r := s.eval(f, env, x.Rhs[0])
						s.why = save
						switch {
						case env[o] == c17Pos || r == c17Pos:
							if r == c17Unk {
								env[o] = c17Unk
							} else {
								env[o] = c17Pos
							}
						case env[o] == c17Zero && r == c17Zero:
							env[o] = c17Zero
						default:
							env[o] = c17Unk
						}
					case (x.Tok == token.ASSIGN || x.Tok == token.DEFINE) && len(x.Lhs) == len(x.Rhs):
						save := s.why
						env[o] = s.eval(f, env, x.Rhs[li])
						s.why = save
					default:
						env[o] = c17Unk
					}
				}
			case *ast.IncDecStmt:
				if o := identObj(info, x.X); o != nil {
					if _, tracked := env[o]; tracked {
						if x.Tok == token.INC {
							env[o] = c17Pos
						} else {
							env[o] = c17Unk
						}
					}
				}
			case *ast.ExprStmt:
				if u, ok := core.Unparen(x.X).(*ast.UnaryExpr); ok && u.Op == token.ARROW {
					if _, isDone := c17IsDoneCall(f, u.X); isDone && s.cancelled {
						continue
					} else if !isDone && s.localRdy && identObj(info, u.X) != nil {
						continue
					}
					return c17Term{kind: "wait", at: x, trail: trail}
				}
			}
		}
		switch len(b.Succs) {
		case 0:
			if b.Kind == cfg.KindSelectAfterCase && len(b.Nodes) == 0 {
				return c17Term{kind: "wait", trail: trail}
			}
			return c17Term{kind: "end", trail: trail}
		case 1:
			b, i = b.Succs[0], 0
		case 2:
			if b.Succs[0].Kind == cfg.KindSelectCaseBody {
				// select dispatch: collect the clauses
				cur := b
				var ready, unk *cfg.Block
				for len(cur.Succs) == 2 && cur.Succs[0].Kind == cfg.KindSelectCaseBody {
					cc, _ := cur.Succs[0].Stmt.(*ast.CommClause)
					var x ast.Expr
					if cc != nil {
						x = c17CommRecv(cc)
					}
					switch {
					case x == nil:
						if unk == nil {
							unk = cur.Succs[0]
						}
					default:
						if _, isDone := c17IsDoneCall(f, x); isDone {
							if s.cancelled && ready == nil {
								ready = cur.Succs[0]
							}
						} else if call, ok := core.Unparen(x).(*ast.CallExpr); ok && f.CalleeID(call) == c17WakerWake {
							// the waker is not ready in the scenarios
						} else if s.localRdy && identObj(info, x) != nil {
							if ready == nil {
								ready = cur.Succs[0]
							}
						} else if unk == nil {
							unk = cur.Succs[0]
						}
					}
					cur = cur.Succs[1]
				}
				hasDefault := !(len(cur.Succs) == 0 && len(cur.Nodes) == 0)
				switch {
				case ready != nil:
					b, i = ready, 0
				case unk != nil:
					s.unknown("select with a case whose readiness is not modelled")
					return c17Term{kind: "unknown", trail: trail}
				case hasDefault:
					b, i = cur, 0
				default:
					return c17Term{kind: "wait", trail: trail}
				}
				continue
			}
			if len(b.Nodes) == 0 {
				s.unknown("two-way branch without a condition")
				return c17Term{kind: "unknown", trail: trail}
			}
			cond, ok := b.Nodes[len(b.Nodes)-1].(ast.Expr)
			if !ok {
				s.unknown("two-way branch without a condition expression (range loop?)")
				return c17Term{kind: "unknown", trail: trail}
			}
			switch s.eval(f, env, cond) {
			case c17T:
				b, i = b.Succs[0], 0
			case c17F:
				b, i = b.Succs[1], 0
			default:
				s.unknown("condition " + exprStr(cond) + " not decided")
				return c17Term{kind: "unknown", at: cond, trail: trail}
			}
		default:
			s.unknown("multi-way branch")
			return c17Term{kind: "unknown", trail: trail}
		}
	}
}

type c17Scenario struct {
	name      string
	n, total  c17Val
	err       c17Val
	cancelled bool
	anyShot   bool     // run for both values of oneShot
	oneShot   bool     // when !anyShot
	want      []string // acceptable outcomes
	kinds     string   // which stream kinds: subset of "fifo socket dgram"
	breaks    string   // what breaks otherwise
}

var c17Scenarios = []c17Scenario{
	{name: "data read", n: c17Pos, total: c17Zero, err: c17ENil, anyShot: true, want: []string{"read", "wait"}, kinds: "fifo socket dgram",
		breaks: "the goroutine returns after a successful read of data: everything written afterwards is never read"},
	{name: "data read, earlier data", n: c17Pos, total: c17Pos, err: c17ENil, anyShot: true, want: []string{"read", "wait"}, kinds: "fifo socket dgram",
		breaks: "the goroutine returns after a successful read of data: everything written afterwards is never read"},
	{name: "EOF before any data", n: c17Zero, total: c17Zero, err: c17EEOF, anyShot: true, want: []string{"wait", "read"}, kinds: "fifo",
		breaks: "a fifo that has no writer yet (read returns EOF at once) ends the stream: data written by a writer that connects later is never delivered"},
	{name: "EOF after data", n: c17Zero, total: c17Pos, err: c17EEOF, anyShot: true, want: []string{"return"}, kinds: "fifo socket",
		breaks: "when the writer closes after writing, the goroutine does not return: the final fragment is not flushed and the stream's output never ends"},
	{name: "EOF on a connection without data", n: c17Zero, total: c17Zero, err: c17EEOF, anyShot: true, want: []string{"return"}, kinds: "socket",
		breaks: "a connection closed by its peer is not given up: the handler never reports done and the stream cannot end"},
	{name: "deadline after cancellation, no data", n: c17Zero, total: c17Zero, err: c17ETimeout, cancelled: true, anyShot: true, want: []string{"return"}, kinds: "fifo socket dgram",
		breaks: "after cancellation the interrupted read (i/o timeout) does not end the goroutine: it polls forever, Finish and close(lines) never run"},
	{name: "deadline after cancellation, earlier data", n: c17Zero, total: c17Pos, err: c17ETimeout, cancelled: true, anyShot: true, want: []string{"return"}, kinds: "fifo socket dgram",
		breaks: "after cancellation the interrupted read (i/o timeout) does not end the goroutine: it polls forever, Finish and close(lines) never run"},
	{name: "empty datagram", n: c17Zero, total: c17Pos, err: c17ENil, oneShot: false, want: []string{"wait", "read"}, kinds: "dgram",
		breaks: "a zero-length datagram ends the datagram stream while it is neither cancelled nor one-shot: later datagrams are never delivered"},
	{name: "data read while cancelled", n: c17Pos, total: c17Zero, err: c17ENil, cancelled: true, anyShot: true, want: []string{"read", "return"}, kinds: "fifo socket dgram",
		breaks: "after cancellation the goroutine parks instead of retrying the read that will fail with the deadline error"},
}

func c17R5(c *core.Check, streams []*c17Stream) {
	c.Rule("C17-R5", "END-CONDITION TABLE: abstractly executing the read loop from just after `n, err := lr.ReadAndSend(ctx)` (conditions over n, err, the running total, ctx.Err(), one-shot mode, IsExitableError/errors.Is/os.IsTimeout interpreted; IsExitableError's body executed the same way) gives for each read outcome the required continuation: data -> read again; fifo EOF before any data -> wait; EOF after data / on a connection -> return; deadline error after cancellation -> return; empty datagram when not one-shot -> wait")
	// IsExitableError first: its own table
	if f := c.MustFn("C17-R5", c17IsExitable); f != nil && len(f.Type.Params.List) == 1 && len(f.Type.Params.List[0].Names) == 1 {
		po := f.Info().Defs[f.Type.Params.List[0].Names[0]]
		for _, row := range []struct {
			name   string
			v      c17Val
			want   c17Val
			breaks string
		}{
			{"nil", c17ENil, c17F, "IsExitableError(nil) is true: a successful read ends the stream"},
			{"io.EOF", c17EEOF, c17T, "IsExitableError(io.EOF) is false: a closed pipe or connection never ends its reader, the final fragment is never flushed"},
			{"i/o timeout", c17ETimeout, c17T, "IsExitableError(timeout) is false: the read interrupted on cancellation does not end the goroutine"},
		} {
			sim := &c17Sim{c: c}
			t := sim.run(f, map[types.Object]c17Val{po: row.v}, f.Graph().Entry(), nil)
			key := c17IsExitable + "|" + row.name
			switch {
			case t.kind != "return" || t.val == c17Unk:
				c.Undecided("C17-R5", key, pos(c, f.Decl), "cannot execute IsExitableError abstractly: "+sim.why)
			default:
				c.Verdict(t.val == row.want, "C17-R5", key, pos(c, t.at), fmt.Sprintf("-> %v", row.want == c17T), row.breaks, t.trail...)
			}
		}
	}
	for _, s := range streams {
		rg := s.rg
		g := rg.Graph()
		info := rg.Info()
		if len(s.reads) != 1 {
			c.Undecided("C17-R5", rg.Key+"|read loop", pos(c, rg.Body), fmt.Sprintf("expected one ReadAndSend call in the loop, found %d", len(s.reads)))
			continue
		}
		read := s.reads[0]
		as, _ := read.P.Node().(*ast.AssignStmt)
		if as == nil || len(as.Lhs) != 2 || len(as.Rhs) != 1 || core.Unparen(as.Rhs[0]) != ast.Expr(read.N.(*ast.CallExpr)) {
			c.Undecided("C17-R5", rg.Key+"|read loop", pos(c, read.N), "the read is not of the form `n, err := lr.ReadAndSend(ctx)`")
			continue
		}
		nObj, eObj := identObj(info, as.Lhs[0]), identObj(info, as.Lhs[1])
		if nObj == nil || eObj == nil {
			c.Undecided("C17-R5", rg.Key+"|read loop", pos(c, read.N), "byte count or error of the read is discarded: the loop cannot tell data from end of stream")
			continue
		}
		// the running total: a variable incremented by n
		var totObj types.Object
		ast.Inspect(rg.Body, func(n ast.Node) bool {
			if x, ok := n.(*ast.AssignStmt); ok && x.Tok == token.ADD_ASSIGN && len(x.Rhs) == 1 && identObj(info, x.Rhs[0]) == nObj {
				totObj = identObj(info, x.Lhs[0])
			}
			return true
		})
		isRead := func(n ast.Node) bool {
			found := false
			core.InspectNoLit(n, func(x ast.Node) bool {
				if call, ok := x.(*ast.CallExpr); ok && rg.CalleeID(call) == lrReadAndSend {
					found = true
				}
				return !found
			})
			return found
		}
		for _, sc := range c17Scenarios {
			if !strings.Contains(sc.kinds, s.kind) {
				continue
			}
			key := rg.Key + "|" + sc.name
			shots := []bool{sc.oneShot}
			if sc.anyShot {
				shots = []bool{false, true}
			}
			verdict, detail := "ok", ""
			var trail []string
			var at ast.Node = read.N
			var got []string
			for _, shot := range shots {
				sim := &c17Sim{c: c, cancelled: sc.cancelled, oneShot: shot}
				env := map[types.Object]c17Val{nObj: sc.n, eObj: sc.err}
				if totObj != nil {
					env[totObj] = sc.total
				}
				t := sim.run(rg, env, core.Point{B: read.P.B, I: read.P.I + 1}, isRead)
				got = append(got, t.kind)
				if t.kind == "unknown" {
					if verdict == "ok" {
						verdict, detail, trail = "undecided", sim.why, t.trail
					}
					continue
				}
				k := t.kind
				if k == "end" {
					k = "return"
				}
				okk := false
				for _, w := range sc.want {
					if w == k {
						okk = true
					}
				}
				if !okk && verdict != "fail" {
					verdict, trail = "fail", t.trail
					detail = fmt.Sprintf("outcome %q (one-shot=%v): loop continues with %q, required %s. %s", sc.name, shot, t.kind, strings.Join(sc.want, " or "), sc.breaks)
					if t.at != nil {
						at = t.at
					}
				}
			}
			_ = g
			switch verdict {
			case "ok":
				c.Ok("C17-R5", key, pos(c, at), "-> "+strings.Join(got, "/"))
			case "fail":
				c.Fail("C17-R5", key, pos(c, at), detail, trail...)
			default:
				c.Undecided("C17-R5", key, pos(c, at), "cannot execute the loop abstractly: "+detail)
			}
		}
	}
	c.Floor("C17-R5", 22)
}

// ---------------------------------------------------------------- R6: the line reader

// c17IsField reports whether e is `<recv>.<name>` for the receiver of f.
func c17IsField(f *core.Func, e ast.Expr, name string) bool {
	sel, ok := core.Unparen(e).(*ast.SelectorExpr)
	if !ok {
		return false
	}
	v, ok := f.Info().Uses[sel.Sel].(*types.Var)
	return ok && v.IsField() && v.Name() == name && identObj(f.Info(), sel.X) == c17RecvObj(f) && c17RecvObj(f) != nil
}

func c17IsBuiltinOn(f *core.Func, e ast.Expr, builtin, field string) bool {
	call, ok := core.Unparen(e).(*ast.CallExpr)
	return ok && f.CalleeID(call) == "builtin."+builtin && len(call.Args) == 1 && c17IsField(f, call.Args[0], field)
}

// c17IntEval evaluates an integer expression in which the reader's `size`
// field has the value size.
func c17IntEval(f *core.Func, e ast.Expr, size int64) (int64, bool) {
	e = core.Unparen(e)
	if v, ok := constInt(f.Info(), e); ok {
		return v, true
	}
	if c17IsField(f, e, "size") {
		return size, true
	}
	switch x := e.(type) {
	case *ast.BinaryExpr:
		l, ok1 := c17IntEval(f, x.X, size)
		r, ok2 := c17IntEval(f, x.Y, size)
		if !ok1 || !ok2 {
			return 0, false
		}
		switch x.Op {
		case token.ADD:
			return l + r, true
		case token.SUB:
			return l - r, true
		case token.MUL:
			return l * r, true
		case token.QUO:
			if r != 0 {
				return l / r, true
			}
		case token.SHR:
			return l >> uint(r), true
		case token.SHL:
			return l << uint(r), true
		}
	case *ast.CallExpr:
		id := f.CalleeID(x)
		if (id == "builtin.min" || id == "builtin.max") && len(x.Args) > 0 {
			var res int64
			for i, a := range x.Args {
				v, ok := c17IntEval(f, a, size)
				if !ok {
					return 0, false
				}
				if i == 0 || (id == "builtin.min" && v < res) || (id == "builtin.max" && v > res) {
					res = v
				}
			}
			return res, true
		}
		if tv, ok := f.Info().Types[x.Fun]; ok && tv.IsType() && len(x.Args) == 1 {
			return c17IntEval(f, x.Args[0], size)
		}
	}
	return 0, false
}

const c17MaxUDP = 65507

func c17R6(c *core.Check, streams []*c17Stream) {
	c.Rule("C17-R6", "READER DELIVERS AND NEVER TRUNCATES: every send on the reader's lines channel in LineReader's methods is an unconditional send (not a select case); Finish can leave without sending only through the branch taken for an empty fragment; in ReadAndSend the Read is offered <buf>[len(buf):cap(buf)], on every path after a free-space test `cap(buf)-len(buf) < T` whose grow branch re-allocates with capacity len(buf)+T2 keeping the contents, and min(T,T2) evaluated with the datagram stream's size is at least that size, which is at least the maximal UDP payload")
	defer c.Floor("C17-R6", 6)
	var rfuncs []*core.Func
	for _, key := range c.Prog.SortedFuncKeys() {
		f := c.Prog.Funcs[key]
		if core.Rel(f.Pkg.PkgPath) == c17Pkg && c17RecvType(f) == "LineReader" && f.Lit == nil {
			rfuncs = append(rfuncs, f)
		}
	}
	c.Analysed(rfuncs...)
	// (a) unconditional sends
	for _, f := range rfuncs {
		k := 0
		inSelect := map[ast.Node]bool{}
		ast.Inspect(f.Body, func(n ast.Node) bool {
			if cc, ok := n.(*ast.CommClause); ok && cc.Comm != nil {
				inSelect[cc.Comm] = true
			}
			return true
		})
		ast.Inspect(f.Body, func(n ast.Node) bool {
			ss, ok := n.(*ast.SendStmt)
			if !ok || !c17IsField(f, ss.Chan, "lines") {
				return true
			}
			k++
			c.Verdict(!inSelect[ss], "C17-R6", fmt.Sprintf("%s|send#%d", f.Key, k), pos(c, ss), "unconditional send",
				"the line is sent as one alternative of a select: when another case is ready (for a connection handler the context handed to Finish is already cancelled by the earlier-running `defer cancel()`; for every stream on cancellation) the line or the final fragment is dropped instead of delivered")
			return true
		})
	}
	// (b) Finish sends unless the fragment is empty
	if f := c.MustFn("C17-R6", lrFinish); f != nil {
		g := f.Graph()
		var sends []core.Point
		for _, h := range g.Find(func(n ast.Node) bool { ss, ok := n.(*ast.SendStmt); return ok && c17IsField(f, ss.Chan, "lines") }) {
			if _, isStmt := h.P.Node().(*ast.SendStmt); isStmt {
				sends = append(sends, h.P)
			}
		}
		// emptiness tests
		type edge struct {
			b *cfg.Block
			k int
		}
		var emptyEdges []edge
		for _, is := range ifsWhere(f, func(*ast.IfStmt) bool { return true }) {
			be, ok := core.Unparen(is.Cond).(*ast.BinaryExpr)
			if !ok {
				continue
			}
			x, y, op := be.X, be.Y, be.Op
			if v, isC := constInt(f.Info(), x); isC && v == 0 {
				x, y = y, x
				op = map[token.Token]token.Token{token.EQL: token.EQL, token.NEQ: token.NEQ, token.LSS: token.GTR, token.GTR: token.LSS, token.LEQ: token.GEQ, token.GEQ: token.LEQ}[op]
			}
			isLen := false
			if call, ok := core.Unparen(x).(*ast.CallExpr); ok && f.CalleeID(call) == "builtin.len" {
				if v, isC := constInt(f.Info(), y); isC && v == 0 {
					isLen = true
				}
			}
			if tv, has := f.Info().Types[y]; has && tv.Value != nil && tv.Value.ExactString() == `""` {
				isLen = true
			}
			if !isLen {
				continue
			}
			cb := g.CondBlock(is)
			if cb == nil {
				continue
			}
			switch op {
			case token.EQL, token.LEQ:
				emptyEdges = append(emptyEdges, edge{cb, 0})
			case token.NEQ, token.GTR:
				emptyEdges = append(emptyEdges, edge{cb, 1})
			}
		}
		key := lrFinish + "|delivers non-empty fragment"
		if len(sends) == 0 {
			c.Fail("C17-R6", key, pos(c, f.Decl), "Finish contains no unconditional send on the lines channel: the unterminated tail of a pipe or connection is never delivered")
		} else {
			tr, skip := g.Search(core.Query{Goal: core.At(core.ExitPoints(normalExits(g))...), Avoid: core.At(sends...), AvoidEdge: func(b *cfg.Block, k int) bool {
				for _, e := range emptyEdges {
					if e.b == b && e.k == k {
						return true
					}
				}
				return false
			}})
			c.Verdict(!skip, "C17-R6", key, pos(c, f.Decl), fmt.Sprintf("only the empty-fragment branch (%d test(s)) leaves without sending", len(emptyEdges)),
				"Finish can return without sending although the fragment is not known to be empty: the unterminated tail is lost", g.Trail(tr)...)
		}
	}
	// (c) free space offered to Read
	f := c.MustFn("C17-R6", lrReadAndSend)
	if f == nil {
		return
	}
	g := f.Graph()
	rkey := lrReadAndSend + "|"
	reads := g.Calls(func(id string, call *ast.CallExpr) bool {
		return strings.HasSuffix(id, ".Read") && c17IsField(f, core.RecvExpr(call), "f")
	})
	if len(reads) != 1 {
		c.Undecided("C17-R6", rkey+"read", pos(c, f.Decl), fmt.Sprintf("expected one Read on the reader's source, found %d", len(reads)))
		return
	}
	rcall := reads[0].N.(*ast.CallExpr)
	// slice offered
	if se, ok := core.Unparen(rcall.Args[0]).(*ast.SliceExpr); !ok || !c17IsField(f, se.X, "buf") || se.Slice3 {
		c.Undecided("C17-R6", rkey+"read slice", pos(c, rcall), "the slice offered to Read is not a two-index slice of the reader's buffer")
	} else {
		switch {
		case se.Low == nil || !c17IsBuiltinOn(f, se.Low, "len", "buf"):
			c.Undecided("C17-R6", rkey+"read slice", pos(c, se), "the slice offered to Read does not start at len(buf)")
		case se.High == nil || c17IsBuiltinOn(f, se.High, "len", "buf"):
			c.Fail("C17-R6", rkey+"read slice", pos(c, se), "the slice offered to Read ends at len(buf): it is empty, nothing is ever read")
		case c17IsBuiltinOn(f, se.High, "cap", "buf"):
			c.Ok("C17-R6", rkey+"read slice", pos(c, se), "buf[len(buf):cap(buf)]: all free space is offered")
		default:
			c.Undecided("C17-R6", rkey+"read slice", pos(c, se), "upper bound of the slice offered to Read is not cap(buf)")
		}
	}
	// sizes in use
	sizes := map[string]int64{}
	var dgramSize int64 = -1
	if nl := c.Prog.Fn(c17NewLineReader); nl != nil {
		for _, st := range c17Callers(c, nl) {
			if len(st.call.Args) < 4 {
				continue
			}
			v, ok := constInt(st.f.Info(), st.call.Args[3])
			if !ok {
				c.Undecided("C17-R6", st.f.Key+"|reader size", pos(c, st.call.Args[3]), "size argument of NewLineReader is not a constant")
				continue
			}
			sizes[st.f.Key] = v
			if c17RecvType(st.f) == "dgramStream" {
				dgramSize = v
				c.Verdict(v >= c17MaxUDP, "C17-R6", st.f.Key+"|datagram reader size", pos(c, st.call.Args[3]), fmt.Sprintf("%d >= %d", v, c17MaxUDP),
					fmt.Sprintf("the datagram stream's read size %d is below the maximal UDP payload %d: ReadFrom silently truncates a larger datagram, its remaining lines are lost and its cut line is joined to the next datagram", v, c17MaxUDP))
			}
		}
	}
	c.Extra["c17_reader_sizes"] = sizes
	if dgramSize < 0 {
		c.Undecided("C17-R6", rkey+"free space", pos(c, f.Decl), "the datagram stream's NewLineReader call was not found")
		return
	}
	// the guard
	type guard struct {
		is *ast.IfStmt
		t  ast.Expr
		op token.Token
	}
	var guards []guard
	var isFree func(e ast.Expr) bool
	isFree = func(e ast.Expr) bool {
		if o := identObj(f.Info(), e); o != nil {
			// a local that names the free space, bound once
			if ds := c17Defs(f, o); len(ds) == 1 && ds[0].rhs != nil && ds[0].n == 1 {
				if _, self := core.Unparen(ds[0].rhs).(*ast.Ident); !self {
					return isFree(ds[0].rhs)
				}
			}
			return false
		}
		be, ok := core.Unparen(e).(*ast.BinaryExpr)
		return ok && be.Op == token.SUB && c17IsBuiltinOn(f, be.X, "cap", "buf") && c17IsBuiltinOn(f, be.Y, "len", "buf")
	}
	for _, is := range ifsWhere(f, func(*ast.IfStmt) bool { return true }) {
		be, ok := core.Unparen(is.Cond).(*ast.BinaryExpr)
		if !ok {
			continue
		}
		switch {
		case isFree(be.X) && (be.Op == token.LSS || be.Op == token.LEQ):
			guards = append(guards, guard{is, be.Y, be.Op})
		case isFree(be.Y) && (be.Op == token.GTR || be.Op == token.GEQ):
			guards = append(guards, guard{is, be.X, map[token.Token]token.Token{token.GTR: token.LSS, token.GEQ: token.LEQ}[be.Op]})
		}
	}
	fkey := rkey + "free space"
	if len(guards) != 1 {
		c.Undecided("C17-R6", fkey, pos(c, f.Decl), fmt.Sprintf("expected one `cap(buf)-len(buf) < T` test before the Read, found %d", len(guards)))
		return
	}
	gd := guards[0]
	cp, okc := g.PointOf(gd.is.Cond)
	if !okc {
		c.Undecided("C17-R6", fkey, pos(c, gd.is), "free-space test not found in the CFG")
		return
	}
	if tr, skip := pathAvoiding(g, nil, []core.Point{reads[0].P}, []core.Point{cp}); skip {
		c.Fail("C17-R6", fkey, pos(c, rcall), "the Read can be reached without the free-space test: a datagram larger than what happens to be free is truncated", tr...)
		return
	}
	t1, ok1 := c17IntEval(f, gd.t, dgramSize)
	if gd.op == token.LEQ {
		t1++
	}
	// grow branch
	var grow *ast.AssignStmt
	other := false
	ast.Inspect(f.Body, func(n ast.Node) bool {
		as, ok := n.(*ast.AssignStmt)
		if !ok || as.Pos() > rcall.Pos() {
			return true
		}
		for _, l := range as.Lhs {
			if c17IsField(f, l, "buf") {
				if as.Pos() >= gd.is.Body.Pos() && as.End() <= gd.is.Body.End() && grow == nil && len(as.Lhs) == 1 && len(as.Rhs) == 1 {
					grow = as
				} else {
					other = true
				}
			}
		}
		return true
	})
	if grow == nil || other || gd.is.Else != nil {
		c.Undecided("C17-R6", fkey, pos(c, gd.is), "the grow branch is not a single assignment to buf (or buf is assigned elsewhere before the Read)")
		return
	}
	var t2 int64
	ok2, keeps := false, false
	if ap, ok := core.Unparen(grow.Rhs[0]).(*ast.CallExpr); ok && f.CalleeID(ap) == "builtin.append" && len(ap.Args) == 2 && ap.Ellipsis.IsValid() && c17IsField(f, ap.Args[1], "buf") {
		keeps = true
		if mk, ok := core.Unparen(ap.Args[0]).(*ast.CallExpr); ok && f.CalleeID(mk) == "builtin.make" && len(mk.Args) == 3 {
			if l0, isC := constInt(f.Info(), mk.Args[1]); isC && l0 == 0 {
				if be, ok := core.Unparen(mk.Args[2]).(*ast.BinaryExpr); ok && be.Op == token.ADD {
					switch {
					case c17IsBuiltinOn(f, be.X, "len", "buf"):
						t2, ok2 = c17IntEval(f, be.Y, dgramSize)
					case c17IsBuiltinOn(f, be.Y, "len", "buf"):
						t2, ok2 = c17IntEval(f, be.X, dgramSize)
					}
				}
			}
		}
	}
	if !keeps || !ok1 || !ok2 {
		c.Undecided("C17-R6", fkey, pos(c, grow), "grow branch is not `buf = append(make([]byte, 0, len(buf)+T2), buf...)` with evaluable T, T2")
		return
	}
	free := t1
	if t2 < free {
		free = t2
	}
	c.Extra["c17_free_space"] = map[string]any{"test": exprStr(gd.is.Cond), "T_at_dgram_size": t1, "grow": exprStr(grow.Rhs[0]), "T2_at_dgram_size": t2, "dgram_size": dgramSize}
	c.Verdict(free >= dgramSize, "C17-R6", fkey, pos(c, gd.is), fmt.Sprintf("at least %d free bytes at every Read for size %d", free, dgramSize),
		fmt.Sprintf("with the datagram stream's size %d the Read is only guaranteed %d free bytes (test `%s`, grow to len+%d): once consumed lines have eaten the buffer's tail, a datagram larger than the remaining space is silently truncated by ReadFrom -- its remaining lines are lost and the cut line is joined to the next datagram's first line", dgramSize, free, exprStr(gd.is.Cond), t2))
}

var _ = sort.Strings

// c17ParamAt returns the object of the idx-th parameter of f.
func c17ParamAt(f *core.Func, idx int) types.Object {
	i := 0
	for _, fl := range f.Type.Params.List {
		if len(fl.Names) == 0 {
			i++
			continue
		}
		for _, nm := range fl.Names {
			if i == idx {
				return f.Info().Defs[nm]
			}
			i++
		}
	}
	return nil
}
