package props

import (
	"fmt"
	"go/ast"
	"go/token"
	"go/types"
	"sort"
	"strings"

	"golang.org/x/tools/go/cfg"

	"verif/sa/core"
)

// shipped lists the functions (declarations and literals) of shipped code.
func shipped(c *core.Check) []*core.Func {
	var out []*core.Func
	for _, k := range c.Prog.SortedFuncKeys() {
		f := c.Prog.Funcs[k]
		if c.Prog.IsTestSupport(f) {
			continue
		}
		out = append(out, f)
	}
	return out
}

func pos(c *core.Check, n ast.Node) string {
	if n == nil {
		return "-"
	}
	return c.Prog.Position(n.Pos())
}

func ppos(c *core.Check, p core.Point, f *core.Func) string {
	if n := p.Node(); n != nil {
		return c.Prog.Position(n.Pos())
	}
	return c.Prog.Position(f.Body.End())
}

// lockPairing checks that every (non-deferred) acquire in f is released on
// every path to a normal exit.  It returns the number of acquire sites.
func lockPairing(c *core.Check, rule string, f *core.Func) int {
	g := f.Graph()
	evs := g.LockEvents()
	exits := g.Exits()
	n := 0
	for _, a := range evs {
		if !a.Acquire || a.Deferred {
			continue
		}
		n++
		var rel []core.Point
		for _, r := range evs {
			if !r.Acquire && r.Path == a.Path && r.Mode == a.Mode {
				rel = append(rel, r.P)
			}
		}
		name := map[string]string{"W": "Lock", "R": "RLock"}[a.Mode]
		base := fmt.Sprintf("%s|%s base=%s#%d", f.Key, name, a.Path, a.Ordinal)
		bad := 0
		for _, e := range exits {
			if e.Kind == "panic" {
				continue
			}
			from := a.P
			trail, found := g.Search(core.Query{From: &from, Goal: core.At(e.P), Avoid: core.At(rel...)})
			if found {
				bad++
				c.Fail(rule, base+"|exit="+e.String(), ppos(c, e.P, f),
					fmt.Sprintf("%s on %s acquired at %s is still held when the function leaves by %s", name, a.Path, pos(c, a.Call), e.String()),
					g.Trail(trail)...)
			}
		}
		if bad == 0 {
			c.Ok(rule, base, pos(c, a.Call), fmt.Sprintf("released on all %d exits", len(exits)))
		}
	}
	return n
}

// isNilIdent reports whether e is the predeclared nil.
func isNilIdent(info *types.Info, e ast.Expr) bool {
	id, ok := core.Unparen(e).(*ast.Ident)
	if !ok || id.Name != "nil" {
		return false
	}
	_, isNil := info.Uses[id].(*types.Nil)
	return isNil
}

// rangeOver finds `for … := range <ident ch>` statements in f (not in literals).
func rangeOver(f *core.Func, chObj types.Object) []*ast.RangeStmt {
	var out []*ast.RangeStmt
	core.InspectNoLit(f.Body, func(n ast.Node) bool {
		if rs, ok := n.(*ast.RangeStmt); ok {
			if id, ok := core.Unparen(rs.X).(*ast.Ident); ok && f.Info().Uses[id] == chObj {
				out = append(out, rs)
			}
		}
		return true
	})
	return out
}

// loopBlocks returns the head, body and done blocks of a range statement.
func loopBlocks(g *core.Graph, s ast.Stmt) (head, body, done *cfg.Block) {
	for _, b := range g.C.Blocks {
		if b.Stmt != s {
			continue
		}
		switch b.Kind {
		case cfg.KindRangeLoop, cfg.KindForLoop:
			head = b
		case cfg.KindRangeBody, cfg.KindForBody:
			body = b
		case cfg.KindRangeDone, cfg.KindForDone:
			done = b
		}
	}
	return
}

// earlyLoopExits finds paths that leave the body of loop s without going
// through the loop head (break, goto, return).  It returns a description
// per offending way out.
func earlyLoopExits(c *core.Check, g *core.Graph, s ast.Stmt) []string {
	head, body, done := loopBlocks(g, s)
	if head == nil || body == nil || done == nil {
		return []string{"loop blocks not found"}
	}
	var out []string
	start := core.Point{B: body, I: -1}
	avoidHead := func(b *cfg.Block, si int) bool { return b.Succs[si] == head }
	for _, e := range g.Exits() {
		if e.Kind == "panic" {
			continue
		}
		if trail, ok := g.Search(core.Query{From: &start, Goal: core.At(e.P), AvoidEdge: avoidHead}); ok {
			out = append(out, fmt.Sprintf("%s at %s via %s", e.String(), ppos(c, e.P, g.F), strings.Join(g.Trail(trail), " > ")))
		}
	}
	if trail, ok := g.Search(core.Query{From: &start, Goal: func(p core.Point) bool { return p.B == done && p.I == 0 }, AvoidEdge: avoidHead}); ok {
		out = append(out, fmt.Sprintf("break/goto out of the loop via %s", strings.Join(g.Trail(trail), " > ")))
	}
	return out
}

// identObj resolves an identifier expression to its object.
func identObj(info *types.Info, e ast.Expr) types.Object {
	if id, ok := core.Unparen(e).(*ast.Ident); ok {
		if o := info.Uses[id]; o != nil {
			return o
		}
		return info.Defs[id]
	}
	return nil
}

func sortedKeys[M ~map[string]V, V any](m M) []string {
	var ks []string
	for k := range m {
		ks = append(ks, k)
	}
	sort.Strings(ks)
	return ks
}

var _ = token.NoPos
