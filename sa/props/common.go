package props

import (
	"bytes"
	"fmt"
	"go/printer"
	"go/ast"
	"go/token"
	"go/types"
	"sort"
	"strings"

	"golang.org/x/tools/go/cfg"

	"verif/sa/core"
)

// shipped lists the functions (declarations and literals) of shipped code.
func shipped(c *core.Check) []*core.Func {
	var out []*core.Func
	for _, k := range c.Prog.SortedFuncKeys() {
		f := c.Prog.Funcs[k]
		if c.Prog.IsTestSupport(f) {
			continue
		}
		out = append(out, f)
	}
	return out
}

func pos(c *core.Check, n ast.Node) string {
	if n == nil {
		return "-"
	}
	return c.Prog.Position(n.Pos())
}

func ppos(c *core.Check, p core.Point, f *core.Func) string {
	if n := p.Node(); n != nil {
		return c.Prog.Position(n.Pos())
	}
	return c.Prog.Position(f.Body.End())
}

// lockPairing checks that every (non-deferred) acquire in f is released on
// every path to a normal exit.  It returns the number of acquire sites.
func lockPairing(c *core.Check, rule string, f *core.Func) int {
	g := f.Graph()
	evs := g.LockEvents()
	exits := g.Exits()
	n := 0
	for _, a := range evs {
		if !a.Acquire || a.Deferred {
			continue
		}
		n++
		var rel []core.Point
		for _, r := range evs {
			if !r.Acquire && r.Path == a.Path && r.Mode == a.Mode {
				rel = append(rel, r.P)
			}
		}
		name := map[string]string{"W": "Lock", "R": "RLock"}[a.Mode]
		base := fmt.Sprintf("%s|%s base=%s#%d", f.Key, name, a.Path, a.Ordinal)
		bad := 0
		for _, e := range exits {
			if e.Kind == "panic" {
				continue
			}
			from := a.P
			trail, found := g.Search(core.Query{From: &from, Goal: core.At(e.P), Avoid: core.At(rel...)})
			if found {
				bad++
				c.Fail(rule, base+"|exit="+e.String(), ppos(c, e.P, f),
					fmt.Sprintf("%s on %s acquired at %s is still held when the function leaves by %s", name, a.Path, pos(c, a.Call), e.String()),
					g.Trail(trail)...)
			}
		}
		if bad == 0 {
			c.Ok(rule, base, pos(c, a.Call), fmt.Sprintf("released on all %d exits", len(exits)))
		}
	}
	return n
}

// isNilIdent reports whether e is the predeclared nil.
func isNilIdent(info *types.Info, e ast.Expr) bool {
	id, ok := core.Unparen(e).(*ast.Ident)
	if !ok || id.Name != "nil" {
		return false
	}
	_, isNil := info.Uses[id].(*types.Nil)
	return isNil
}

// rangeOver finds `for … := range <ident ch>` statements in f (not in literals).
func rangeOver(f *core.Func, chObj types.Object) []*ast.RangeStmt {
	var out []*ast.RangeStmt
	core.InspectNoLit(f.Body, func(n ast.Node) bool {
		if rs, ok := n.(*ast.RangeStmt); ok {
			if id, ok := core.Unparen(rs.X).(*ast.Ident); ok && f.Info().Uses[id] == chObj {
				out = append(out, rs)
			}
		}
		return true
	})
	return out
}

// loopBlocks returns the head, body and done blocks of a range statement.
func loopBlocks(g *core.Graph, s ast.Stmt) (head, body, done *cfg.Block) {
	for _, b := range g.C.Blocks {
		if b.Stmt != s {
			continue
		}
		switch b.Kind {
		case cfg.KindRangeLoop, cfg.KindForLoop:
			head = b
		case cfg.KindRangeBody, cfg.KindForBody:
			body = b
		case cfg.KindRangeDone, cfg.KindForDone:
			done = b
		}
	}
	return
}

// earlyLoopExits finds paths that leave the body of loop s without going
// through the loop head (break, goto, return).  It returns a description
// per offending way out.
func earlyLoopExits(c *core.Check, g *core.Graph, s ast.Stmt) []string {
	head, body, done := loopBlocks(g, s)
	if head == nil || body == nil || done == nil {
		return []string{"loop blocks not found"}
	}
	var out []string
	start := core.Point{B: body, I: -1}
	avoidHead := func(b *cfg.Block, si int) bool { return b.Succs[si] == head }
	for _, e := range g.Exits() {
		if e.Kind == "panic" {
			continue
		}
		if trail, ok := g.Search(core.Query{From: &start, Goal: core.At(e.P), AvoidEdge: avoidHead}); ok {
			out = append(out, fmt.Sprintf("%s at %s via %s", e.String(), ppos(c, e.P, g.F), strings.Join(g.Trail(trail), " > ")))
		}
	}
	if trail, ok := g.Search(core.Query{From: &start, Goal: func(p core.Point) bool { return p.B == done && p.I == 0 }, AvoidEdge: avoidHead}); ok {
		out = append(out, fmt.Sprintf("break/goto out of the loop via %s", strings.Join(g.Trail(trail), " > ")))
	}
	return out
}

// identObj resolves an identifier expression to its object.
func identObj(info *types.Info, e ast.Expr) types.Object {
	if id, ok := core.Unparen(e).(*ast.Ident); ok {
		if o := info.Uses[id]; o != nil {
			return o
		}
		return info.Defs[id]
	}
	return nil
}

func sortedKeys[M ~map[string]V, V any](m M) []string {
	var ks []string
	for k := range m {
		ks = append(ks, k)
	}
	sort.Strings(ks)
	return ks
}

var _ = token.NoPos

// goLits returns the function literals that f starts with `go func(){…}()`.
func goLits(c *core.Check, f *core.Func) []*core.Func {
	var out []*core.Func
	core.InspectNoLit(f.Body, func(n ast.Node) bool {
		if gs, ok := n.(*ast.GoStmt); ok {
			if lit, ok := core.Unparen(gs.Call.Fun).(*ast.FuncLit); ok {
				if lf := c.Prog.FuncOf[lit]; lf != nil {
					out = append(out, lf)
				}
			}
		}
		return true
	})
	return out
}

// deferLits returns the literals that f defers with `defer func(){…}()`, in source order.
func deferLits(c *core.Check, f *core.Func) []*core.Func {
	var out []*core.Func
	core.InspectNoLit(f.Body, func(n ast.Node) bool {
		if ds, ok := n.(*ast.DeferStmt); ok {
			if lit, ok := core.Unparen(ds.Call.Fun).(*ast.FuncLit); ok {
				if lf := c.Prog.FuncOf[lit]; lf != nil {
					out = append(out, lf)
				}
			}
		}
		return true
	})
	return out
}

// pathAvoiding searches a path from `from` (nil = entry) to any goal point
// that passes none of the avoid points.
func pathAvoiding(g *core.Graph, from *core.Point, goals, avoid []core.Point) ([]string, bool) {
	if len(goals) == 0 {
		return nil, false
	}
	tr, ok := g.Search(core.Query{From: from, Goal: core.At(goals...), Avoid: core.At(avoid...)})
	return g.Trail(tr), ok
}

// normalExits lists the non-panic exits.
func normalExits(g *core.Graph) []core.Exit {
	var out []core.Exit
	for _, e := range g.Exits() {
		if e.Kind != "panic" {
			out = append(out, e)
		}
	}
	return out
}

// closesOf finds close(x) calls whose argument's access path has the given suffix.
func closesOf(g *core.Graph, suffix string) []core.Hit {
	return g.Calls(func(id string, call *ast.CallExpr) bool {
		return id == "builtin.close" && len(call.Args) == 1 && strings.HasSuffix(core.PathOf(call.Args[0]), suffix)
	})
}

// constBool evaluates e as a boolean constant.
func constBool(info *types.Info, e ast.Expr) (val, ok bool) {
	tv, has := info.Types[e]
	if !has || tv.Value == nil {
		return false, false
	}
	s := tv.Value.ExactString()
	return s == "true", s == "true" || s == "false"
}

// constInt evaluates e as an integer constant.
func constInt(info *types.Info, e ast.Expr) (int64, bool) {
	tv, has := info.Types[e]
	if !has || tv.Value == nil {
		return 0, false
	}
	var v int64
	if _, err := fmt.Sscan(tv.Value.ExactString(), &v); err != nil {
		return 0, false
	}
	return v, true
}

// paramIndex returns the index of the named parameter of f, or -1.
func paramIndex(f *core.Func, name string) int {
	i := 0
	for _, fl := range f.Type.Params.List {
		if len(fl.Names) == 0 {
			i++
			continue
		}
		for _, n := range fl.Names {
			if n.Name == name {
				return i
			}
			i++
		}
	}
	return -1
}

// usedObj resolves the object an identifier/selector expression denotes (field for selectors).
func usedObj(info *types.Info, e ast.Expr) types.Object {
	switch x := core.Unparen(e).(type) {
	case *ast.Ident:
		if o := info.Uses[x]; o != nil {
			return o
		}
		return info.Defs[x]
	case *ast.SelectorExpr:
		return info.Uses[x.Sel]
	}
	return nil
}

// ifWithCond finds the if statements in f (not in literals) satisfying pred on the condition.
func ifsWhere(f *core.Func, pred func(*ast.IfStmt) bool) []*ast.IfStmt {
	var out []*ast.IfStmt
	core.InspectNoLit(f.Body, func(n ast.Node) bool {
		if is, ok := n.(*ast.IfStmt); ok && pred(is) {
			out = append(out, is)
		}
		return true
	})
	return out
}

// exprMentions reports whether e contains a call whose callee id satisfies pred, or an identifier resolving to obj.
func exprCalls(f *core.Func, e ast.Node, ids ...string) bool {
	found := false
	ast.Inspect(e, func(n ast.Node) bool {
		if c, ok := n.(*ast.CallExpr); ok {
			id := f.CalleeID(c)
			for _, x := range ids {
				if id == x {
					found = true
				}
			}
		}
		return !found
	})
	return found
}

func exprUses(info *types.Info, e ast.Node, obj types.Object) bool {
	if obj == nil {
		return false
	}
	found := false
	ast.Inspect(e, func(n ast.Node) bool {
		if id, ok := n.(*ast.Ident); ok && info.Uses[id] == obj {
			found = true
		}
		return !found
	})
	return found
}

// thenStart returns a pseudo point from which a Search explores exactly the
// then-branch (succ 0) or else/done branch (succ 1) of an if statement.
func branchStart(g *core.Graph, is *ast.IfStmt, then bool) (*core.Point, bool) {
	cb := g.CondBlock(is)
	if cb == nil {
		return nil, false
	}
	k := 1
	if then {
		k = 0
	}
	return &core.Point{B: cb.Succs[k], I: -1}, true
}

// exprStr renders an expression in full (types.ExprString elides composite
// literal bodies and function literals).
func exprStr(e ast.Expr) string {
	if e == nil {
		return ""
	}
	var buf bytes.Buffer
	if err := printer.Fprint(&buf, token.NewFileSet(), e); err != nil {
		return types.ExprString(e)
	}
	return buf.String()
}

// recvIdent returns the receiver name of a method declaration.
func recvIdent(f *core.Func) string {
	if f.Decl.Recv != nil && len(f.Decl.Recv.List) > 0 && len(f.Decl.Recv.List[0].Names) > 0 {
		return f.Decl.Recv.List[0].Names[0].Name
	}
	return "_"
}

// paramObj returns the object of the named parameter of a declaration.
func paramObj(f *core.Func, name string) types.Object {
	for _, fl := range f.Type.Params.List {
		for _, n := range fl.Names {
			if n.Name == name {
				return f.Info().Defs[n]
			}
		}
	}
	return nil
}

// pairedEvents checks strict alternation A,B,A,B… on every path of g: each A
// is followed by a B before the next A or a normal exit, and each B is
// preceded by an A since the previous B or the entry.  It reports the first
// counterexample per direction.
func pairedEvents(g *core.Graph, as, bs []core.Point) (msg string, trail []string, ok bool) {
	exits := core.ExitPoints(normalExits(g))
	for i := range as {
		from := as[i]
		if tr, found := pathAvoiding(g, &from, append(append([]core.Point{}, exits...), as...), bs); found {
			return "an occurrence of the first event is not followed by the second before the function leaves (or the first occurs again)", tr, false
		}
	}
	if tr, found := pathAvoiding(g, nil, bs, as); found {
		return "the second event can occur without the first", tr, false
	}
	for i := range bs {
		from := bs[i]
		if tr, found := pathAvoiding(g, &from, bs, as); found {
			return "the second event can occur twice for one occurrence of the first", tr, false
		}
	}
	return "", nil, true
}

// iterationCount counts events on the paths through one iteration of loop s
// (from the start of its body back to the loop head).  ok is false if the
// loop blocks cannot be found.
func iterationCount(g *core.Graph, s ast.Stmt, events []core.Point) (core.Cnt, bool) {
	head, body, _ := loopBlocks(g, s)
	if head == nil || body == nil {
		return core.Cnt{}, false
	}
	ctr := g.Count(&core.Point{B: body, I: -1}, events, map[*cfg.Block]bool{head: true})
	return ctr.At(core.Point{B: head, I: 0})
}

// expvarAdds finds calls `<pkgvar>.Add(...)` on the package-level variable with the given name.
func expvarAdds(g *core.Graph, varName string) []core.Hit {
	return g.Calls(func(id string, call *ast.CallExpr) bool {
		if !strings.HasSuffix(id, ".Add") || !strings.HasPrefix(id, "expvar.") {
			return false
		}
		r := core.RecvExpr(call)
		if r == nil {
			return false
		}
		p := core.PathOf(r)
		return p == varName || strings.HasSuffix(p, "."+varName)
	})
}

// returnsNil reports whether the return statement returns the literal nil as its last result.
func returnsNil(info *types.Info, r *ast.ReturnStmt) bool {
	if r == nil || len(r.Results) == 0 {
		return true
	}
	return isNilIdent(info, r.Results[len(r.Results)-1])
}

// rangeStmts lists the range statements of f (not in nested literals).
func rangeStmts(f *core.Func) []*ast.RangeStmt {
	var out []*ast.RangeStmt
	core.InspectNoLit(f.Body, func(n ast.Node) bool {
		if rs, ok := n.(*ast.RangeStmt); ok {
			out = append(out, rs)
		}
		return true
	})
	return out
}

// isChanOfLogLine reports whether the expression is a channel of *logline.LogLine.
func isChanOfLogLine(info *types.Info, e ast.Expr) bool {
	t := info.TypeOf(e)
	if t == nil {
		return false
	}
	ch, ok := t.Underlying().(*types.Chan)
	if !ok {
		return false
	}
	return strings.HasSuffix(ch.Elem().String(), "logline.LogLine")
}

// sendsOfLines finds send statements on channels of *logline.LogLine.
func sendsOfLines(g *core.Graph) []core.Hit {
	return g.Find(func(n ast.Node) bool {
		s, ok := n.(*ast.SendStmt)
		return ok && isChanOfLogLine(g.F.Info(), s.Chan)
	})
}
