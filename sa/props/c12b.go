package props

import (
	"fmt"
	"go/ast"
	"go/types"
	"strings"

	"verif/sa/core"
)

// Extra C12 rule (own file).
func init() { register("C12", c12LockedStringer) }

// c12LockedStringer: fmt and glog format an argument through its String (or
// Error) method.  If that method takes a lock of its receiver and the caller
// already holds that lock on the same object, the read lock is taken twice by
// one goroutine; with a writer queued in between (sync.RWMutex gives waiting
// writers priority) the three wait for each other for ever.
func c12LockedStringer(c *core.Check) {
	c.Rule("C12-R5", "NO-FORMATTING-OF-A-LOCKED-OBJECT: no call of a formatting function (fmt.*, glog.*, errors.Errorf/Wrapf, log.*) passes a value whose String/Error method acquires a lock of its receiver while the calling function holds that same object's lock at the call")
	// module types whose String/Error method locks the receiver
	locking := map[string]*core.Func{} // type name (pkg-relative) -> method
	for _, k := range c.Prog.SortedFuncKeys() {
		f := c.Prog.Funcs[k]
		if f.Lit != nil || f.Decl.Recv == nil || (f.Decl.Name.Name != "String" && f.Decl.Name.Name != "Error" && f.Decl.Name.Name != "GoString") {
			continue
		}
		recv := recvIdent(f)
		for _, ev := range f.Graph().LockEvents() {
			if ev.Acquire && (ev.Path == recv || strings.HasPrefix(ev.Path, recv+".")) {
				if f.Obj != nil {
					sig := f.Obj.Type().(*types.Signature)
					locking[sig.Recv().Type().String()] = f
				}
			}
		}
	}
	var names []string
	for t := range locking {
		names = append(names, t)
	}
	c.Extra["types_whose_String_locks"] = names
	isFormatter := func(id string) bool {
		return strings.HasPrefix(id, "fmt.") || strings.HasPrefix(id, "github.com/golang/glog.") || strings.HasPrefix(id, "log.") ||
			id == "github.com/pkg/errors.Errorf" || id == "github.com/pkg/errors.Wrapf" || id == "github.com/pkg/errors.Wrap"
	}
	n := 0
	for _, f := range shipped(c) {
		info := f.Info()
		g := f.Graph()
		var held *core.Held
		for _, h := range g.Calls(func(id string, call *ast.CallExpr) bool { return isFormatter(id) }) {
			call := h.N.(*ast.CallExpr)
			for _, a := range call.Args {
				t := info.TypeOf(a)
				if t == nil {
					continue
				}
				m, ok := locking[t.String()]
				if !ok {
					continue
				}
				n++
				if held == nil {
					held = g.MustHold()
				}
				set := held.At(h.P)
				path := core.PathOf(a)
				key := fmt.Sprintf("%s|formats %s#%d", f.Key, path, n)
				c.Analysed(f)
				locked := core.Holds(set, path, "R")
				c.Verdict(!locked, "C12-R5", key, pos(c, call), "the object's lock is not held by this function at the call", fmt.Sprintf("%s is formatted (its %s method takes the receiver's lock) while this function holds %s's lock (%s): the same goroutine takes the read lock twice, and a writer that queues in between — a VM creating a label value, GC — blocks the second acquisition for ever; the metric stays locked, line processing and every later export of it hang", path, m.Decl.Name.Name, path, core.SetString(set)))
			}
		}
	}
	if n == 0 {
		c.Undecided("C12-R5", "sites", "-", "no formatting call with a self-locking Stringer argument found (Store.Add logs the metric it adds: expected at least one)")
	}
	c.Floor("C12-R5", 1)
}
