package props

import (
	"fmt"
	"go/ast"
	"go/token"
	"go/types"
	"sort"
	"strings"

	"verif/sa/core"
)

func init() { register("C11", c11) }

// c11Guard is one line of the guarded-by table: accesses to field Field of
// struct Typ (package Pkg, relative to the module) need the lock Lock of the
// same object ("" = the struct embeds its sync.RWMutex).  AnyOwner marks
// fields of a sub-object (a LabelValue) that are protected by the lock of the
// owning Metric, which is not named by the access path: any Metric lock held
// in the right mode satisfies the rule.  Global guards a package-level variable
// by a package-level mutex.
type c11Guard struct {
	Pkg, Typ, Field, Lock string
	AnyOwner              string // type name of the owner whose lock protects the field
	Global                bool
	Why                   string
}

var c11Guards = []c11Guard{
	{Pkg: "internal/metrics", Typ: "Metric", Field: "LabelValues", Why: "embedded RWMutex; every method of Metric that touches the slice takes it"},
	{Pkg: "internal/metrics", Typ: "Metric", Field: "labelValuesMap", Why: "same"},
	{Pkg: "internal/metrics", Typ: "LabelValue", Field: "Expiry", AnyOwner: "Metric", Why: "written by ExpireDatum under the owning metric's lock"},
	{Pkg: "internal/metrics", Typ: "Store", Field: "Metrics", Lock: "searchMu", Why: "comment on searchMu: read for iterate and insert, write for delete"},
	{Pkg: "internal/metrics/datum", Typ: "Buckets", Field: "Buckets", Why: "embedded RWMutex"},
	{Pkg: "internal/metrics/datum", Typ: "Buckets", Field: "Count", Why: "embedded RWMutex"},
	{Pkg: "internal/metrics/datum", Typ: "Buckets", Field: "Sum", Why: "embedded RWMutex"},
	{Pkg: "internal/metrics/datum", Typ: "String", Field: "Value", Lock: "mu", Why: "mu"},
	{Pkg: "internal/runtime", Typ: "Runtime", Field: "handles", Lock: "handleMu", Why: "comment: guards accesses to handles"},
	{Pkg: "internal/runtime", Typ: "Runtime", Field: "programErrors", Lock: "programErrorMu", Why: "comment: guards access to programErrors"},
	{Pkg: "internal/runtime/vm", Typ: "VM", Field: "runtimeError", Lock: "runtimeErrorMu", Why: "comment: protects runtimeError"},
	{Pkg: "internal/tailer", Typ: "Tailer", Field: "logstreams", Lock: "logstreamsMu", Why: "comment: protects logstreams"},
	{Pkg: "internal/tailer", Typ: "Tailer", Field: "globPatterns", Lock: "globPatternsMu", Why: "comment: protects globPatterns"},
	{Pkg: "internal/waker", Typ: "timedWaker", Field: "wake", Lock: "mu", Why: "comment: protects following fields"},
	{Pkg: "internal/runtime/compiler/types", Typ: "Variable", Field: "Instance", Lock: "instanceMu", Why: "instanceMu"},
	{Pkg: "internal/runtime/compiler/types", Field: "nextVariableID", Lock: "nextVariableIDMu", Global: true, Why: "package-level counter and its mutex"},
	{Pkg: "internal/runtime/compiler/ast", Typ: "ExprList", Field: "typ", Lock: "typMu", Why: "typMu"},
	{Pkg: "internal/runtime/compiler/ast", Typ: "BinaryExpr", Field: "typ", Lock: "typMu", Why: "typMu"},
	{Pkg: "internal/runtime/compiler/ast", Typ: "UnaryExpr", Field: "typ", Lock: "typMu", Why: "typMu"},
	{Pkg: "internal/runtime/compiler/ast", Typ: "IndexedExpr", Field: "typ", Lock: "typMu", Why: "typMu"},
	{Pkg: "internal/runtime/compiler/ast", Typ: "BuiltinExpr", Field: "typ", Lock: "typMu", Why: "typMu"},
	{Pkg: "internal/runtime/compiler/ast", Typ: "ConvExpr", Field: "typ", Lock: "mu", Why: "mu"},
}

// c11Fresh lists constructs where an object is not yet visible to any other
// goroutine, so its guarded fields may be touched without the lock.
//
// Keys name a parameter by POSITION ("param 0"; "recv" for the receiver), never
// by its identifier, so that renaming it changes nothing.
var c11Fresh = map[string]string{
	"internal/metrics.(*Store).Add|param 0": "the metric being registered belongs to the program version compiled in the same CompileAndRun call; its VM is started only after every Add returned and the store publishes it only at the end of Add",
}

// c11ParamSlot is the rename-proof name of a parameter position, used in
// obligation keys and in the c11Fresh table.
func c11ParamSlot(idx int) string {
	if idx == -1 {
		return "recv"
	}
	return fmt.Sprintf("param %d", idx)
}

type c11Access struct {
	f      *core.Func
	sel    ast.Expr // the selector (or identifier, for globals)
	base   ast.Expr // X of the selector; nil for globals
	g      *c11Guard
	write  bool
	atomic bool
	pos    token.Pos
}

// c11Req is a lock requirement of a function on one of its parameters:
// "callers must hold <param><suffix> in mode".
type c11Req struct {
	param  int // -1 = receiver
	suffix string
	mode   string
	any    string // AnyOwner requirement ("Metric"): some lock of that type must be held
	why    string // the access that needs it
	pos    string
}

func (r c11Req) key() string { return fmt.Sprintf("%d|%s|%s|%s", r.param, r.suffix, r.mode, r.any) }

type c11State struct {
	c       *core.Check
	fields  map[*types.Var]*c11Guard
	parents map[*core.Func]map[ast.Node]ast.Node
	held    map[*core.Func]*core.Held
	lockTyp map[string]string // per function: lock path -> owner type name, filled lazily
}

func c11FieldVar(c *core.Check, g *c11Guard) *types.Var {
	pkg := c.Prog.Pkgs[g.Pkg]
	if pkg == nil {
		return nil
	}
	if g.Global {
		v, _ := pkg.Types.Scope().Lookup(g.Field).(*types.Var)
		return v
	}
	obj := pkg.Types.Scope().Lookup(g.Typ)
	if obj == nil {
		return nil
	}
	st, _ := obj.Type().Underlying().(*types.Struct)
	if st == nil {
		return nil
	}
	for i := 0; i < st.NumFields(); i++ {
		if st.Field(i).Name() == g.Field {
			return st.Field(i)
		}
	}
	return nil
}

func (s *c11State) parentMap(f *core.Func) map[ast.Node]ast.Node {
	if m, ok := s.parents[f]; ok {
		return m
	}
	m := map[ast.Node]ast.Node{}
	var stack []ast.Node
	ast.Inspect(f.Body, func(n ast.Node) bool {
		if n == nil {
			stack = stack[:len(stack)-1]
			return true
		}
		if len(stack) > 0 {
			m[n] = stack[len(stack)-1]
		}
		stack = append(stack, n)
		return true
	})
	s.parents[f] = m
	return m
}

func (s *c11State) heldAt(f *core.Func, n ast.Node) (map[string]bool, bool) {
	h := s.held[f]
	if h == nil {
		h = f.Graph().MustHold()
		s.held[f] = h
	}
	p, ok := f.Graph().PointOf(n)
	if !ok {
		return nil, false
	}
	return h.At(p), true
}

// isWrite classifies the use of the expression e (a selector of a guarded
// field): assignment target (possibly through index/slice expressions),
// inc/dec, delete from it, or address taken.
func (s *c11State) isWrite(f *core.Func, e ast.Expr) bool {
	pm := s.parentMap(f)
	var cur ast.Node = e
	for {
		p := pm[cur]
		switch x := p.(type) {
		case *ast.ParenExpr:
			cur = x
			continue
		case *ast.IndexExpr:
			if x.X == cur {
				cur = x
				continue
			}
			return false
		case *ast.SliceExpr:
			if x.X == cur {
				// a reslice is a read of the header unless assigned back
				return false
			}
			return false
		case *ast.AssignStmt:
			for _, l := range x.Lhs {
				if l == cur {
					return true
				}
			}
			return false
		case *ast.IncDecStmt:
			return x.X == cur
		case *ast.UnaryExpr:
			return x.Op == token.AND && x.X == cur
		case *ast.CallExpr:
			if f.CalleeID(x) == "builtin.delete" && len(x.Args) > 0 && x.Args[0] == cur {
				return true
			}
			return false
		}
		return false
	}
}

// inAtomicCall reports whether e is the operand of & that is an argument of a
// sync/atomic function.
func (s *c11State) inAtomicCall(f *core.Func, e ast.Expr) bool {
	pm := s.parentMap(f)
	p := pm[e]
	if pe, ok := p.(*ast.ParenExpr); ok {
		p = pm[pe]
	}
	u, ok := p.(*ast.UnaryExpr)
	if !ok || u.Op != token.AND {
		return false
	}
	if call, ok := pm[u].(*ast.CallExpr); ok {
		return strings.HasPrefix(f.CalleeID(call), "sync/atomic.")
	}
	return s.atomicPtrLocal(f, u)
}

// atomicPtrLocal reports whether addr (an `&x.f` expression) is the sole
// initialiser of a local pointer every use of which is a direct argument of a
// sync/atomic function: `p := &d.Value; atomic.AddInt64(p, delta)` is the same
// access as `atomic.AddInt64(&d.Value, delta)`.
func (s *c11State) atomicPtrLocal(f *core.Func, addr *ast.UnaryExpr) bool {
	pm := s.parentMap(f)
	var lhs ast.Expr
	switch d := pm[addr].(type) {
	case *ast.AssignStmt:
		if d.Tok != token.DEFINE || len(d.Lhs) != len(d.Rhs) {
			return false
		}
		for i, r := range d.Rhs {
			if r == ast.Expr(addr) {
				lhs = d.Lhs[i]
			}
		}
	case *ast.ValueSpec:
		if len(d.Names) != len(d.Values) {
			return false
		}
		for i, r := range d.Values {
			if r == ast.Expr(addr) {
				lhs = d.Names[i]
			}
		}
	}
	id, ok := lhs.(*ast.Ident)
	if !ok || id.Name == "_" {
		return false
	}
	obj := f.Info().Defs[id]
	if obj == nil {
		return false
	}
	uses, okAll := 0, true
	ast.Inspect(f.Body, func(n ast.Node) bool {
		u, ok := n.(*ast.Ident)
		if !ok || f.Info().Uses[u] != obj {
			return true
		}
		uses++
		var cur ast.Node = u
		if pe, ok := pm[cur].(*ast.ParenExpr); ok {
			cur = pe
		}
		call, ok := pm[cur].(*ast.CallExpr)
		isArg := false
		if ok {
			for _, a := range call.Args {
				if a == cur {
					isArg = true
				}
			}
		}
		if !isArg || !strings.HasPrefix(f.CalleeID(call), "sync/atomic.") {
			okAll = false
		}
		return true
	})
	return uses > 0 && okAll
}

// derivedOwner resolves a local that only ever holds an element of a guarded
// container field of an object of type owner (`lv := m.LabelValues[i]`,
// `for _, lv := range m.LabelValues`, `lv, ok := m.labelValuesMap[k]`) to the
// expression naming that object (m) and the guard of the container.  ok is
// false when some definition of the local is anything else, or when the
// definitions name different objects.
func (s *c11State) derivedOwner(f *core.Func, obj types.Object, owner string) (ast.Expr, *c11Guard, bool) {
	if obj == nil {
		return nil, nil, false
	}
	info := f.Info()
	root := f
	for root.Parent != nil {
		root = root.Parent
	}
	container := func(e ast.Expr) (ast.Expr, *c11Guard) {
		e = core.Unparen(e)
		if ix, ok := e.(*ast.IndexExpr); ok {
			e = core.Unparen(ix.X)
		}
		sel, ok := e.(*ast.SelectorExpr)
		if !ok {
			return nil, nil
		}
		sl := info.Selections[sel]
		if sl == nil || sl.Kind() != types.FieldVal {
			return nil, nil
		}
		fv, _ := sl.Obj().(*types.Var)
		g := s.fields[fv]
		if g == nil || g.Global || g.AnyOwner != "" || g.Typ != owner {
			return nil, nil
		}
		return sel.X, g
	}
	var own ast.Expr
	var guard *c11Guard
	good, bad := 0, 0
	note := func(e ast.Expr, indexed bool) {
		var b ast.Expr
		var g *c11Guard
		if indexed {
			// the right-hand side must be an element: container[...]
			if _, ok := core.Unparen(e).(*ast.IndexExpr); ok {
				b, g = container(e)
			}
		} else {
			// range operand: the container itself
			if _, ok := core.Unparen(e).(*ast.IndexExpr); !ok {
				b, g = container(e)
			}
		}
		if b == nil {
			bad++
			return
		}
		if own != nil && core.PathOf(own) != core.PathOf(b) {
			bad++
			return
		}
		own, guard = b, g
		good++
	}
	ast.Inspect(root.Body, func(n ast.Node) bool {
		switch x := n.(type) {
		case *ast.AssignStmt:
			for i, l := range x.Lhs {
				if identObj(info, l) != obj {
					continue
				}
				switch {
				case len(x.Lhs) == len(x.Rhs):
					note(x.Rhs[i], true)
				case len(x.Rhs) == 1 && i == 0:
					note(x.Rhs[0], true) // comma-ok map lookup
				default:
					bad++
				}
			}
		case *ast.ValueSpec:
			for i, nm := range x.Names {
				if info.Defs[nm] != obj {
					continue
				}
				if len(x.Values) == len(x.Names) {
					note(x.Values[i], true)
				} else if len(x.Values) != 0 {
					bad++
				}
			}
		case *ast.RangeStmt:
			if x.Value != nil && identObj(info, x.Value) == obj {
				note(x.X, false)
			}
			if x.Key != nil && identObj(info, x.Key) == obj {
				bad++
			}
		case *ast.UnaryExpr:
			if x.Op == token.AND && identObj(info, x.X) == obj {
				bad++ // address taken: may be assigned through the pointer
			}
		}
		return true
	})
	if good == 0 || bad > 0 {
		return nil, nil, false
	}
	return own, guard, true
}

// accesses lists the guarded-field accesses inside f's own body (not its literals).
func (s *c11State) accesses(f *core.Func) []c11Access {
	var out []c11Access
	info := f.Info()
	core.InspectNoLit(f.Body, func(n ast.Node) bool {
		switch x := n.(type) {
		case *ast.SelectorExpr:
			sel := info.Selections[x]
			if sel == nil || sel.Kind() != types.FieldVal {
				return true
			}
			fv, _ := sel.Obj().(*types.Var)
			if g := s.fields[fv]; g != nil {
				out = append(out, c11Access{f: f, sel: x, base: x.X, g: g, write: s.isWrite(f, x), pos: x.Pos()})
			}
		case *ast.Ident:
			if v, ok := info.Uses[x].(*types.Var); ok {
				if g := s.fields[v]; g != nil && g.Global {
					out = append(out, c11Access{f: f, sel: x, g: g, write: s.isWrite(f, x), pos: x.Pos()})
				}
			}
		case *ast.FuncLit:
			if x != f.Lit {
				return false
			}
		}
		return true
	})
	return out
}

// lockOwnerType returns the name of the struct type that owns the mutex on
// which call (a Lock/RLock/... call) operates: the embedding struct for a
// promoted method, else the struct whose field the mutex is.
func c11LockOwner(f *core.Func, recv ast.Expr) string {
	info := f.Info()
	tname := func(t types.Type) string {
		if p, ok := t.(*types.Pointer); ok {
			t = p.Elem()
		}
		if n, ok := t.(*types.Named); ok {
			return n.Obj().Name()
		}
		return ""
	}
	t := info.TypeOf(recv)
	if t == nil {
		return ""
	}
	if n := tname(t); n != "" && n != "RWMutex" && n != "Mutex" {
		return n // embedded
	}
	if sel, ok := core.Unparen(recv).(*ast.SelectorExpr); ok {
		if s := info.Selections[sel]; s != nil {
			return tname(s.Recv()) + "." + sel.Sel.Name
		}
	}
	if id, ok := core.Unparen(recv).(*ast.Ident); ok {
		return id.Name // package-level mutex
	}
	return ""
}

// anyHeld reports whether some lock whose owner is of type owner is held in
// at least the given mode at node n of f.
func (s *c11State) anyHeld(f *core.Func, set map[string]bool, owner, mode string) bool {
	own := map[string]string{}
	for _, ev := range f.Graph().LockEvents() {
		if r := core.RecvExpr(ev.Call); r != nil {
			own[ev.Path] = c11LockOwner(f, r)
		}
	}
	for k := range set {
		i := strings.LastIndex(k, ":")
		path, m := k[:i], k[i+1:]
		if own[path] == owner && (m == "W" || mode == "R") {
			return true
		}
	}
	return false
}

func c11ParamIndex(f *core.Func, obj types.Object) (int, bool) {
	if obj == nil {
		return 0, false
	}
	if f.Decl != nil && f.Lit == nil && f.Decl.Recv != nil {
		for _, fl := range f.Decl.Recv.List {
			for _, n := range fl.Names {
				if f.Info().Defs[n] == obj {
					return -1, true
				}
			}
		}
	}
	i := 0
	for _, fl := range f.Type.Params.List {
		if len(fl.Names) == 0 {
			i++
			continue
		}
		for _, n := range fl.Names {
			if f.Info().Defs[n] == obj {
				return i, true
			}
			i++
		}
	}
	return 0, false
}

func c11ParamName(f *core.Func, idx int) string {
	if idx == -1 {
		return recvIdent(f)
	}
	i := 0
	for _, fl := range f.Type.Params.List {
		if len(fl.Names) == 0 {
			i++
			continue
		}
		for _, n := range fl.Names {
			if i == idx {
				return n.Name
			}
			i++
		}
	}
	return fmt.Sprintf("arg%d", idx)
}

// c11FreshLocal reports whether the identifier obj is, in f, a local assigned
// from a composite literal, new(), or a constructor-like call, and from
// nothing else (so the object is not yet shared).
func c11FreshLocal(f *core.Func, obj types.Object) bool {
	if obj == nil {
		return false
	}
	// inside a goroutine literal an object captured from the spawner is shared with the spawner: not fresh any more
	for cur := f; cur != nil && cur.Lit != nil; cur = cur.Parent {
		if cur.Parent == nil {
			break
		}
		isGo := false
		core.InspectNoLit(cur.Parent.Body, func(n ast.Node) bool {
			if gs, ok := n.(*ast.GoStmt); ok && core.Unparen(gs.Call.Fun) == ast.Expr(cur.Lit) {
				isGo = true
			}
			return !isGo
		})
		if isGo && !(cur.Lit.Pos() <= obj.Pos() && obj.Pos() < cur.Lit.End()) {
			return false
		}
	}
	info := f.Info()
	fresh, other := 0, 0
	root := f
	for root.Parent != nil {
		root = root.Parent
	}
	ast.Inspect(root.Body, func(n ast.Node) bool {
		as, ok := n.(*ast.AssignStmt)
		if !ok || len(as.Lhs) != len(as.Rhs) {
			if ok {
				for _, l := range as.Lhs {
					if identObj(info, l) == obj {
						other++
					}
				}
			}
			return true
		}
		for i, l := range as.Lhs {
			if identObj(info, l) != obj {
				continue
			}
			r := core.Unparen(as.Rhs[i])
			if u, ok := r.(*ast.UnaryExpr); ok && u.Op == token.AND {
				r = core.Unparen(u.X)
			}
			switch x := r.(type) {
			case *ast.CompositeLit:
				fresh++
			case *ast.CallExpr:
				id := root.CalleeID(x)
				name := id[strings.LastIndex(id, ".")+1:]
				if id == "builtin.new" || id == "builtin.make" || strings.HasPrefix(name, "New") || strings.HasPrefix(name, "new") || strings.HasPrefix(name, "Make") {
					fresh++
				} else {
					other++
				}
			default:
				other++
			}
		}
		return true
	})
	return fresh > 0 && other == 0
}

// enclosingLit returns the innermost function literal of lf's body that contains n (lf.Lit itself if none is nested).
func enclosingLit(s *c11State, lf *core.Func, n ast.Node) *ast.FuncLit {
	pm := s.parentMap(lf)
	for cur := pm[n]; cur != nil; cur = pm[cur] {
		if l, ok := cur.(*ast.FuncLit); ok {
			return l
		}
	}
	return lf.Lit
}

func c11(c *core.Check) {
	c.Explain = "Lock discipline of the shared state, decided for every access in shipped code.  (R1) guarded-by: every read or write of a field in the guarded-by table happens with the guard of the same object certainly held (must-hold lockset over the go/cfg graph; read mode suffices for reads), or in a function all of whose call sites hold it (requirements are propagated through statically resolved calls, through function values of matching type, and through encoding/json, which reads every exported field of the value it is given unless the type marshals itself); fields of a label value are protected by the lock of the owning metric; objects that are provably not yet published are exempt, each by a named reason.  (R2) a field that is ever passed to sync/atomic is accessed only through sync/atomic (no lost increment, no torn read of a datum's value or timestamp).  (R3) the label-set emitter goroutine is spawned (by a go statement on the method or by a goroutine literal calling it) only where the spawner — or, for a declared helper that is handed the metric, every caller of it — holds the metric's read lock (the lock is delegated; C12 decides that it is kept until the emitter has finished).  (R4) the acquired-while-held relation over all mutexes, including acquisitions inside callees, is acyclic.  (R5) every struct field that is a mutex is known to the table, and the unguarded fields of Metric are written only by constructor-phase code (the listed functions and unexported helpers called from nowhere else).  (R6) no atomic store of a field is fed, within one function, by an atomic load of the same field (load-then-store is not an atomic update).  Not decided: happens-before through channels and WaitGroups, races inside dependencies, atomicity of compound reads across several data."
	c.Assume = append(c.Assume, "the guarded-by table (printed in the evidence) is the intended protection of each field; it was read from the struct comments and confirmed by reading every access", "aliasing is syntactic: two access paths name the same lock iff they are textually equal", "constructor-phase objects (fresh locals, the metric handed to Store.Add) are not shared")
	s := &c11State{c: c, fields: map[*types.Var]*c11Guard{}, parents: map[*core.Func]map[ast.Node]ast.Node{}, held: map[*core.Func]*core.Held{}}
	var table []string
	for i := range c11Guards {
		g := &c11Guards[i]
		fv := c11FieldVar(c, g)
		if fv == nil {
			c.Undecided("C11-R1", "table|"+g.Pkg+"."+g.Typ+"."+g.Field, "-", "guarded field not found in the loaded program")
			continue
		}
		s.fields[fv] = g
		lk := g.Lock
		if lk == "" {
			lk = "(embedded RWMutex)"
		}
		if g.AnyOwner != "" {
			lk = "lock of the owning " + g.AnyOwner
		}
		table = append(table, fmt.Sprintf("%s.%s.%s guarded by %s", g.Pkg, g.Typ, g.Field, lk))
	}
	c.Extra["guarded_by_table"] = table

	c.Rule("C11-R1", "GUARDED-BY: each access to a guarded field holds the guard of the same object (W for writes, R or W for reads) at that point on every path, or every call chain into the accessing function does; unpublished objects are exempt by a named reason")
	fns := shipped(c)
	reqs := map[*core.Func]map[string]c11Req{}
	addReq := func(f *core.Func, r c11Req) bool {
		if reqs[f] == nil {
			reqs[f] = map[string]c11Req{}
		}
		if _, ok := reqs[f][r.key()]; ok {
			return false
		}
		reqs[f][r.key()] = r
		return true
	}
	nacc := 0
	ordinal := map[string]int{}
	mkKey := func(f *core.Func, what string) string {
		k := f.Key + "|" + what
		ordinal[k]++
		return fmt.Sprintf("%s#%d", k, ordinal[k])
	}
	// goroutine-root literals: `go func(){...}()`
	isGoLit := map[*core.Func]bool{}
	for _, f := range fns {
		for _, lf := range goLits(c, f) {
			isGoLit[lf] = true
		}
	}
	// declRoot returns the declaration or literal whose parameters are visible as obj
	ownerOf := func(f *core.Func, obj types.Object) (*core.Func, int, bool) {
		for cur := f; cur != nil; cur = cur.Parent {
			if idx, ok := c11ParamIndex(cur, obj); ok {
				return cur, idx, true
			}
		}
		return nil, 0, false
	}
	for _, f := range fns {
		accs := s.accesses(f)
		if len(accs) > 0 {
			c.Analysed(f)
		}
		for _, a := range accs {
			nacc++
			mode := "R"
			kind := "read"
			if a.write {
				mode, kind = "W", "write"
			}
			desc := fmt.Sprintf("%s of %s.%s", kind, a.g.Typ, a.g.Field)
			if a.g.Global {
				desc = fmt.Sprintf("%s of %s", kind, a.g.Field)
			}
			key := mkKey(f, desc)
			set, ok := s.heldAt(f, a.sel)
			if !ok {
				c.Undecided("C11-R1", key, pos(c, a.sel), "access not located in the control-flow graph")
				continue
			}
			// which lock?
			if a.g.AnyOwner != "" {
				if s.anyHeld(f, set, a.g.AnyOwner, mode) {
					c.Ok("C11-R1", key, pos(c, a.sel), "a "+a.g.AnyOwner+" lock is held: "+core.SetString(set))
					continue
				}
				// a by-value copy held in a local variable is private to this function
				if id, ok := core.Unparen(a.base).(*ast.Ident); ok {
					if v, ok := f.Info().Uses[id].(*types.Var); ok && !v.IsField() && v.Pkg() != nil && v.Parent() != v.Pkg().Scope() {
						if _, isStruct := v.Type().Underlying().(*types.Struct); isStruct {
							c.Ok("C11-R1", key, pos(c, a.sel), "field of a by-value copy local to this function")
							continue
						}
					}
				}
				// fresh label value?
				if o := identObj(f.Info(), a.base); o != nil && c11FreshLocal(f, o) {
					c.Ok("C11-R1", key, pos(c, a.sel), "fresh object")
					continue
				}
				// a helper that is handed the sub-object by its caller: the callers must hold an owner lock
				if _, _, isParam := ownerOf(f, identObj(f.Info(), a.base)); isParam && f.Lit == nil {
					addReq(f, c11Req{param: -2, mode: mode, any: a.g.AnyOwner, why: desc, pos: pos(c, a.sel)})
					c.Ok("C11-R1", key, pos(c, a.sel), "delegated to callers: requires a "+a.g.AnyOwner+" lock")
					continue
				}
				// a local that only ever holds an element of a guarded container of some owner object
				// (lv := m.LabelValues[i]): the lock needed is that object's
				if own, og, ok := s.derivedOwner(f, identObj(f.Info(), a.base), a.g.AnyOwner); ok {
					lp := core.PathOf(own)
					if og.Lock != "" {
						lp += "." + og.Lock
					}
					if core.Holds(set, lp, mode) {
						c.Ok("C11-R1", key, pos(c, a.sel), "element of "+core.PathOf(own)+"."+og.Field+"; holds "+lp+" ("+core.SetString(set)+")")
						continue
					}
					if owner, idx, isParam := ownerOf(f, identObj(f.Info(), own)); isParam && owner == f && f.Lit == nil {
						addReq(f, c11Req{param: idx, suffix: og.Lock, mode: mode, why: desc, pos: pos(c, a.sel)})
						c.Ok("C11-R1", key, pos(c, a.sel), "element of "+core.PathOf(own)+"."+og.Field+"; delegated to callers: requires "+c11ParamName(f, idx)+" lock "+mode)
						continue
					}
				}
				c.Fail("C11-R1", key, pos(c, a.sel), fmt.Sprintf("%s without the lock of the owning %s held (held here: %s): races with ExpireDatum / GC on a running program's metric", desc, a.g.AnyOwner, core.SetString(set)))
				continue
			}
			lockPath := a.g.Lock
			if !a.g.Global {
				lockPath = core.PathOf(a.base)
				if a.g.Lock != "" {
					lockPath += "." + a.g.Lock
				}
			}
			if core.Holds(set, lockPath, mode) {
				c.Ok("C11-R1", key, pos(c, a.sel), "holds "+lockPath+" ("+core.SetString(set)+")")
				continue
			}
			if a.g.Global {
				c.Fail("C11-R1", key, pos(c, a.sel), desc+" without "+lockPath+" held")
				continue
			}
			baseObj := identObj(f.Info(), a.base)
			// fresh local object
			if baseObj != nil && c11FreshLocal(f, baseObj) {
				c.Ok("C11-R1", key, pos(c, a.sel), "object created in this function and not yet published")
				continue
			}
			if owner, idx, isParam := ownerOf(f, baseObj); isParam {
				if why, ok := c11Fresh[owner.Key+"|"+c11ParamSlot(idx)]; ok {
					c.Note("C11-R1", key, pos(c, a.sel), "reasoned exception (unpublished object): "+why)
					continue
				}
				if owner == f && f.Lit == nil {
					// a function that acquires this very lock itself does not rely on its callers for it:
					// the access is outside (or in too weak a mode for) its own critical section
					var own *core.LockEv
					for i, ev := range f.Graph().LockEvents() {
						if ev.Acquire && ev.Path == lockPath {
							own = &f.Graph().LockEvents()[i]
							break
						}
					}
					if own != nil {
						c.Fail("C11-R1", key, pos(c, a.sel), fmt.Sprintf("%s without %s held in mode %s (held here: %s) although the function takes that lock itself at %s: the access lies outside its critical section, or under the read lock where the write lock is needed, and races with the accesses made under the lock", desc, lockPath, mode, core.SetString(set), pos(c, own.Call)))
						continue
					}
					addReq(f, c11Req{param: idx, suffix: a.g.Lock, mode: mode, why: desc, pos: pos(c, a.sel)})
					c.Ok("C11-R1", key, pos(c, a.sel), "delegated to callers: requires "+c11ParamName(f, idx)+" lock "+mode)
					continue
				}
				if owner == f && f.Lit != nil {
					// a callback's own parameter (e.g. Store.Range's f): nobody holds the object's lock for it
					c.Fail("C11-R1", key, pos(c, a.sel), fmt.Sprintf("%s in a callback without holding %s (held here: %s): the callback receives the object unlocked, so this access races with every writer that does take the lock (a VM creating or deleting a label value, ExpireDatum)", desc, lockPath, core.SetString(set)))
					continue
				}
			}
			c.Fail("C11-R1", key, pos(c, a.sel), fmt.Sprintf("%s without %s held (held here: %s): unsynchronised with the accesses that do take the lock", desc, lockPath, core.SetString(set)))
		}
	}
	// encoding/json reads every exported field of what it is given
	jsonReaches := func(t types.Type) (hit []string) {
		seen := map[types.Type]bool{}
		var walk func(t types.Type)
		walk = func(t types.Type) {
			if t == nil || seen[t] {
				return
			}
			seen[t] = true
			switch x := t.(type) {
			case *types.Pointer:
				walk(x.Elem())
			case *types.Slice:
				walk(x.Elem())
			case *types.Array:
				walk(x.Elem())
			case *types.Map:
				walk(x.Elem())
			case *types.Named:
				// a type that marshals itself is analysed as that method
				for _, tt := range []types.Type{x, types.NewPointer(x)} {
					ms := types.NewMethodSet(tt)
					for i := 0; i < ms.Len(); i++ {
						if ms.At(i).Obj().Name() == "MarshalJSON" {
							return
						}
					}
				}
				if st, ok := x.Underlying().(*types.Struct); ok {
					for i := 0; i < st.NumFields(); i++ {
						fl := st.Field(i)
						if !fl.Exported() {
							continue
						}
						if g := s.fields[fl]; g != nil {
							hit = append(hit, g.Typ+"."+g.Field)
						}
						walk(fl.Type())
					}
				} else {
					walk(x.Underlying())
				}
			case *types.Struct:
				for i := 0; i < x.NumFields(); i++ {
					if x.Field(i).Exported() {
						walk(x.Field(i).Type())
					}
				}
			}
		}
		walk(t)
		sort.Strings(hit)
		return uniq(hit)
	}
	njson := 0
	for _, f := range fns {
		for _, h := range f.Graph().Calls(func(id string, call *ast.CallExpr) bool {
			return (id == "encoding/json.Marshal" || id == "encoding/json.MarshalIndent" || id == "encoding/json.(*Encoder).Encode") && len(call.Args) > 0
		}) {
			call := h.N.(*ast.CallExpr)
			hit := jsonReaches(f.Info().TypeOf(call.Args[0]))
			njson++
			key := mkKey(f, "json of "+typeStr(f.Info().TypeOf(call.Args[0])))
			if len(hit) == 0 {
				c.Ok("C11-R1", key, pos(c, call), "reaches no guarded field (types that marshal themselves are analysed as methods)")
				continue
			}
			c.Analysed(f)
			// fields of sub-objects are fine when a lock of the owning type is held around the call
			if set, ok := s.heldAt(f, call); ok {
				rest := hit[:0:0]
				for _, h := range hit {
					covered := false
					for _, g := range c11Guards {
						if g.Typ+"."+g.Field == h && g.AnyOwner != "" && s.anyHeld(f, set, g.AnyOwner, "R") {
							covered = true
						}
					}
					if !covered {
						rest = append(rest, h)
					}
				}
				if len(rest) == 0 {
					c.Ok("C11-R1", key, pos(c, call), "reaches "+strings.Join(hit, ", ")+" with the owner's lock held ("+core.SetString(set)+")")
					continue
				}
				hit = rest
			}
			c.Fail("C11-R1", key, pos(c, call), "encoding/json reads "+strings.Join(hit, ", ")+" of every metric reachable from this value by reflection, without any metric lock: races with a VM appending or removing a label value and with ExpireDatum (the slice header or Expiry can be read torn, or the walk can index past a shrunk slice)")
		}
	}
	c.Extra["json_calls_analysed"] = njson

	// R3 spawn sites of the label-set emitter, found before the propagation so that a
	// spawner that relies on ITS caller's lock hands the requirement on (checked at each call site under R1).
	// Two shapes: `go m.EmitLabelSets(ch)` and `go func() { … m.EmitLabelSets(ch) … }()` with m captured.
	type c11Spawn struct {
		f    *core.Func    // the spawner
		at   *ast.GoStmt   // the go statement, in f
		call *ast.CallExpr // the EmitLabelSets call
		recv ast.Expr      // its receiver
		lit  *core.Func    // the goroutine literal, nil for the direct form
		und  string        // why the site cannot be decided
	}
	var spawns []c11Spawn
	spawnCall := map[*ast.CallExpr]bool{}
	for _, f := range fns {
		core.InspectNoLit(f.Body, func(n ast.Node) bool {
			if lit, ok := n.(*ast.FuncLit); ok && lit != f.Lit {
				return false
			}
			gs, ok := n.(*ast.GoStmt)
			if !ok {
				return true
			}
			if f.CalleeID(gs.Call) == mEmit {
				spawns = append(spawns, c11Spawn{f: f, at: gs, call: gs.Call, recv: core.RecvExpr(gs.Call)})
				spawnCall[gs.Call] = true
				return true
			}
			lit, ok := core.Unparen(gs.Call.Fun).(*ast.FuncLit)
			if !ok {
				return true
			}
			lf := c.Prog.FuncOf[lit]
			if lf == nil {
				return true
			}
			ast.Inspect(lit.Body, func(m ast.Node) bool {
				call, ok := m.(*ast.CallExpr)
				if !ok || lf.CalleeID(call) != mEmit {
					return true
				}
				if _, nested := s.parentMap(lf)[call].(*ast.GoStmt); nested {
					return true // a go statement of its own inside the literal: found when that literal is visited
				}
				sp := c11Spawn{f: f, at: gs, call: call, recv: core.RecvExpr(call), lit: lf}
				o := identObj(lf.Info(), sp.recv)
				switch {
				case c.Prog.FuncOf[lit] != nil && enclosingLit(s, lf, call) != lit:
					sp.und = "the emitter is called from a function literal nested inside the goroutine literal"
				case o == nil:
					sp.und = "the receiver of EmitLabelSets inside the goroutine literal is not a plain variable"
				case lit.Pos() <= o.Pos() && o.Pos() < lit.End():
					sp.und = "the metric is a variable of the goroutine literal itself, not one captured from the spawner"
				}
				spawns = append(spawns, sp)
				spawnCall[call] = true
				return true
			})
			return true
		})
	}
	type c11SpawnVerdict struct {
		sp      c11Spawn
		ok, und bool
		detail  string
	}
	var spawnVerdicts []c11SpawnVerdict
	for _, sp := range spawns {
		v := c11SpawnVerdict{sp: sp}
		switch {
		case sp.und != "":
			v.und, v.detail = true, sp.und
		case sp.recv == nil:
			v.und, v.detail = true, "no receiver"
		default:
			set, located := s.heldAt(sp.f, sp.at)
			if !located {
				v.und, v.detail = true, "go statement not located in the control-flow graph"
				break
			}
			if core.Holds(set, core.PathOf(sp.recv), "R") {
				v.ok, v.detail = true, "spawned under the metric's read lock"
				break
			}
			// a declared helper that starts the emitter for a metric it is handed: its callers hold the lock
			if owner, idx, isParam := ownerOf(sp.f, identObj(sp.f.Info(), sp.recv)); isParam && owner == sp.f && sp.f.Lit == nil {
				addReq(sp.f, c11Req{param: idx, mode: "R", why: "start of the label-set emitter (go EmitLabelSets, which reads Metric.LabelValues)", pos: pos(c, sp.at)})
				v.ok, v.detail = true, "the spawner holds no lock itself; the read lock of "+c11ParamName(sp.f, idx)+" is required of every caller (one C11-R1 obligation per call site)"
			}
		}
		spawnVerdicts = append(spawnVerdicts, v)
	}

	// propagate requirements to call sites
	type site struct {
		f    *core.Func
		call *ast.CallExpr
		inGo bool
	}
	callSites := map[*core.Func][]site{}
	escapes := map[*core.Func][]ast.Node{}
	for _, f := range fns {
		pm := s.parentMap(f)
		core.InspectNoLit(f.Body, func(n ast.Node) bool {
			if lit, ok := n.(*ast.FuncLit); ok && lit != f.Lit {
				return false
			}
			switch x := n.(type) {
			case *ast.CallExpr:
				if cf := f.CalleeFunc(x); cf != nil {
					_, inGo := pm[x].(*ast.GoStmt)
					callSites[cf] = append(callSites[cf], site{f, x, inGo})
				}
			case *ast.Ident, *ast.SelectorExpr:
				var id *ast.Ident
				switch y := x.(type) {
				case *ast.Ident:
					id = y
				case *ast.SelectorExpr:
					id = y.Sel
				}
				if fo, ok := f.Info().Uses[id].(*types.Func); ok {
					if cf := c.Prog.ByObj[fo.Origin()]; cf != nil {
						// not in call position?
						var top ast.Node = x.(ast.Node)
						if se, ok := pm[top].(*ast.SelectorExpr); ok && se.Sel == id {
							top = se
						}
						if ce, ok := pm[top].(*ast.CallExpr); !ok || ce.Fun != top {
							escapes[cf] = append(escapes[cf], top)
						}
					}
				}
			}
			return true
		})
	}
	// dynamic call sites by signature, for functions that escape as values
	dynSites := func(target *core.Func) []site {
		var out []site
		if target.Obj == nil {
			return nil
		}
		sig := target.Obj.Type().(*types.Signature)
		plain := types.NewSignatureType(nil, nil, nil, sig.Params(), sig.Results(), sig.Variadic())
		for _, f := range fns {
			core.InspectNoLit(f.Body, func(n ast.Node) bool {
				if lit, ok := n.(*ast.FuncLit); ok && lit != f.Lit {
					return false
				}
				call, ok := n.(*ast.CallExpr)
				if !ok || f.CalleeFunc(call) != nil {
					return true
				}
				ft := f.Info().TypeOf(call.Fun)
				if ft == nil {
					return true
				}
				if fs, ok := ft.Underlying().(*types.Signature); ok && fs.Recv() == nil && types.Identical(fs, plain) {
					if _, isConv := f.Info().Types[call.Fun]; isConv && f.Info().Types[call.Fun].IsType() {
						return true
					}
					out = append(out, site{f, call, false})
				}
				return true
			})
		}
		return out
	}
	nreq := 0
	done := map[string]bool{}
	for changed := true; changed; {
		changed = false
		var keys []string
		byKey := map[string]*core.Func{}
		for f := range reqs {
			keys = append(keys, f.Key)
			byKey[f.Key] = f
		}
		sort.Strings(keys)
		for _, fk := range keys {
			f := byKey[fk]
			for _, rk := range sortedKeys(reqs[f]) {
				r := reqs[f][rk]
				if done[fk+"|"+rk] {
					continue
				}
				done[fk+"|"+rk] = true
				nreq++
				sites := callSites[f]
				// what: for messages (uses the identifier); whatKey: for obligation keys (position only)
				what := "some " + r.any + " lock"
				whatKey := what
				if r.any == "" {
					what = c11ParamName(f, r.param)
					whatKey = c11ParamSlot(r.param)
					if r.suffix != "" {
						what += "." + r.suffix
						whatKey += "." + r.suffix
					}
				}
				if len(escapes[f]) > 0 {
					ds := dynSites(f)
					if len(ds) == 0 {
						// handed to library code (an HTTP mux, a callback registry): it is called with no mtail lock held
						c.Fail("C11-R1", f.Key+"|entry point requires "+whatKey+" "+r.mode, r.pos, fmt.Sprintf("%s without %s held: the function is registered as a callback (at %s) and is entered with no lock held, so the access races with the writers that take the lock", r.why, what, pos(c, escapes[f][0])))
						continue
					}
					sites = append(sites, ds...)
				}
				if len(sites) == 0 {
					unexported := r.suffix != "" && !ast.IsExported(r.suffix)
					if unexported || r.any != "" && f.Obj != nil && !f.Obj.Exported() {
						// nobody outside the package can take an unexported mutex, and nobody inside calls this function with it:
						// it is reached through an interface or from other packages with the lock not held
						c.Fail("C11-R1", f.Key+"|requires "+whatKey+" "+r.mode, r.pos, fmt.Sprintf("%s without %s held, in a function no caller of which can hold that lock (it is only reached through an interface or from other packages): unsynchronised with the accesses that take the lock", r.why, what))
						continue
					}
					c.Note("C11-R1", f.Key+"|requires "+whatKey+" "+r.mode, r.pos, "no call site in shipped code: exported API that needs the caller to hold the lock ("+r.why+")")
					continue
				}
				for _, st := range sites {
					key := mkKey(st.f, fmt.Sprintf("call of %s needing %s %s", f.Key, whatKey, r.mode))
					set, ok := s.heldAt(st.f, st.call)
					if !ok {
						c.Undecided("C11-R1", key, pos(c, st.call), "call not located in the control-flow graph")
						continue
					}
					if spawnCall[st.call] {
						// delegated lock: decided by R3 at the go statement
						continue
					}
					if st.inGo {
						c.Undecided("C11-R1", key, pos(c, st.call), fmt.Sprintf("%s is started as a goroutine but relies on its caller to hold %s (%s): a lock held by the spawner is not held by the goroutine unless the spawner waits for it, which this rule does not decide", f.Key, what, r.why))
						continue
					}
					if r.any != "" {
						if s.anyHeld(st.f, set, r.any, r.mode) {
							c.Ok("C11-R1", key, pos(c, st.call), "caller holds a "+r.any+" lock")
							continue
						}
						if st.f.Lit == nil {
							if addReq(st.f, c11Req{param: -2, mode: r.mode, any: r.any, why: r.why + " via " + f.Key, pos: pos(c, st.call)}) {
								changed = true
							}
							continue
						}
						c.Fail("C11-R1", key, pos(c, st.call), fmt.Sprintf("calls %s, which performs a %s, without the owning %s's lock", f.Key, r.why, r.any))
						continue
					}
					var arg ast.Expr
					if r.param == -1 {
						arg = core.RecvExpr(st.call)
					} else if r.param < len(st.call.Args) {
						arg = st.call.Args[r.param]
					}
					if arg == nil {
						c.Undecided("C11-R1", key, pos(c, st.call), "argument carrying the locked object not found")
						continue
					}
					lp := core.PathOf(arg)
					if r.suffix != "" {
						lp += "." + r.suffix
					}
					if core.Holds(set, lp, r.mode) {
						c.Ok("C11-R1", key, pos(c, st.call), "caller holds "+lp)
						continue
					}
					ao := identObj(st.f.Info(), arg)
					if ao != nil && c11FreshLocal(st.f, ao) {
						c.Ok("C11-R1", key, pos(c, st.call), "object created by the caller and not yet published")
						continue
					}
					if owner, idx, isParam := ownerOf(st.f, ao); isParam {
						if why, ok := c11Fresh[owner.Key+"|"+c11ParamSlot(idx)]; ok {
							c.Note("C11-R1", key, pos(c, st.call), "reasoned exception (unpublished object): "+why)
							continue
						}
						if owner == st.f && st.f.Lit == nil {
							if addReq(st.f, c11Req{param: idx, suffix: r.suffix, mode: r.mode, why: r.why + " via " + f.Key, pos: pos(c, st.call)}) {
								changed = true
							}
							c.Ok("C11-R1", key, pos(c, st.call), "delegated further to the callers of "+st.f.Key)
							continue
						}
					}
					c.Fail("C11-R1", key, pos(c, st.call), fmt.Sprintf("calls %s, which performs a %s (at %s) relying on its caller to hold %s, but %s is not held here (held: %s): the access races with the writers that take the lock", f.Key, r.why, r.pos, lp, lp, core.SetString(set)))
				}
			}
		}
	}
	c.Extra["guarded_accesses"] = nacc
	c.Extra["lock_requirements_propagated"] = nreq
	c.Floor("C11-R1", 60)

	c.Rule("C11-R2", "ATOMIC-ONLY: a struct field whose address is passed to a sync/atomic function anywhere in the module is accessed only as such an operand (composite-literal initialisation of a fresh object excepted)")
	{
		atomicFields := map[*types.Var]string{}
		for _, f := range fns {
			info := f.Info()
			core.InspectNoLit(f.Body, func(n ast.Node) bool {
				if lit, ok := n.(*ast.FuncLit); ok && lit != f.Lit {
					return false
				}
				if sel, ok := n.(*ast.SelectorExpr); ok {
					if sl := info.Selections[sel]; sl != nil && sl.Kind() == types.FieldVal && s.inAtomicCall(f, sel) {
						fv := sl.Obj().(*types.Var)
						atomicFields[fv] = fv.Name()
					}
				}
				return true
			})
		}
		var names []string
		n2 := 0
		for _, f := range fns {
			info := f.Info()
			core.InspectNoLit(f.Body, func(n ast.Node) bool {
				if lit, ok := n.(*ast.FuncLit); ok && lit != f.Lit {
					return false
				}
				sel, ok := n.(*ast.SelectorExpr)
				if !ok {
					return true
				}
				sl := info.Selections[sel]
				if sl == nil || sl.Kind() != types.FieldVal {
					return true
				}
				fv := sl.Obj().(*types.Var)
				if _, isA := atomicFields[fv]; !isA {
					return true
				}
				n2++
				key := mkKey(f, "access to atomic field "+fv.Name())
				if s.inAtomicCall(f, sel) {
					c.Ok("C11-R2", key, pos(c, sel), "through sync/atomic")
				} else {
					kind := "read"
					if s.isWrite(f, sel) {
						kind = "write"
					}
					c.Fail("C11-R2", key, pos(c, sel), fmt.Sprintf("plain %s of %s, which other code updates with sync/atomic: a concurrent atomic add can be lost (write) or a torn/stale value exported (read)", kind, fv.Name()))
				}
				return true
			})
		}
		for _, n := range atomicFields {
			names = append(names, n)
		}
		sort.Strings(names)
		c.Extra["atomic_fields"] = names
		if len(atomicFields) < 3 {
			c.Undecided("C11-R2", "fields", "-", fmt.Sprintf("only %d atomic fields found (Int.Value, Float.Valuebits, BaseDatum.Time expected)", len(atomicFields)))
		}
		c.Floor("C11-R2", 12)
		_ = n2
	}

	c.Rule("C11-R6", "ATOMIC-RMW: a value obtained by an atomic load of a field of some object (directly or through a getter of that object) never flows, inside one function, into an atomic store of the same field of the same object (directly or through a setter): the pair is a check-then-act, two concurrent updaters lose one update although every single access is atomic")
	{
		type fld = *types.Var
		type src struct {
			fv   fld
			path string // access path of the object whose field is loaded / stored
		}
		// resolveAlias maps the implicit variable of a type-switch clause to the switched identifier
		aliasOf := func(f *core.Func) map[types.Object]types.Object {
			m := map[types.Object]types.Object{}
			ast.Inspect(f.Body, func(n ast.Node) bool {
				ts, ok := n.(*ast.TypeSwitchStmt)
				if !ok {
					return true
				}
				var tag ast.Expr
				switch a := ts.Assign.(type) {
				case *ast.AssignStmt:
					if ta, ok := a.Rhs[0].(*ast.TypeAssertExpr); ok {
						tag = ta.X
					}
				case *ast.ExprStmt:
					if ta, ok := a.X.(*ast.TypeAssertExpr); ok {
						tag = ta.X
					}
				}
				to := identObj(f.Info(), tag)
				if to == nil {
					return true
				}
				for _, cl := range ts.Body.List {
					if o := f.Info().Implicits[cl]; o != nil {
						m[o] = to
					}
				}
				return true
			})
			return m
		}
		objParam := func(f *core.Func, al map[types.Object]types.Object, e ast.Expr) (int, bool) {
			o := identObj(f.Info(), e)
			for o != nil {
				if idx, ok := c11ParamIndex(f, o); ok {
					return idx, true
				}
				o = al[o]
			}
			return 0, false
		}
		atomicObj := func(f *core.Func, call *ast.CallExpr) (fld, ast.Expr) {
			if len(call.Args) == 0 {
				return nil, nil
			}
			u, ok := core.Unparen(call.Args[0]).(*ast.UnaryExpr)
			if !ok || u.Op != token.AND {
				return nil, nil
			}
			sel, ok := core.Unparen(u.X).(*ast.SelectorExpr)
			if !ok {
				return nil, nil
			}
			if sl := f.Info().Selections[sel]; sl != nil && sl.Kind() == types.FieldVal {
				return sl.Obj().(*types.Var), sel.X
			}
			return nil, nil
		}
		argOf := func(call *ast.CallExpr, idx int) ast.Expr {
			if idx == -1 {
				return core.RecvExpr(call)
			}
			if idx < len(call.Args) {
				return call.Args[idx]
			}
			return nil
		}
		loaders := map[*core.Func]map[fld]map[int]bool{} // function returns the loaded field of parameter idx
		storers := map[*core.Func]map[fld]map[int]bool{} // function stores (a value derived from its other parameters) into the field of parameter idx
		set3 := func(m map[*core.Func]map[fld]map[int]bool, f *core.Func, fv fld, idx int) bool {
			if m[f] == nil {
				m[f] = map[fld]map[int]bool{}
			}
			if m[f][fv] == nil {
				m[f][fv] = map[int]bool{}
			}
			if m[f][fv][idx] {
				return false
			}
			m[f][fv][idx] = true
			return true
		}
		// loadsIn lists (field, object path) pairs whose atomically loaded value e yields
		loadsIn := func(f *core.Func, e ast.Node) []src {
			var out []src
			ast.Inspect(e, func(n ast.Node) bool {
				call, ok := n.(*ast.CallExpr)
				if !ok {
					return true
				}
				if strings.HasPrefix(f.CalleeID(call), "sync/atomic.Load") {
					if fv, obj := atomicObj(f, call); fv != nil {
						out = append(out, src{fv, core.PathOf(obj)})
					}
				}
				if cf := f.CalleeFunc(call); cf != nil {
					for fv, idxs := range loaders[cf] {
						for idx := range idxs {
							if a := argOf(call, idx); a != nil {
								out = append(out, src{fv, core.PathOf(a)})
							}
						}
					}
				}
				return true
			})
			return out
		}
		var decls []*core.Func
		for _, f := range fns {
			if f.Lit == nil {
				decls = append(decls, f)
			}
		}
		for changed := true; changed; {
			changed = false
			for _, f := range decls {
				al := aliasOf(f)
				pathParam := func(path string) (int, bool) {
					// the access path is a plain identifier naming (an alias of) a parameter
					var hit types.Object
					ast.Inspect(f.Body, func(n ast.Node) bool {
						if id, ok := n.(*ast.Ident); ok && id.Name == path && hit == nil {
							if o := f.Info().Uses[id]; o != nil {
								hit = o
							}
						}
						return hit == nil
					})
					for o := hit; o != nil; o = al[o] {
						if idx, ok := c11ParamIndex(f, o); ok {
							return idx, true
						}
					}
					return 0, false
				}
				core.InspectNoLit(f.Body, func(n ast.Node) bool {
					switch x := n.(type) {
					case *ast.ReturnStmt:
						for _, r := range x.Results {
							for _, sc := range loadsIn(f, r) {
								if idx, ok := pathParam(sc.path); ok && set3(loaders, f, sc.fv, idx) {
									changed = true
								}
							}
						}
					case *ast.CallExpr:
						if strings.HasPrefix(f.CalleeID(x), "sync/atomic.Store") && len(x.Args) == 2 {
							if fv, obj := atomicObj(f, x); fv != nil {
								if idx, ok := objParam(f, al, obj); ok && set3(storers, f, fv, idx) {
									changed = true
								}
							}
						}
						if cf := f.CalleeFunc(x); cf != nil {
							for fv, idxs := range storers[cf] {
								for idx := range idxs {
									if a := argOf(x, idx); a != nil {
										if pidx, ok := objParam(f, al, a); ok && set3(storers, f, fv, pidx) {
											changed = true
										}
									}
								}
							}
						}
					}
					return true
				})
			}
		}
		var sum []string
		for f, m := range loaders {
			for fv := range m {
				sum = append(sum, "loader "+f.Key+" of "+fv.Name())
			}
		}
		for f, m := range storers {
			for fv := range m {
				sum = append(sum, "storer "+f.Key+" of "+fv.Name())
			}
		}
		sort.Strings(sum)
		c.Extra["atomic_getters_setters"] = sum
		n6 := 0
		for _, f := range fns {
			info := f.Info()
			taint := map[types.Object]map[src]bool{}
			valueLoads := func(e ast.Expr) map[src]bool {
				out := map[src]bool{}
				for _, sc := range loadsIn(f, e) {
					out[sc] = true
				}
				ast.Inspect(e, func(n ast.Node) bool {
					if id, ok := n.(*ast.Ident); ok {
						for sc := range taint[info.Uses[id]] {
							out[sc] = true
						}
					}
					return true
				})
				return out
			}
			for changed := true; changed; {
				changed = false
				core.InspectNoLit(f.Body, func(n ast.Node) bool {
					as, ok := n.(*ast.AssignStmt)
					if !ok {
						return true
					}
					for i, l := range as.Lhs {
						var r ast.Expr
						if len(as.Rhs) == len(as.Lhs) {
							r = as.Rhs[i]
						} else if len(as.Rhs) == 1 {
							r = as.Rhs[0]
						}
						o := identObj(info, l)
						if o == nil || r == nil {
							continue
						}
						for sc := range valueLoads(r) {
							if taint[o] == nil {
								taint[o] = map[src]bool{}
							}
							if !taint[o][sc] {
								taint[o][sc] = true
								changed = true
							}
						}
					}
					return true
				})
			}
			core.InspectNoLit(f.Body, func(n ast.Node) bool {
				call, ok := n.(*ast.CallExpr)
				if !ok {
					return true
				}
				var sinks []src
				var vals []ast.Expr
				if strings.HasPrefix(f.CalleeID(call), "sync/atomic.Store") && len(call.Args) == 2 {
					if fv, obj := atomicObj(f, call); fv != nil {
						sinks = append(sinks, src{fv, core.PathOf(obj)})
						vals = call.Args[1:]
					}
				} else if cf := f.CalleeFunc(call); cf != nil && len(storers[cf]) > 0 {
					for fv, idxs := range storers[cf] {
						for idx := range idxs {
							if a := argOf(call, idx); a != nil {
								sinks = append(sinks, src{fv, core.PathOf(a)})
							}
						}
					}
					vals = call.Args
				}
				if len(sinks) == 0 {
					return true
				}
				n6++
				key := mkKey(f, "atomic store")
				var bad []string
				for _, v := range vals {
					loaded := valueLoads(v)
					for _, sk := range sinks {
						if loaded[sk] {
							bad = append(bad, sk.path+"."+sk.fv.Name())
						}
					}
				}
				if len(bad) > 0 {
					c.Analysed(f)
					c.Fail("C11-R6", key, pos(c, call), "the value stored into "+strings.Join(uniq(bad), ", ")+" was computed from an earlier atomic load of the same field of the same object in this function: load and store are separate atomic operations, so two goroutines updating the same datum (the old and the new version of a program during a reload) both read v and both write v+delta — one increment is lost, and the race detector stays silent")
				} else {
					c.Ok("C11-R6", key, pos(c, call), "stored value does not derive from a load of the same field of the same object")
				}
				return true
			})
		}
		c.Floor("C11-R6", 5)
	}

	c.Rule("C11-R3", "DELEGATED-LOCK: every start of the label-set emitter as a goroutine — `go m.EmitLabelSets(ch)`, or a goroutine literal that calls it on a captured m — is executed with m's read lock held by the spawner, or by every caller of a declared spawner that is handed m (EmitLabelSets reads m.LabelValues and takes no lock itself)")
	{
		for _, v := range spawnVerdicts {
			key := mkKey(v.sp.f, "go EmitLabelSets")
			c.Analysed(v.sp.f)
			switch {
			case v.und:
				c.Undecided("C11-R3", key, pos(c, v.sp.at), v.detail)
			case v.ok:
				c.Ok("C11-R3", key, pos(c, v.sp.at), v.detail)
			default:
				c.Fail("C11-R3", key, pos(c, v.sp.at), "the label-set emitter is started without the metric's read lock held: it iterates m.LabelValues concurrently with a VM appending or removing label values")
			}
		}
		c.Floor("C11-R3", 4)
	}

	c.Rule("C11-R4", "LOCK-ORDER: the relation `lock B is acquired (here or in a callee) while lock A is certainly held` over lock classes (owner type + mutex field) has no cycle; acquiring a class while holding the same class is reported unless the two objects are provably different roles")
	{
		// acquires[f] = lock classes f may acquire, transitively
		acq := map[*core.Func]map[string]string{} // class -> where
		for _, f := range fns {
			for _, ev := range f.Graph().LockEvents() {
				if !ev.Acquire {
					continue
				}
				r := core.RecvExpr(ev.Call)
				if r == nil {
					continue
				}
				root := f
				for root.Parent != nil && !isGoLit[root] {
					root = root.Parent
				}
				if acq[root] == nil {
					acq[root] = map[string]string{}
				}
				cl := c11LockOwner(f, r)
				if _, ok := acq[root][cl]; !ok {
					acq[root][cl] = pos(c, ev.Call)
				}
			}
		}
		for changed := true; changed; {
			changed = false
			for _, f := range fns {
				if f.Lit != nil {
					continue
				}
				for _, cf := range f.Callees() {
					for cl, where := range acq[cf] {
						if acq[f] == nil {
							acq[f] = map[string]string{}
						}
						if _, ok := acq[f][cl]; !ok {
							acq[f][cl] = where
							changed = true
						}
					}
				}
			}
		}
		type edge struct{ from, to, where string }
		edges := map[string]edge{}
		for _, f := range fns {
			g := f.Graph()
			own := map[string]string{}
			for _, ev := range g.LockEvents() {
				if r := core.RecvExpr(ev.Call); r != nil {
					own[ev.Path] = c11LockOwner(f, r)
				}
			}
			heldClasses := func(n ast.Node) []string {
				set, ok := s.heldAt(f, n)
				if !ok {
					return nil
				}
				var out []string
				for k := range set {
					out = append(out, own[k[:strings.LastIndex(k, ":")]])
				}
				return out
			}
			for _, ev := range g.LockEvents() {
				if !ev.Acquire {
					continue
				}
				r := core.RecvExpr(ev.Call)
				if r == nil {
					continue
				}
				to := c11LockOwner(f, r)
				for _, from := range heldClasses(ev.Call) {
					k := from + " -> " + to
					if _, ok := edges[k]; !ok {
						edges[k] = edge{from, to, pos(c, ev.Call) + " in " + f.Key}
					}
				}
			}
			core.InspectNoLit(f.Body, func(n ast.Node) bool {
				if lit, ok := n.(*ast.FuncLit); ok && lit != f.Lit {
					return false
				}
				call, ok := n.(*ast.CallExpr)
				if !ok {
					return true
				}
				cf := f.CalleeFunc(call)
				if cf == nil || len(acq[cf]) == 0 {
					return true
				}
				if _, inGo := s.parentMap(f)[call].(*ast.GoStmt); inGo {
					return true
				}
				for _, from := range heldClasses(call) {
					for to := range acq[cf] {
						k := from + " -> " + to
						if _, ok := edges[k]; !ok {
							edges[k] = edge{from, to, pos(c, call) + " in " + f.Key + " (inside " + cf.Key + ")"}
						}
					}
				}
				return true
			})
		}
		var ek []string
		for k := range edges {
			ek = append(ek, k)
		}
		sort.Strings(ek)
		c.Extra["lock_order_edges"] = ek
		adj := map[string][]string{}
		for _, k := range ek {
			e := edges[k]
			if e.from != e.to {
				adj[e.from] = append(adj[e.from], e.to)
			}
		}
		// cycle detection
		var cyc []string
		state := map[string]int{}
		var stack []string
		var dfs func(n string) bool
		dfs = func(n string) bool {
			state[n] = 1
			stack = append(stack, n)
			for _, m := range adj[n] {
				if state[m] == 1 {
					i := 0
					for j, x := range stack {
						if x == m {
							i = j
						}
					}
					cyc = append(append([]string{}, stack[i:]...), m)
					return true
				}
				if state[m] == 0 && dfs(m) {
					return true
				}
			}
			stack = stack[:len(stack)-1]
			state[n] = 2
			return false
		}
		var nodes []string
		for n := range adj {
			nodes = append(nodes, n)
		}
		sort.Strings(nodes)
		for _, n := range nodes {
			if state[n] == 0 && dfs(n) {
				break
			}
		}
		if cyc != nil {
			var wit []string
			for i := 0; i+1 < len(cyc); i++ {
				wit = append(wit, cyc[i]+" -> "+cyc[i+1]+" at "+edges[cyc[i]+" -> "+cyc[i+1]].where)
			}
			c.Fail("C11-R4", "cycle "+strings.Join(cyc, " -> "), "-", "two goroutines taking these locks in opposite orders deadlock; export, reload and processing stall", wit...)
		} else {
			c.Ok("C11-R4", "acyclic", "-", fmt.Sprintf("%d ordered pairs of lock classes, no cycle", len(ek)))
		}
		for _, k := range ek {
			e := edges[k]
			if e.from == e.to {
				c.Note("C11-R4", "same class "+e.from, e.where, "a lock of class "+e.from+" is acquired while another of the same class is held (different objects: old and new version of a metric in Store.Add)")
			}
		}
		c.Floor("C11-R4", 1)
	}

	c.Rule("C11-R5", "TABLE-COMPLETE: every mutex-typed struct field (or embedded mutex) and package-level mutex in shipped packages is the guard of some line of the guarded-by table; and the fields of Metric that are not in the table are written only in constructor-phase functions")
	{
		known := map[string]bool{}
		for _, g := range c11Guards {
			if g.Global {
				known[g.Pkg+"."+g.Lock] = true
			} else if g.AnyOwner == "" {
				known[g.Pkg+"."+g.Typ+"."+g.Lock] = true
			}
		}
		// the store's insert lock serialises writers only; it guards no field by itself
		known["internal/metrics.Store.insertMu"] = true
		n5 := 0
		for _, pkg := range c.Prog.All {
			rel := core.Rel(pkg.PkgPath)
			if rel == "internal/testutil" || rel == "internal/mtail/golden" {
				continue
			}
			scope := pkg.Types.Scope()
			for _, name := range scope.Names() {
				obj := scope.Lookup(name)
				isMu := func(t types.Type) bool {
					s := t.String()
					return s == "sync.Mutex" || s == "sync.RWMutex"
				}
				filePos := c.Prog.Fset.Position(obj.Pos()).Filename
				if strings.HasSuffix(filePos, "/testing.go") || strings.HasSuffix(filePos, "/testwaker.go") {
					continue
				}
				switch o := obj.(type) {
				case *types.Var:
					if isMu(o.Type()) {
						n5++
						c.Verdict(known[rel+"."+o.Name()], "C11-R5", "mutex "+rel+"."+o.Name(), c.Prog.Position(o.Pos()), "in the table", "a mutex the guarded-by table does not know: what it protects has not been checked")
					}
				case *types.TypeName:
					st, ok := o.Type().Underlying().(*types.Struct)
					if !ok {
						continue
					}
					for i := 0; i < st.NumFields(); i++ {
						fl := st.Field(i)
						if !isMu(fl.Type()) {
							continue
						}
						n5++
						lk := fl.Name()
						if fl.Embedded() {
							lk = ""
						}
						k := rel + "." + o.Name() + "." + lk
						if !known[k] {
							c.Undecided("C11-R5", "mutex "+k, c.Prog.Position(fl.Pos()), "a mutex the guarded-by table does not know: what it protects has not been checked")
						} else {
							c.Ok("C11-R5", "mutex "+k, c.Prog.Position(fl.Pos()), "in the table")
						}
					}
				}
			}
		}
		// constructor-phase writers of unguarded Metric fields
		ctor := map[string]string{
			"internal/metrics.NewMetric":                               "constructor",
			"internal/metrics.newMetric":                               "constructor",
			"internal/metrics.(*Metric).SetSource":                     "takes the write lock; called by the code generator before the program runs",
			"internal/runtime/compiler/codegen.(*codegen).VisitBefore": "declares the metric while compiling, before the program runs",
			"internal/runtime.(*Runtime).CompileAndRun":                "clears Source of hidden-position metrics on the freshly compiled object before registration",
		}
		// a function belongs to the constructor phase if the table says so, or if it is an unexported helper that
		// never escapes as a value and every one of whose (statically resolved) call sites lies in constructor-phase code
		var ctorPhase func(f *core.Func, depth int) (string, bool)
		ctorPhase = func(f *core.Func, depth int) (string, bool) {
			if why, ok := ctor[f.Key]; ok {
				return why, true
			}
			if depth > 4 || f.Lit != nil || f.Obj == nil || f.Obj.Exported() || len(escapes[f]) > 0 || len(callSites[f]) == 0 {
				return "", false
			}
			var from []string
			for _, st := range callSites[f] {
				if st.inGo {
					return "", false
				}
				caller := st.f
				for caller.Parent != nil {
					caller = caller.Parent
				}
				if caller == f {
					continue
				}
				if _, ok := ctorPhase(caller, depth+1); !ok {
					return "", false
				}
				from = append(from, caller.Key)
			}
			if len(from) == 0 {
				return "", false
			}
			sort.Strings(from)
			return "unexported helper called only from constructor-phase code (" + strings.Join(uniq(from), ", ") + ")", true
		}
		for _, f := range fns {
			for fld, nodes := range metricFieldWrites(f) {
				if !strings.HasPrefix(fld, "Metric.") || fld == "Metric.LabelValues" || fld == "Metric.labelValuesMap" {
					continue
				}
				n5++
				root := f
				for root.Parent != nil {
					root = root.Parent
				}
				why, ok := ctorPhase(root, 0)
				c.Verdict(ok, "C11-R5", root.Key+"|writes "+fld, pos(c, nodes[0]), "constructor phase: "+why, "an unguarded field of Metric ("+fld+") is written outside the constructor phase: exporters and the store read it without any lock")
			}
		}
		c.Floor("C11-R5", 20)
	}
}
