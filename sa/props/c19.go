package props

import (
	"fmt"
	"go/ast"
	"go/constant"
	"go/token"
	"go/types"
	"sort"
	"strings"

	"golang.org/x/tools/go/cfg"
	"golang.org/x/tools/go/packages"
	"golang.org/x/tools/go/types/typeutil"

	"verif/sa/core"
)

func init() { register("C19", c19) }

const (
	c19TailerNew     = "internal/tailer.New"
	c19TailPath      = "internal/tailer.(*Tailer).TailPath"
	c19PollPattern   = "internal/tailer.(*Tailer).pollLogPattern"
	c19PatternGlob   = "internal/tailer.(*Tailer).doPatternGlob"
	c19RuntimeNew    = "internal/runtime.New"
	c19CompileRun    = "internal/runtime.(*Runtime).CompileAndRun"
	c19VMRun         = "internal/runtime/vm.(*VM).Run"
	c19ProcessLine   = "internal/runtime/vm.(*VM).ProcessLogLine"
	c19ServerRun     = "internal/mtail.(*Server).Run"
	c19ServerNew     = "internal/mtail.New"
	c19InitRuntime   = "internal/mtail.(*Server).initRuntime"
	c19InitTailer    = "internal/mtail.(*Server).initTailer"
	c19LogstreamNew  = "internal/tailer/logstream.New"
	c19NewFileStream = "internal/tailer/logstream.newFileStream"
	c19FsStream      = "internal/tailer/logstream.(*fileStream).stream"
	c19ReadAndSend   = "internal/tailer/logstream.(*LineReader).ReadAndSend"
	c19Finish        = "internal/tailer/logstream.(*LineReader).Finish"
	c19NewLineReader = "internal/tailer/logstream.NewLineReader"

	c19WgAdd  = "sync.(*WaitGroup).Add"
	c19WgDone = "sync.(*WaitGroup).Done"
	c19WgWait = "sync.(*WaitGroup).Wait"
)

// ---------------------------------------------------------------------------
// shared state: channel alias classes, close sites, call sites
// ---------------------------------------------------------------------------

type c19Close struct {
	f    *core.Func // innermost function containing the close (may be nil for package-level initialisers)
	call *ast.CallExpr
	obj  types.Object
	info *types.Info
}

type c19Site struct {
	f    *core.Func
	call *ast.CallExpr
}

type c19State struct {
	c         *core.Check
	parent    map[types.Object]types.Object
	escaped   map[types.Object]string
	fieldName map[types.Object]string
	closes    []c19Close
	ifaceM    map[*types.Func]bool
	sites     map[*core.Func][]c19Site
}

func (s *c19State) find(o types.Object) types.Object {
	if o == nil {
		return nil
	}
	for {
		p, ok := s.parent[o]
		if !ok || p == o {
			return o
		}
		o = p
	}
}

func (s *c19State) union(a, b types.Object) {
	if a == nil || b == nil {
		return
	}
	if _, ok := s.parent[a]; !ok {
		s.parent[a] = a
	}
	if _, ok := s.parent[b]; !ok {
		s.parent[b] = b
	}
	ra, rb := s.find(a), s.find(b)
	if ra != rb {
		s.parent[ra] = rb
	}
}

func (s *c19State) same(a, b types.Object) bool {
	return a != nil && b != nil && s.find(a) == s.find(b)
}

func c19IsChan(t types.Type) bool {
	if t == nil {
		return false
	}
	_, ok := t.Underlying().(*types.Chan)
	return ok
}

// chanObj names the variable, field, parameter or function result a
// channel-typed expression denotes; nil when it is a fresh value (make, nil)
// or something the alias model does not follow.
func (s *c19State) chanObj(info *types.Info, e ast.Expr) types.Object {
	e = core.Unparen(e)
	if !c19IsChan(info.TypeOf(e)) {
		return nil
	}
	switch x := e.(type) {
	case *ast.Ident:
		o := info.Uses[x]
		if o == nil {
			o = info.Defs[x]
		}
		if v, ok := o.(*types.Var); ok {
			return v
		}
	case *ast.SelectorExpr:
		if sel, ok := info.Selections[x]; ok {
			if v, ok := sel.Obj().(*types.Var); ok {
				return v
			}
			return nil
		}
		if v, ok := info.Uses[x.Sel].(*types.Var); ok {
			return v
		}
	case *ast.CallExpr:
		if tv, ok := info.Types[x.Fun]; ok && tv.IsType() && len(x.Args) == 1 {
			return s.chanObj(info, x.Args[0])
		}
		if fn, ok := typeutil.Callee(info, x).(*types.Func); ok {
			sig := fn.Type().(*types.Signature)
			if sig.Recv() != nil {
				if _, isI := sig.Recv().Type().Underlying().(*types.Interface); isI {
					s.ifaceM[fn] = true
				}
			}
			if sig.Results().Len() == 1 {
				return sig.Results().At(0)
			}
		}
	}
	return nil
}

func c19Fresh(info *types.Info, e ast.Expr) bool {
	e = core.Unparen(e)
	if isNilIdent(info, e) {
		return true
	}
	if call, ok := e.(*ast.CallExpr); ok {
		if id, ok := core.Unparen(call.Fun).(*ast.Ident); ok {
			if b, ok := info.Uses[id].(*types.Builtin); ok && b.Name() == "make" {
				return true
			}
		}
	}
	return false
}

// flow records that the channel value of src is stored in dst.
func (s *c19State) flow(info *types.Info, dst types.Object, dstType types.Type, src ast.Expr) {
	if !c19IsChan(info.TypeOf(src)) {
		return
	}
	so := s.chanObj(info, src)
	switch {
	case dst != nil && c19IsChan(dstType):
		if so != nil {
			s.union(dst, so)
		} else if !c19Fresh(info, src) {
			s.escaped[dst] = "is assigned from an expression the alias model does not follow"
		} else if _, ok := s.parent[dst]; !ok {
			s.parent[dst] = dst
		}
	case so != nil:
		s.escaped[so] = "is stored where the alias model does not follow it (interface, map/slice element or unnamed destination)"
	}
}

func c19SupportFile(name string) bool {
	return strings.HasSuffix(name, "/testing.go") || strings.HasSuffix(name, "/testwaker.go")
}

func c19Build(c *core.Check) *c19State {
	s := &c19State{c: c, parent: map[types.Object]types.Object{}, escaped: map[types.Object]string{},
		fieldName: map[types.Object]string{}, ifaceM: map[*types.Func]bool{}, sites: map[*core.Func][]c19Site{}}
	for _, pkg := range c.Prog.All {
		rel := core.Rel(pkg.PkgPath)
		sc := pkg.Types.Scope()
		for _, n := range sc.Names() {
			tn, ok := sc.Lookup(n).(*types.TypeName)
			if !ok {
				continue
			}
			if st, ok := tn.Type().Underlying().(*types.Struct); ok {
				for i := 0; i < st.NumFields(); i++ {
					s.fieldName[st.Field(i)] = rel + "." + tn.Name() + "." + st.Field(i).Name()
				}
			}
		}
	}
	for _, pkg := range c.Prog.All {
		rel := core.Rel(pkg.PkgPath)
		if rel == "internal/testutil" || rel == "internal/mtail/golden" {
			continue
		}
		for _, file := range pkg.Syntax {
			if c19SupportFile(c.Prog.Fset.Position(file.Pos()).Filename) {
				continue
			}
			s.scan(pkg, file, nil, nil)
		}
	}
	// interface methods: results and parameters alias those of every module implementation
	for im := range s.ifaceM {
		isig := im.Type().(*types.Signature)
		iface, _ := isig.Recv().Type().Underlying().(*types.Interface)
		if iface == nil {
			continue
		}
		for _, pkg := range c.Prog.All {
			sc := pkg.Types.Scope()
			for _, n := range sc.Names() {
				tn, ok := sc.Lookup(n).(*types.TypeName)
				if !ok {
					continue
				}
				if _, isI := tn.Type().Underlying().(*types.Interface); isI {
					continue
				}
				for _, typ := range []types.Type{tn.Type(), types.NewPointer(tn.Type())} {
					if !types.Implements(typ, iface) {
						continue
					}
					sel := types.NewMethodSet(typ).Lookup(im.Pkg(), im.Name())
					if sel == nil {
						continue
					}
					m, ok := sel.Obj().(*types.Func)
					if !ok {
						continue
					}
					msig := m.Type().(*types.Signature)
					for i := 0; i < msig.Results().Len() && i < isig.Results().Len(); i++ {
						if c19IsChan(msig.Results().At(i).Type()) {
							s.union(msig.Results().At(i), isig.Results().At(i))
						}
					}
					for i := 0; i < msig.Params().Len() && i < isig.Params().Len(); i++ {
						if c19IsChan(msig.Params().At(i).Type()) {
							s.union(msig.Params().At(i), isig.Params().At(i))
						}
					}
					break
				}
			}
		}
	}
	return s
}

// scan walks root (a file or a function body) recording channel flows and close sites.
func (s *c19State) scan(pkg *packages.Package, root ast.Node, sig *types.Signature, cur *core.Func) {
	info := pkg.TypesInfo
	ast.Inspect(root, func(x ast.Node) bool {
		switch v := x.(type) {
		case *ast.FuncDecl:
			if v.Body != nil {
				fsig, _ := info.Defs[v.Name].Type().(*types.Signature)
				s.scan(pkg, v.Body, fsig, s.c.Prog.FuncOf[v])
			}
			return false
		case *ast.FuncLit:
			lsig, _ := info.TypeOf(v).(*types.Signature)
			lf := s.c.Prog.FuncOf[v]
			if lf == nil {
				lf = cur
			}
			s.scan(pkg, v.Body, lsig, lf)
			return false
		case *ast.ReturnStmt:
			if sig != nil && len(v.Results) == sig.Results().Len() {
				for i, r := range v.Results {
					rv := sig.Results().At(i)
					s.flow(info, rv, rv.Type(), r)
				}
			}
		case *ast.AssignStmt:
			if len(v.Lhs) == len(v.Rhs) {
				for i := range v.Lhs {
					s.flow(info, s.chanObj(info, v.Lhs[i]), info.TypeOf(v.Lhs[i]), v.Rhs[i])
				}
			} else if len(v.Rhs) == 1 {
				if call, ok := core.Unparen(v.Rhs[0]).(*ast.CallExpr); ok {
					if fn, ok := typeutil.Callee(info, call).(*types.Func); ok {
						res := fn.Type().(*types.Signature).Results()
						for i := 0; i < res.Len() && i < len(v.Lhs); i++ {
							if c19IsChan(res.At(i).Type()) {
								if lo := s.chanObj(info, v.Lhs[i]); lo != nil {
									s.union(lo, res.At(i))
								}
							}
						}
					}
				}
			}
		case *ast.ValueSpec:
			if len(v.Names) == len(v.Values) {
				for i, n := range v.Names {
					if o := info.Defs[n]; o != nil {
						s.flow(info, o, o.Type(), v.Values[i])
					}
				}
			}
		case *ast.CompositeLit:
			t := info.TypeOf(v)
			if t == nil {
				break
			}
			if p, ok := t.Underlying().(*types.Pointer); ok {
				t = p.Elem()
			}
			st, ok := t.Underlying().(*types.Struct)
			if !ok {
				for _, e := range v.Elts {
					if kv, ok := e.(*ast.KeyValueExpr); ok {
						e = kv.Value
					}
					s.flow(info, nil, nil, e)
				}
				break
			}
			for i, e := range v.Elts {
				if kv, ok := e.(*ast.KeyValueExpr); ok {
					if k, ok := kv.Key.(*ast.Ident); ok {
						if fo, ok := info.Uses[k].(*types.Var); ok {
							s.flow(info, fo, fo.Type(), kv.Value)
						}
					}
				} else if i < st.NumFields() {
					s.flow(info, st.Field(i), st.Field(i).Type(), e)
				}
			}
		case *ast.SendStmt:
			s.flow(info, nil, nil, v.Value)
		case *ast.CallExpr:
			if tv, ok := info.Types[v.Fun]; ok && tv.IsType() {
				break
			}
			callee := typeutil.Callee(info, v)
			if b, ok := callee.(*types.Builtin); ok {
				switch b.Name() {
				case "close":
					if len(v.Args) == 1 {
						s.closes = append(s.closes, c19Close{f: cur, call: v, obj: s.chanObj(info, v.Args[0]), info: info})
					}
				case "append":
					for _, a := range v.Args {
						s.flow(info, nil, nil, a)
					}
				}
				break
			}
			var fsig *types.Signature
			if fn, ok := callee.(*types.Func); ok {
				fsig, _ = fn.Type().(*types.Signature)
				if fsig != nil && fsig.Recv() != nil {
					if _, isI := fsig.Recv().Type().Underlying().(*types.Interface); isI {
						s.ifaceM[fn] = true
					}
				}
			} else if t := info.TypeOf(v.Fun); t != nil {
				fsig, _ = t.Underlying().(*types.Signature)
			}
			if fsig == nil {
				break
			}
			for i, a := range v.Args {
				if !c19IsChan(info.TypeOf(a)) {
					continue
				}
				if i < fsig.Params().Len() && !(fsig.Variadic() && i >= fsig.Params().Len()-1) {
					p := fsig.Params().At(i)
					s.flow(info, p, p.Type(), a)
				} else {
					s.flow(info, nil, nil, a)
				}
			}
		}
		return true
	})
}

// className renders a channel alias class: its struct fields if any, else its variables.
func (s *c19State) className(o types.Object) string {
	if o == nil {
		return "?"
	}
	root := s.find(o)
	var fields, vars []string
	seen := map[string]bool{}
	for m := range s.parent {
		if s.find(m) != root {
			continue
		}
		if n, ok := s.fieldName[m]; ok {
			if !seen[n] {
				seen[n] = true
				fields = append(fields, n)
			}
		} else if m.Name() != "" && !seen[m.Name()] {
			seen[m.Name()] = true
			vars = append(vars, m.Name())
		}
	}
	sort.Strings(fields)
	sort.Strings(vars)
	if len(fields) > 0 {
		return strings.Join(fields, "=")
	}
	if len(vars) > 0 {
		return "var " + strings.Join(vars, "=")
	}
	return o.Name()
}

func (s *c19State) classEscape(o types.Object) string {
	root := s.find(o)
	for m, why := range s.escaped {
		if s.find(m) == root {
			return m.Name() + " " + why
		}
	}
	return ""
}

// closesOfClass lists the close sites of channels aliased with o.
func (s *c19State) closesOfClass(o types.Object) []c19Close {
	var out []c19Close
	for _, cl := range s.closes {
		if cl.obj != nil && s.same(cl.obj, o) {
			out = append(out, cl)
		}
	}
	return out
}

// sitesOf lists the static call sites (in shipped code) of a declared function.
func (s *c19State) sitesOf(target *core.Func) []c19Site {
	if len(s.sites) == 0 {
		for _, f := range shipped(s.c) {
			f := f
			core.InspectNoLit(f.Body, func(n ast.Node) bool {
				if call, ok := n.(*ast.CallExpr); ok {
					if cf := f.CalleeFunc(call); cf != nil {
						s.sites[cf] = append(s.sites[cf], c19Site{f, call})
					}
				}
				return true
			})
		}
	}
	return s.sites[target]
}

// c19ParamOwner finds the function (f or an enclosing one) that declares obj as a parameter.
func c19ParamOwner(f *core.Func, obj types.Object) (*core.Func, int) {
	for g := f; g != nil; g = g.Parent {
		i := 0
		for _, fl := range g.Type.Params.List {
			if len(fl.Names) == 0 {
				i++
				continue
			}
			for _, n := range fl.Names {
				if g.Info().Defs[n] == obj {
					return g, i
				}
				i++
			}
		}
	}
	return nil, -1
}

// refs resolves an expression naming a long-lived object (a WaitGroup, a
// channel, a context) to type-level names: a struct field becomes
// "pkg.Type.field"; a parameter is replaced by what every call site passes.
func (s *c19State) refs(f *core.Func, e ast.Expr) []string {
	return s.refsN(f, e, 0)
}

func (s *c19State) refsN(f *core.Func, e ast.Expr, depth int) []string {
	info := f.Info()
	for {
		switch x := core.Unparen(e).(type) {
		case *ast.StarExpr:
			e = x.X
			continue
		case *ast.UnaryExpr:
			if x.Op == token.AND {
				e = x.X
				continue
			}
		}
		break
	}
	switch x := core.Unparen(e).(type) {
	case *ast.SelectorExpr:
		if sel, ok := info.Selections[x]; ok {
			if n, ok := s.fieldName[sel.Obj()]; ok {
				return []string{n}
			}
			return []string{"field " + sel.Obj().Name()}
		}
		if o := info.Uses[x.Sel]; o != nil && o.Pkg() != nil {
			return []string{core.Rel(o.Pkg().Path()) + "." + o.Name()}
		}
	case *ast.Ident:
		o := info.Uses[x]
		if o == nil {
			o = info.Defs[x]
		}
		if o == nil {
			return nil
		}
		if owner, idx := c19ParamOwner(f, o); owner != nil {
			if owner.Lit == nil && depth < 6 {
				set := map[string]bool{}
				for _, st := range s.sitesOf(owner) {
					if idx >= len(st.call.Args) {
						continue
					}
					a := st.call.Args[idx]
					if identObj(st.f.Info(), a) == o {
						continue // the function hands its own parameter on to itself
					}
					for _, r := range s.refsN(st.f, a, depth+1) {
						set[r] = true
					}
				}
				if len(set) > 0 {
					return sortedKeys(set)
				}
			}
			return []string{"param " + owner.Key + "." + o.Name()}
		}
		if o.Pkg() != nil && o.Parent() == o.Pkg().Scope() {
			return []string{core.Rel(o.Pkg().Path()) + "." + o.Name()}
		}
		return []string{"local " + f.Decl.Name.Name + "." + o.Name()}
	}
	return nil
}

func (s *c19State) ref1(f *core.Func, e ast.Expr) string {
	return strings.Join(s.refs(f, e), "|")
}

// ---------------------------------------------------------------------------
// scenario evaluation: which branch edges are infeasible when some variables
// have known values (one-shot enabled, read returned io.EOF, ...)
// ---------------------------------------------------------------------------

const (
	c19KBool = iota + 1
	c19KInt
	c19KErrEOF // a non-nil error for which errors.Is(err, io.EOF) holds
	c19KNil
)

type c19V struct {
	kind int
	b    bool
	i    int64
}

type c19Env struct {
	f    *core.Func
	vals map[types.Object]c19V
}

func c19ExprObj(info *types.Info, e ast.Expr) types.Object {
	switch x := core.Unparen(e).(type) {
	case *ast.Ident:
		if o := info.Uses[x]; o != nil {
			return o
		}
		return info.Defs[x]
	case *ast.SelectorExpr:
		if sel, ok := info.Selections[x]; ok {
			return sel.Obj()
		}
		return info.Uses[x.Sel]
	}
	return nil
}

func (e *c19Env) operand(x ast.Expr) (c19V, bool) {
	info := e.f.Info()
	x = core.Unparen(x)
	if isNilIdent(info, x) {
		return c19V{kind: c19KNil}, true
	}
	if tv, ok := info.Types[x]; ok && tv.Value != nil {
		switch tv.Value.Kind() {
		case constant.Bool:
			return c19V{kind: c19KBool, b: constant.BoolVal(tv.Value)}, true
		case constant.Int:
			if i, ok := constant.Int64Val(tv.Value); ok {
				return c19V{kind: c19KInt, i: i}, true
			}
		}
		return c19V{}, false
	}
	if o := c19ExprObj(info, x); o != nil {
		if v, ok := e.vals[o]; ok {
			return v, true
		}
	}
	if b, ok := e.truthNoOperand(x); ok {
		return c19V{kind: c19KBool, b: b}, true
	}
	return c19V{}, false
}

// truth evaluates a boolean expression under the scenario; known is false when it depends on something unknown.
func (e *c19Env) truth(x ast.Expr) (val, known bool) {
	x = core.Unparen(x)
	if v, ok := e.truthNoOperand(x); ok {
		return v, true
	}
	if v, ok := e.operand(x); ok && v.kind == c19KBool {
		return v.b, true
	}
	return false, false
}

func (e *c19Env) truthNoOperand(x ast.Expr) (val, known bool) {
	info := e.f.Info()
	switch v := core.Unparen(x).(type) {
	case *ast.UnaryExpr:
		if v.Op == token.NOT {
			if b, ok := e.truth(v.X); ok {
				return !b, true
			}
		}
	case *ast.BinaryExpr:
		switch v.Op {
		case token.LAND, token.LOR:
			a, ka := e.truth(v.X)
			b, kb := e.truth(v.Y)
			if v.Op == token.LAND {
				if (ka && !a) || (kb && !b) {
					return false, true
				}
				if ka && kb {
					return true, true
				}
			} else {
				if (ka && a) || (kb && b) {
					return true, true
				}
				if ka && kb {
					return false, true
				}
			}
			return false, false
		case token.EQL, token.NEQ, token.LSS, token.GTR, token.LEQ, token.GEQ:
			a, ka := e.operand(v.X)
			b, kb := e.operand(v.Y)
			if !ka || !kb {
				return false, false
			}
			return c19Compare(a, b, v.Op)
		}
	case *ast.CallExpr:
		if e.f.CalleeID(v) == "errors.Is" && len(v.Args) == 2 {
			a, ok := e.operand(v.Args[0])
			if !ok {
				return false, false
			}
			switch a.kind {
			case c19KNil:
				return false, true
			case c19KErrEOF:
				t := c19ExprObj(info, v.Args[1])
				if t == nil || t.Pkg() == nil {
					return false, false
				}
				if t.Pkg().Path() == "io" && t.Name() == "EOF" {
					return true, true
				}
				if t.Parent() == t.Pkg().Scope() {
					return false, true // another sentinel error
				}
			}
		}
	}
	return false, false
}

func c19Compare(a, b c19V, op token.Token) (bool, bool) {
	eq := func(v bool) (bool, bool) {
		switch op {
		case token.EQL:
			return v, true
		case token.NEQ:
			return !v, true
		}
		return false, false
	}
	switch {
	case a.kind == c19KBool && b.kind == c19KBool:
		return eq(a.b == b.b)
	case a.kind == c19KInt && b.kind == c19KInt:
		switch op {
		case token.EQL:
			return a.i == b.i, true
		case token.NEQ:
			return a.i != b.i, true
		case token.LSS:
			return a.i < b.i, true
		case token.GTR:
			return a.i > b.i, true
		case token.LEQ:
			return a.i <= b.i, true
		case token.GEQ:
			return a.i >= b.i, true
		}
	case a.kind == c19KNil && b.kind == c19KNil:
		return eq(true)
	case (a.kind == c19KErrEOF && b.kind == c19KNil) || (a.kind == c19KNil && b.kind == c19KErrEOF):
		return eq(false)
	}
	return false, false
}

// infeasible computes the branch edges that cannot be taken under the scenario.
func (e *c19Env) infeasible(g *core.Graph) func(b *cfg.Block, si int) bool {
	bad := map[*cfg.Block]int{}
	// tags of tagged switches
	tagOf := map[*ast.CaseClause]ast.Expr{}
	ast.Inspect(e.f.Body, func(n ast.Node) bool {
		if sw, ok := n.(*ast.SwitchStmt); ok && sw.Tag != nil {
			for _, cc := range sw.Body.List {
				tagOf[cc.(*ast.CaseClause)] = sw.Tag
			}
		}
		return true
	})
	for _, b := range g.C.Blocks {
		if !b.Live || len(b.Succs) != 2 || len(b.Nodes) == 0 {
			continue
		}
		cond, ok := b.Nodes[len(b.Nodes)-1].(ast.Expr)
		if !ok {
			continue
		}
		var val, known bool
		if b.Succs[0].Kind == cfg.KindSwitchCaseBody && b.Succs[1].Kind == cfg.KindSwitchNextCase {
			cc, _ := b.Succs[1].Stmt.(*ast.CaseClause)
			if tag := tagOf[cc]; tag != nil {
				x, kx := e.operand(tag)
				y, ky := e.operand(cond)
				if kx && ky {
					val, known = c19Compare(x, y, token.EQL)
				}
			} else if cc != nil {
				val, known = e.truth(cond)
			}
		} else {
			val, known = e.truth(cond)
		}
		if known {
			if val {
				bad[b] = 1
			} else {
				bad[b] = 0
			}
		}
	}
	return func(b *cfg.Block, si int) bool {
		k, ok := bad[b]
		return ok && k == si
	}
}

// ---------------------------------------------------------------------------
// blocking operations of one function body
// ---------------------------------------------------------------------------

type c19Blk struct {
	P    core.Point
	What string // "select", "recv", "wait", "send", "range"
	Ref  string
	N    ast.Node
}

func (s *c19State) chanRef(f *core.Func, e ast.Expr) string {
	if call, ok := core.Unparen(e).(*ast.CallExpr); ok {
		id := f.CalleeID(call)
		if id == "context.Context.Done" {
			if r := core.RecvExpr(call); r != nil {
				return "done(" + s.ref1(f, r) + ")"
			}
		}
		return "call " + id
	}
	return s.ref1(f, e)
}

// blocking lists the operations in f's own body (not in nested literals or
// callees) at which the goroutine may wait for another goroutine.
func (s *c19State) blocking(f *core.Func) []c19Blk {
	g := f.Graph()
	var out []c19Blk
	inComm := map[ast.Node]bool{}
	core.InspectNoLit(f.Body, func(n ast.Node) bool {
		sel, ok := n.(*ast.SelectStmt)
		if !ok {
			return true
		}
		hasDefault := false
		var first ast.Stmt
		var refs []string
		for _, cl := range sel.Body.List {
			cc := cl.(*ast.CommClause)
			if cc.Comm == nil {
				hasDefault = true
				continue
			}
			if first == nil {
				first = cc.Comm
			}
			ast.Inspect(cc.Comm, func(y ast.Node) bool {
				switch u := y.(type) {
				case *ast.UnaryExpr:
					if u.Op == token.ARROW {
						inComm[u] = true
						refs = append(refs, s.chanRef(f, u.X))
					}
				case *ast.SendStmt:
					inComm[u] = true
					refs = append(refs, s.chanRef(f, u.Chan))
				}
				return true
			})
		}
		if !hasDefault && first != nil {
			if p, ok := g.PointOf(first); ok {
				out = append(out, c19Blk{P: p, What: "select", Ref: strings.Join(refs, ","), N: sel})
			}
		}
		return true
	})
	for _, h := range g.Find(func(n ast.Node) bool {
		switch u := n.(type) {
		case *ast.UnaryExpr:
			return u.Op == token.ARROW && !inComm[u]
		case *ast.SendStmt:
			return !inComm[u]
		case *ast.CallExpr:
			return f.CalleeID(u) == c19WgWait
		}
		return false
	}) {
		switch u := h.N.(type) {
		case *ast.UnaryExpr:
			out = append(out, c19Blk{P: h.P, What: "recv", Ref: s.chanRef(f, u.X), N: u})
		case *ast.SendStmt:
			out = append(out, c19Blk{P: h.P, What: "send", Ref: s.chanRef(f, u.Chan), N: u})
		case *ast.CallExpr:
			out = append(out, c19Blk{P: h.P, What: "wait", Ref: s.ref1(f, core.RecvExpr(u)), N: u})
		}
	}
	for _, rs := range rangeStmts(f) {
		if c19IsChan(f.Info().TypeOf(rs.X)) {
			if p, ok := g.PointOf(rs.X); ok {
				out = append(out, c19Blk{P: p, What: "range", Ref: s.chanRef(f, rs.X), N: rs})
			}
		}
	}
	return out
}

// events finds the calls in f that satisfy pred, or that call a declared
// function which does so on every path through it (a helper extracted from f).
func (s *c19State) events(f *core.Func, pred func(h *core.Func, call *ast.CallExpr) bool) []core.Hit {
	return f.Graph().Calls(func(_ string, call *ast.CallExpr) bool {
		if pred(f, call) {
			return true
		}
		if cf := f.CalleeFunc(call); cf != nil && cf.Lit == nil && cf.Decl != f.Decl {
			return s.must(cf, pred, 0)
		}
		return false
	})
}

// must reports whether every normal path through f passes a call satisfying pred (directly or through helpers).
func (s *c19State) must(f *core.Func, pred func(h *core.Func, call *ast.CallExpr) bool, depth int) bool {
	if depth > 3 {
		return false
	}
	g := f.Graph()
	evs := g.Calls(func(_ string, call *ast.CallExpr) bool {
		if pred(f, call) {
			return true
		}
		if cf := f.CalleeFunc(call); cf != nil && cf.Lit == nil && cf != f {
			return s.must(cf, pred, depth+1)
		}
		return false
	})
	if len(evs) == 0 {
		return false
	}
	_, found := c19Search(g, nil, core.ExitPoints(normalExits(g)), core.HitPoints(evs), nil)
	return !found
}

func (b c19Blk) String() string { return b.What + " " + b.Ref }

// c19Pts extracts the points of blocking operations satisfying keep.
func c19Pts(bs []c19Blk, keep func(c19Blk) bool) []core.Point {
	var out []core.Point
	for _, b := range bs {
		if keep == nil || keep(b) {
			out = append(out, b.P)
		}
	}
	return out
}

// search is Graph.Search with point lists and an optional edge filter.
func c19Search(g *core.Graph, from *core.Point, goals, avoid []core.Point, edge func(*cfg.Block, int) bool) ([]string, bool) {
	if len(goals) == 0 {
		return nil, false
	}
	tr, ok := g.Search(core.Query{From: from, Goal: core.At(goals...), Avoid: core.At(avoid...), AvoidEdge: edge})
	return g.Trail(tr), ok
}

func c19AssignOf(f *core.Func, call *ast.CallExpr) *ast.AssignStmt {
	var res *ast.AssignStmt
	ast.Inspect(f.Body, func(n ast.Node) bool {
		if as, ok := n.(*ast.AssignStmt); ok && len(as.Rhs) == 1 && core.Unparen(as.Rhs[0]) == ast.Expr(call) {
			res = as
		}
		return res == nil
	})
	return res
}

// c19GoStmts lists the go statements directly in f's body (not in nested literals).
func c19GoStmts(f *core.Func) []*ast.GoStmt {
	var out []*ast.GoStmt
	core.InspectNoLit(f.Body, func(n ast.Node) bool {
		if gs, ok := n.(*ast.GoStmt); ok {
			out = append(out, gs)
		}
		return true
	})
	return out
}

// c19ParamsOfType lists the indices of f's parameters whose type satisfies pred.
func c19ParamsOfType(f *core.Func, pred func(types.Type) bool) []int {
	var out []int
	i := 0
	for _, fl := range f.Type.Params.List {
		t := f.Info().TypeOf(fl.Type)
		n := len(fl.Names)
		if n == 0 {
			n = 1
		}
		for k := 0; k < n; k++ {
			if pred(t) {
				out = append(out, i)
			}
			i++
		}
	}
	return out
}

func c19ParamObjAt(f *core.Func, idx int) types.Object {
	i := 0
	for _, fl := range f.Type.Params.List {
		if len(fl.Names) == 0 {
			i++
			continue
		}
		for _, n := range fl.Names {
			if i == idx {
				return f.Info().Defs[n]
			}
			i++
		}
	}
	return nil
}

func c19IsNamed(t types.Type, pkgSuffix, name string) bool {
	n, ok := t.(*types.Named)
	if !ok || n.Obj().Pkg() == nil {
		return false
	}
	return n.Obj().Name() == name && strings.HasSuffix(n.Obj().Pkg().Path(), pkgSuffix)
}

func c19IsOneShotMode(t types.Type) bool {
	return c19IsNamed(t, "internal/tailer/logstream", "OneShotMode")
}

// c19Defs lists the statements in f (including nested literals) that assign to obj.
func c19Defs(f *core.Func, obj types.Object) []ast.Node {
	var out []ast.Node
	info := f.Info()
	ast.Inspect(f.Decl.Body, func(n ast.Node) bool {
		switch v := n.(type) {
		case *ast.AssignStmt:
			for _, l := range v.Lhs {
				if id, ok := l.(*ast.Ident); ok && (info.Defs[id] == obj || info.Uses[id] == obj) {
					out = append(out, v)
				}
			}
		case *ast.ValueSpec:
			for _, id := range v.Names {
				if info.Defs[id] == obj {
					out = append(out, v)
				}
			}
		case *ast.RangeStmt:
			for _, l := range []ast.Expr{v.Key, v.Value} {
				if id, ok := l.(*ast.Ident); ok && (info.Defs[id] == obj || info.Uses[id] == obj) {
					out = append(out, v)
				}
			}
		case *ast.IncDecStmt:
			if id, ok := v.X.(*ast.Ident); ok && info.Uses[id] == obj {
				out = append(out, v)
			}
		}
		return true
	})
	return out
}

// c19SingleDef returns the right-hand side of the only definition of a local
// variable, when it has exactly one and that one is a 1:1 assignment.
func c19SingleDef(f *core.Func, obj types.Object) ast.Expr {
	defs := c19Defs(f, obj)
	if len(defs) != 1 {
		return nil
	}
	switch v := defs[0].(type) {
	case *ast.AssignStmt:
		if len(v.Lhs) == len(v.Rhs) {
			for i, l := range v.Lhs {
				if id, ok := l.(*ast.Ident); ok && (f.Info().Defs[id] == obj || f.Info().Uses[id] == obj) {
					return v.Rhs[i]
				}
			}
		}
	case *ast.ValueSpec:
		if len(v.Names) == len(v.Values) {
			for i, id := range v.Names {
				if f.Info().Defs[id] == obj {
					return v.Values[i]
				}
			}
		}
	}
	return nil
}

func c19Join(ss []string) string { return strings.Join(ss, "; ") }

var _ = fmt.Sprintf

// ---------------------------------------------------------------------------
// the property
// ---------------------------------------------------------------------------

func c19(c *core.Check) {
	c.Explain = "Decides structural necessary conditions of 'a one-shot run processes every line once and then terminates' on every control-flow path of the current source. (R1) every range-over-channel loop of the server (tailer forwarder, loader fan-out, VM.Run, exporter loops) ranges over a channel that some shipped code closes — channels are grouped into alias classes by a flow-insensitive union of assignments, struct literals, argument/parameter and return bindings, interface methods being joined with their implementations. (R2) one-shot specifics, decided by pruning the file-stream goroutine's CFG with the scenario {one-shot enabled, the read returned io.EOF}: no wait (select without default, receive, WaitGroup.Wait) is reachable before the stream flushes (Finish), closes its channel and returns; the one-shot value reaches the stream unchanged from the option through tailer.OneShot -> Tailer.oneShot -> logstream.New -> newFileStream -> stream, the first generation is read from offset 0 in that mode, and the pattern poller's goroutine ends without waiting. (R3) each line is forwarded exactly once per stage: the tailer's forwarder sends the received line once per iteration, the loader sends the received line once to every handle of the handle map per line, VM.Run executes the received line once per iteration; none of these loops has an early exit or starts goroutines per line. (R4) the join chain: every goroutine of the pipeline is counted (Add before go, Done on every exit) in the WaitGroup that its consumer waits on; the tailer cancels itself when its streams are done and closes the shared channel only after them; the loader, after the shared channel closes, closes its quit channel and every VM channel; the reload goroutine ends on the quit channel; Server.Run waits for the server WaitGroup that both tailer and loader are given; the init-done channels are closed on every return that leaves goroutines behind. (R5) the line reader always hands a non-empty slice to Read: the linear capacity expression of the buffer growth is proved to leave `size` bytes of room for every buffer state. (R6) every stream-map key that comes from a glob match is a canonical path, so one file gets one stream. (R7) in one-shot mode a finished stream's key is not removed from the stream map before tailer.New has added every pattern, so a later pattern matching the same file cannot stream it again. NOT decided: goroutine scheduling, blocking inside callees, that Read/Stat/Glob behave as documented, line framing arithmetic (C15), rotation/truncation during a one-shot run, and the equality of final metrics with a sequential interleaving (follows from R3 plus C20/C16, not proved here)."
	c.Assume = append(c.Assume,
		"a goroutine waits only at the operations visible in its own body (select, receive, send, range over channel, WaitGroup.Wait); callees such as glog, expvar and the VM's instruction loop return",
		"os.File.Read returns io.EOF at the end of a regular file and never (0, nil) for a non-empty buffer",
		"filepath.Abs returns a cleaned absolute path and filepath.Glob of such a pattern returns cleaned absolute matches",
		"sentinel errors other than io.EOF do not satisfy errors.Is(io.EOF, x)",
		"exits by panic are not considered")
	s := c19Build(c)
	c19R1(s)
	c19R2(s)
	c19R3(s)
	c19R4(s)
	c19R5(s)
	c19R6(s)
	c19R7(s)
}

// ---------------------------------------------------------------------------
// R1: every range-over-channel loop has a closer
// ---------------------------------------------------------------------------

func c19R1(s *c19State) {
	c := s.c
	c.Rule("C19-R1", "CLOSE-EXISTS: for every `for x := range ch` in the server's packages (internal/...), some shipped code calls close on a channel of the same alias class as ch (aliasing through assignments, struct literals, parameters, results and interface implementations); otherwise the goroutine running the loop can never end")
	table := []string{}
	for _, f := range shipped(c) {
		rel := core.Rel(f.Pkg.PkgPath)
		for _, rs := range rangeStmts(f) {
			if !c19IsChan(f.Info().TypeOf(rs.X)) {
				continue
			}
			c.Analysed(f)
			if !strings.HasPrefix(rel, "internal/") {
				c.Note("C19-R1", f.Key+"|range over channel", pos(c, rs), "outside the server's packages (stand-alone tool): not part of a one-shot run")
				continue
			}
			obj := s.chanObj(f.Info(), rs.X)
			if obj == nil {
				c.Undecided("C19-R1", f.Key+"|range "+exprStr(rs.X), pos(c, rs), "cannot name the channel ranged over")
				continue
			}
			cn := s.className(obj)
			key := f.Key + "|range " + cn
			cls := s.closesOfClass(obj)
			if len(cls) == 0 {
				if why := s.classEscape(obj); why != "" {
					c.Undecided("C19-R1", key, pos(c, rs), "no close found for this channel, but "+why)
					continue
				}
				c.Fail("C19-R1", key, pos(c, rs), "no shipped code closes the channel this loop ranges over ("+cn+"): the loop never ends, the goroutine's WaitGroup is never released and a one-shot run never returns")
				continue
			}
			var where []string
			for _, cl := range cls {
				k := "package initialiser"
				if cl.f != nil {
					k = cl.f.Key
				}
				where = append(where, k+"@"+pos(c, cl.call))
			}
			table = append(table, key+" <- "+strings.Join(where, ", "))
			c.Ok("C19-R1", key, pos(c, rs), fmt.Sprintf("closed at %d site(s): %s", len(cls), strings.Join(where, ", ")))
		}
	}
	c.Extra["c19_range_loops_and_closers"] = table
	c.Floor("C19-R1", 7)
}

// ---------------------------------------------------------------------------
// R2: one-shot specifics
// ---------------------------------------------------------------------------

func c19R2(s *c19State) {
	c := s.c
	c.Rule("C19-R2", "ONE-SHOT: (a) in the file-stream goroutine, under the scenario {oneShot == OneShotEnabled, ReadAndSend returned an error satisfying errors.Is(err, io.EOF)} (count == 0 and count > 0 separately), every path from the read reaches Finish, then close of the stream's channel, then return — or a successor stream or another read — without passing a select-without-default, a receive or a Wait; (b) the one-shot value flows unchanged mtail.OneShot -> tailer.OneShot -> Tailer.oneShot -> logstream.New -> newFileStream -> stream (and to successor streams); (c) in that mode the first generation is opened with streamFromStart true and the seek to the end of the file is unreachable; (d) the pattern poller's goroutine, with Tailer.oneShot set, returns without waiting on anything but the tailer's init-done channel")
	f := c.MustFn("C19-R2", c19FsStream)
	nf := c.MustFn("C19-R2", c19NewFileStream)
	ln := c.MustFn("C19-R2", c19LogstreamNew)
	tp := c.MustFn("C19-R2", c19TailPath)
	pp := c.MustFn("C19-R2", c19PollPattern)
	if f == nil || nf == nil || ln == nil || tp == nil || pp == nil {
		return
	}
	osIdx := c19ParamsOfType(f, c19IsOneShotMode)
	boolIdx := c19ParamsOfType(f, func(t types.Type) bool {
		b, ok := t.(*types.Basic)
		return ok && b.Kind() == types.Bool
	})
	if len(osIdx) != 1 || len(boolIdx) != 1 {
		c.Undecided("C19-R2", c19FsStream, pos(c, f.Decl), fmt.Sprintf("expected one OneShotMode and one bool (stream-from-start) parameter, found %d and %d", len(osIdx), len(boolIdx)))
		return
	}
	oneShot := c19ParamObjAt(f, osIdx[0])
	fromStart := c19ParamObjAt(f, boolIdx[0])

	// (a) the goroutine
	var gf *core.Func
	n := 0
	for _, lf := range goLits(c, f) {
		if len(lf.Graph().CallsTo(c19ReadAndSend)) > 0 {
			gf = lf
			n++
		}
	}
	if n != 1 {
		c.Undecided("C19-R2", c19FsStream+"|goroutine", pos(c, f.Decl), fmt.Sprintf("expected one goroutine literal calling ReadAndSend, found %d", n))
		return
	}
	c.Analysed(gf)
	g := gf.Graph()
	reads := g.CallsTo(c19ReadAndSend)
	finishes := s.events(gf, func(h *core.Func, call *ast.CallExpr) bool { return h.CalleeID(call) == c19Finish })
	succ := g.CallsTo(c19FsStream)
	exits := core.ExitPoints(normalExits(g))
	closes := core.HitPoints(s.events(gf, func(h *core.Func, call *ast.CallExpr) bool {
		return h.CalleeID(call) == "builtin.close" && len(call.Args) == 1 && isChanOfLogLine(h.Info(), call.Args[0]) && s.chanObj(h.Info(), call.Args[0]) != nil
	}))
	blks := s.blocking(gf)
	waits := c19Pts(blks, func(b c19Blk) bool { return b.What == "select" || b.What == "recv" || b.What == "wait" })
	for ri, r := range reads {
		as := c19AssignOf(gf, r.N.(*ast.CallExpr))
		if as == nil || len(as.Lhs) != 2 {
			c.Undecided("C19-R2", gf.Key+"|read", pos(c, r.N), "the results of ReadAndSend are not assigned to (count, err)")
			continue
		}
		cntObj, errObj := identObj(gf.Info(), as.Lhs[0]), identObj(gf.Info(), as.Lhs[1])
		if cntObj == nil || errObj == nil {
			c.Undecided("C19-R2", gf.Key+"|read", pos(c, r.N), "the results of ReadAndSend are not assigned to plain variables")
			continue
		}
		for _, sc := range []struct {
			name string
			cnt  int64
		}{{"EOF,count=0", 0}, {"EOF,count>0", 1}} {
			env := &c19Env{f: gf, vals: map[types.Object]c19V{
				oneShot: {kind: c19KBool, b: true},
				errObj:  {kind: c19KErrEOF},
				cntObj:  {kind: c19KInt, i: sc.cnt},
			}}
			edge := env.infeasible(g)
			from := r.P
			base := fmt.Sprintf("%s|read#%d|%s", gf.Key, ri+1, sc.name)
			stop := append(append(append([]core.Point{}, closes...), core.HitPoints(succ)...), core.HitPoints(reads)...)
			if tr, found := c19Search(g, &from, waits, stop, edge); found {
				c.Fail("C19-R2", base+"|no-wait", pos(c, r.N), "in one-shot mode a file stream that has read to the end of its file can reach a wait (wake-up or cancellation) instead of finishing: its channel is never closed, the tailer's WaitGroup never drains and the run does not return", tr...)
			} else {
				c.Ok("C19-R2", base+"|no-wait", pos(c, r.N), "no wait reachable before close / successor / next read")
			}
			if tr, found := c19Search(g, &from, exits, append(append([]core.Point{}, closes...), core.HitPoints(succ)...), edge); found {
				c.Fail("C19-R2", base+"|closes", pos(c, r.N), "in one-shot mode the stream goroutine can return at end of file without closing its channel and without a successor: the tailer's forwarder waits for ever and the run does not return", tr...)
			} else {
				c.Ok("C19-R2", base+"|closes", pos(c, r.N), "every exit is preceded by close or a successor")
			}
			if tr, found := c19Search(g, &from, closes, append(core.HitPoints(finishes), core.HitPoints(reads)...), edge); found {
				c.Fail("C19-R2", base+"|flush", pos(c, r.N), "in one-shot mode the stream can close its channel at end of file without Finish: a final line without a newline is never processed", tr...)
			} else {
				c.Ok("C19-R2", base+"|flush", pos(c, r.N), "Finish precedes every close")
			}
			if _, found := c19Search(g, &from, closes, nil, edge); !found {
				c.Fail("C19-R2", base+"|reaches-close", pos(c, r.N), "in one-shot mode no path from an end-of-file read reaches a close of the stream's channel: the stream never finishes")
			} else {
				c.Ok("C19-R2", base+"|reaches-close", pos(c, r.N), "close reachable")
			}
		}
	}
	for i, cl := range closes {
		from := cl
		if tr, found := c19Search(g, &from, waits, exits, nil); found {
			c.Fail("C19-R2", fmt.Sprintf("%s|close#%d then return", gf.Key, i+1), ppos(c, cl, gf), "after closing its channel the stream goroutine can wait again instead of returning: its WaitGroup entry is never released", tr...)
		} else {
			c.Ok("C19-R2", fmt.Sprintf("%s|close#%d then return", gf.Key, i+1), ppos(c, cl, gf), "returns without waiting")
		}
	}
	// successors keep the mode
	for i, sh := range succ {
		call := sh.N.(*ast.CallExpr)
		a := call.Args[osIdx[0]]
		v, isC := constBool(gf.Info(), a)
		c.Verdict(identObj(gf.Info(), a) == oneShot || (isC && v), "C19-R2", fmt.Sprintf("%s|successor#%d mode", gf.Key, i+1), pos(c, call), "successor inherits one-shot mode",
			"a successor stream is not started with this stream's one-shot mode: after a rotation during a one-shot run the new stream waits for ever at end of file")
	}

	// (c) from the start
	for i, h := range nf.Graph().CallsTo(c19FsStream) {
		call := h.N.(*ast.CallExpr)
		key := fmt.Sprintf("%s|stream call#%d", c19NewFileStream, i+1)
		nOS := c19ParamsOfType(nf, c19IsOneShotMode)
		if len(nOS) != 1 {
			c.Undecided("C19-R2", key, pos(c, call), "newFileStream has no single OneShotMode parameter")
			continue
		}
		nfOne := c19ParamObjAt(nf, nOS[0])
		c.Verdict(identObj(nf.Info(), call.Args[osIdx[0]]) == nfOne, "C19-R2", key+" mode", pos(c, call), "passes its one-shot parameter",
			"newFileStream does not hand its one-shot mode to the stream: a one-shot file stream never exits at end of file")
		arg := call.Args[boolIdx[0]]
		if o := identObj(nf.Info(), arg); o != nil {
			if d := c19SingleDef(nf, o); d != nil {
				arg = d
			}
		}
		env := &c19Env{f: nf, vals: map[types.Object]c19V{nfOne: {kind: c19KBool, b: true}}}
		v, known := env.truth(arg)
		switch {
		case known && v:
			c.Ok("C19-R2", key+" from start", pos(c, call), "streamFromStart is true when one-shot is enabled: "+exprStr(arg))
		case known:
			c.Fail("C19-R2", key+" from start", pos(c, call), "with one-shot enabled the first stream of a file is not started from offset 0 ("+exprStr(arg)+" is false): every line already in the file is skipped")
		default:
			c.Undecided("C19-R2", key+" from start", pos(c, call), "cannot evaluate "+exprStr(arg)+" for one-shot enabled")
		}
	}
	{
		sg := f.Graph()
		env := &c19Env{f: f, vals: map[types.Object]c19V{fromStart: {kind: c19KBool, b: true}, oneShot: {kind: c19KBool, b: true}}}
		edge := env.infeasible(sg)
		var seekEnd []core.Point
		for _, h := range sg.Calls(func(id string, call *ast.CallExpr) bool { return strings.HasSuffix(id, ".Seek") && len(call.Args) == 2 }) {
			if w, ok := constInt(f.Info(), h.N.(*ast.CallExpr).Args[1]); ok && w == 2 { // io.SeekEnd
				seekEnd = append(seekEnd, h.P)
			}
		}
		gos := c19GoStmts(f)
		var goPts []core.Point
		for _, gs := range gos {
			if p, ok := sg.PointOf(gs); ok {
				goPts = append(goPts, p)
			}
		}
		if tr, found := c19Search(sg, nil, seekEnd, nil, edge); found {
			c.Fail("C19-R2", c19FsStream+"|seek to end", pos(c, f.Decl), "with streamFromStart true the stream still seeks to the end of the file before reading: in one-shot mode the file's contents are skipped", tr...)
		} else {
			c.Ok("C19-R2", c19FsStream+"|seek to end", pos(c, f.Decl), fmt.Sprintf("%d seek(s) to the end, none reachable when streaming from the start", len(seekEnd)))
		}
		_ = goPts
	}

	// (b) plumbing of the mode
	for i, h := range ln.Graph().CallsTo(c19NewFileStream) {
		call := h.N.(*ast.CallExpr)
		lOS := c19ParamsOfType(ln, c19IsOneShotMode)
		nOS := c19ParamsOfType(nf, c19IsOneShotMode)
		key := fmt.Sprintf("%s|newFileStream call#%d mode", c19LogstreamNew, i+1)
		if len(lOS) != 1 || len(nOS) != 1 {
			c.Undecided("C19-R2", key, pos(c, call), "no single OneShotMode parameter")
			continue
		}
		c.Verdict(identObj(ln.Info(), call.Args[nOS[0]]) == c19ParamObjAt(ln, lOS[0]), "C19-R2", key, pos(c, call), "passes its one-shot parameter",
			"logstream.New does not hand its one-shot mode to the file stream")
	}
	tailerOneShot := ""
	for i, h := range tp.Graph().CallsTo(c19LogstreamNew) {
		call := h.N.(*ast.CallExpr)
		lOS := c19ParamsOfType(ln, c19IsOneShotMode)
		key := fmt.Sprintf("%s|logstream.New call#%d mode", c19TailPath, i+1)
		if len(lOS) != 1 {
			c.Undecided("C19-R2", key, pos(c, call), "no single OneShotMode parameter")
			continue
		}
		a := call.Args[lOS[0]]
		fo := c19ExprObj(tp.Info(), a)
		_, isField := s.fieldName[fo]
		if isField {
			tailerOneShot = s.fieldName[fo]
		}
		c.Verdict(isField, "C19-R2", key, pos(c, call), "passes the tailer's mode field "+tailerOneShot,
			"TailPath does not pass the tailer's one-shot field to logstream.New: streams created in a one-shot run never exit at end of file")
	}
	c19OptionPlumbing(s, tailerOneShot)

	// (d) the poller
	initRefs := map[string]bool{}
	if tn := c.Prog.Fn(c19TailerNew); tn != nil {
		initRefs = s.closedIn(tn)
	}
	for _, lf := range goLits(c, pp) {
		c.Analysed(lf)
		lg := lf.Graph()
		vals := map[types.Object]c19V{}
		for fo, name := range s.fieldName {
			if name == tailerOneShot {
				vals[fo] = c19V{kind: c19KBool, b: true}
			}
		}
		env := &c19Env{f: lf, vals: vals}
		edge := env.infeasible(lg)
		bl := s.blocking(lf)
		key := lf.Key + "|one-shot exit"
		bad := false
		for _, b := range bl {
			if b.What == "recv" && initRefs[b.Ref] {
				continue
			}
			if tr, found := c19Search(lg, nil, []core.Point{b.P}, nil, edge); found {
				bad = true
				c.Fail("C19-R2", key, pos(c, b.N), "in one-shot mode the pattern poller's goroutine reaches a wait ("+b.String()+"): it is counted in the tailer's WaitGroup, so the tailer never cancels itself and the run does not return", tr...)
				break
			}
		}
		if !bad {
			if _, found := c19Search(lg, nil, core.ExitPoints(normalExits(lg)), nil, edge); found {
				c.Ok("C19-R2", key, pos(c, lf.Lit), "returns without waiting when Tailer.oneShot is set")
			} else {
				c.Fail("C19-R2", key, pos(c, lf.Lit), "in one-shot mode the pattern poller's goroutine has no path to its end")
			}
		}
	}
	c.Floor("C19-R2", 22)
}

// c19OptionPlumbing checks the two option values that switch one-shot mode on.
func c19OptionPlumbing(s *c19State, tailerField string) {
	c := s.c
	tpkg := c.Prog.Pkgs["internal/tailer"]
	mpkg := c.Prog.Pkgs["internal/mtail"]
	if tpkg == nil || mpkg == nil {
		c.Undecided("C19-R2", "option plumbing", "-", "packages internal/tailer or internal/mtail not loaded")
		return
	}
	findVar := func(pkg *packages.Package, name string) (*ast.ValueSpec, types.Object) {
		for _, file := range pkg.Syntax {
			for _, d := range file.Decls {
				gd, ok := d.(*ast.GenDecl)
				if !ok {
					continue
				}
				for _, sp := range gd.Specs {
					if vs, ok := sp.(*ast.ValueSpec); ok {
						for _, n := range vs.Names {
							if n.Name == name {
								return vs, pkg.TypesInfo.Defs[n]
							}
						}
					}
				}
			}
		}
		return nil, nil
	}
	tvs, tobj := findVar(tpkg, "OneShot")
	if tvs == nil {
		c.Undecided("C19-R2", "internal/tailer.OneShot", "-", "option variable not found")
	} else {
		ok := false
		ast.Inspect(tvs, func(n ast.Node) bool {
			as, isAs := n.(*ast.AssignStmt)
			if !isAs || len(as.Lhs) != 1 || len(as.Rhs) != 1 {
				return true
			}
			fo := c19ExprObj(tpkg.TypesInfo, as.Lhs[0])
			if s.fieldName[fo] == tailerField && tailerField != "" {
				v, isC := constBool(tpkg.TypesInfo, as.Rhs[0])
				ok = isC && v
			}
			return true
		})
		c.Verdict(ok, "C19-R2", "internal/tailer.OneShot|sets mode", pos(c, tvs), "sets "+tailerField+" to OneShotEnabled",
			"the tailer's OneShot option does not set the field that TailPath hands to the streams to OneShotEnabled: one-shot streams tail for ever")
	}
	mvs, _ := findVar(mpkg, "OneShot")
	if mvs == nil {
		c.Undecided("C19-R2", "internal/mtail.OneShot", "-", "option variable not found")
		return
	}
	var optField types.Object
	ast.Inspect(mvs, func(n ast.Node) bool {
		as, isAs := n.(*ast.AssignStmt)
		if !isAs || len(as.Lhs) != 1 || len(as.Rhs) != 1 {
			return true
		}
		call, isCall := core.Unparen(as.Rhs[0]).(*ast.CallExpr)
		if !isCall || len(call.Args) < 2 {
			return true
		}
		if id, ok := core.Unparen(call.Fun).(*ast.Ident); !ok || id.Name != "append" {
			return true
		} else if _, isB := mpkg.TypesInfo.Uses[id].(*types.Builtin); !isB {
			return true
		}
		for _, a := range call.Args[1:] {
			if c19ExprObj(mpkg.TypesInfo, a) == tobj && tobj != nil {
				lo := c19ExprObj(mpkg.TypesInfo, as.Lhs[0])
				if lo != nil && lo == c19ExprObj(mpkg.TypesInfo, call.Args[0]) {
					optField = lo
				}
			}
		}
		return true
	})
	c.Verdict(optField != nil, "C19-R2", "internal/mtail.OneShot|adds tailer.OneShot", pos(c, mvs), "appends tailer.OneShot to "+s.fieldName[optField],
		"the server's OneShot option does not add tailer.OneShot to the tailer's options: the tailer runs in tailing mode and the run never ends")
	if it := c.MustFn("C19-R2", c19InitTailer); it != nil && optField != nil {
		ok := false
		for _, h := range it.Graph().CallsTo(c19TailerNew) {
			call := h.N.(*ast.CallExpr)
			if call.Ellipsis.IsValid() && len(call.Args) > 0 && c19ExprObj(it.Info(), call.Args[len(call.Args)-1]) == optField {
				ok = true
			}
		}
		c.Verdict(ok, "C19-R2", c19InitTailer+"|passes options", pos(c, it.Decl), "tailer.New receives "+s.fieldName[optField]+"...",
			"initTailer does not pass the option list that OneShot extends to tailer.New")
	}
}

// ---------------------------------------------------------------------------
// R3: each stage forwards every line exactly once
// ---------------------------------------------------------------------------

// c19LineLoop finds the single range-over-a-LogLine-channel loop directly in f.
func c19LineLoop(f *core.Func) *ast.RangeStmt {
	var out []*ast.RangeStmt
	for _, rs := range rangeStmts(f) {
		if isChanOfLogLine(f.Info(), rs.X) {
			out = append(out, rs)
		}
	}
	if len(out) == 1 {
		return out[0]
	}
	return nil
}

// c19LoopHygiene: no early exit from the loop and no goroutine started inside it.
func c19LoopHygiene(s *c19State, rule string, f *core.Func, rs *ast.RangeStmt, key, what string) {
	c := s.c
	g := f.Graph()
	if ee := earlyLoopExits(c, g, rs); len(ee) > 0 {
		c.Fail(rule, key+"|no early exit", pos(c, rs), what+" can leave its loop before the channel is closed ("+ee[0]+"): the remaining lines are never received and the sender blocks for ever")
	} else {
		c.Ok(rule, key+"|no early exit", pos(c, rs), "the loop ends only when the channel is closed")
	}
	var gos []ast.Node
	ast.Inspect(rs.Body, func(n ast.Node) bool {
		if gs, ok := n.(*ast.GoStmt); ok {
			gos = append(gos, gs)
		}
		return true
	})
	if len(gos) > 0 {
		c.Fail(rule, key+"|sequential", pos(c, gos[0]), what+" starts a goroutine per line: lines of one file can overtake each other")
	} else {
		c.Ok(rule, key+"|sequential", pos(c, rs), "no goroutine per line")
	}
}

// c19SendAlt reports whether a send statement is one alternative of a select:
// "" (plain statement), "default" (the select has a default clause) or "other".
func c19SendAlt(f *core.Func, ss *ast.SendStmt) string {
	res := ""
	core.InspectNoLit(f.Body, func(n ast.Node) bool {
		sel, ok := n.(*ast.SelectStmt)
		if !ok {
			return true
		}
		mine, def, others := false, false, 0
		for _, cl := range sel.Body.List {
			cc := cl.(*ast.CommClause)
			switch {
			case cc.Comm == nil:
				def = true
			case cc.Comm == ast.Stmt(ss):
				mine = true
			default:
				others++
			}
		}
		if mine {
			switch {
			case def:
				res = "default"
			case others > 0:
				res = "other"
			}
		}
		return true
	})
	return res
}

// c19SendPlain records the verdict that a line send is unconditional.
func c19SendPlain(s *c19State, f *core.Func, ss *ast.SendStmt, key, what string) {
	c := s.c
	switch c19SendAlt(f, ss) {
	case "":
		c.Ok("C19-R3", key, pos(c, ss), "the send is a plain statement")
	case "default":
		c.Fail("C19-R3", key, pos(c, ss), what+" sends the line inside a select with a default clause: when the receiver is not ready at that instant the line is dropped")
	default:
		c.Undecided("C19-R3", key, pos(c, ss), what+" sends the line as one alternative of a select: whether the line can be skipped depends on the other alternatives, which this rule does not model")
	}
}

func c19R3(s *c19State) {
	c := s.c
	c.Rule("C19-R3", "EXACTLY-ONCE-PER-STAGE: (a) the tailer's forwarder ranges over the Lines() of the stream TailPath just created and on every path through an iteration sends the received line exactly once on the tailer's output channel; (b) the loader's fan-out, for every received line, enters exactly once a loop over the handle map in which every iteration sends the received line exactly once on that handle's channel; (c) VM.Run calls ProcessLogLine exactly once per iteration with the received line; none of the loops can be left early and none starts a goroutine per line")
	// (a)
	if tp := c.MustFn("C19-R3", c19TailPath); tp != nil {
		var newObj types.Object
		for _, h := range tp.Graph().CallsTo(c19LogstreamNew) {
			if as := c19AssignOf(tp, h.N.(*ast.CallExpr)); as != nil && len(as.Lhs) > 0 {
				newObj = identObj(tp.Info(), as.Lhs[0])
			}
		}
		n := 0
		for _, lf := range goLits(c, tp) {
			rs := c19LineLoop(lf)
			if rs == nil {
				continue
			}
			n++
			c.Analysed(lf)
			g := lf.Graph()
			key := lf.Key + "|forwarder"
			src := false
			if call, ok := core.Unparen(rs.X).(*ast.CallExpr); ok {
				if r := core.RecvExpr(call); r != nil && newObj != nil && identObj(lf.Info(), r) == newObj {
					src = true
				}
			}
			c.Verdict(src, "C19-R3", key+"|source", pos(c, rs), "ranges over the new stream's Lines()", "the forwarder does not range over the Lines() channel of the stream TailPath just registered: that stream's lines are never forwarded")
			sends := sendsOfLines(g)
			cnt, ok := iterationCount(g, rs, core.HitPoints(sends))
			c.Verdict(ok && cnt.Min == 1 && cnt.Max == 1, "C19-R3", key+"|once", pos(c, rs), "exactly one send per received line", "the forwarder sends a received line "+cnt.String()+" times: lines are lost or duplicated")
			for i, sh := range sends {
				ss := sh.N.(*ast.SendStmt)
				okv := identObj(lf.Info(), ss.Value) != nil && identObj(lf.Info(), ss.Value) == identObj(lf.Info(), rs.Key)
				c.Verdict(okv, "C19-R3", fmt.Sprintf("%s|send#%d value", key, i+1), pos(c, ss), "forwards the received line", "the forwarder sends something other than the line it received")
				c19SendPlain(s, lf, ss, fmt.Sprintf("%s|send#%d unconditional", key, i+1), "the tailer's forwarder")
				dst := s.chanObj(lf.Info(), ss.Chan)
				okd := false
				if tn := c.Prog.Fn(c19TailerNew); tn != nil {
					for _, pi := range c19ParamsOfType(tn, func(t types.Type) bool { return c19IsChan(t) }) {
						if s.same(dst, c19ParamObjAt(tn, pi)) {
							okd = true
						}
					}
				}
				c.Verdict(okd, "C19-R3", fmt.Sprintf("%s|send#%d channel", key, i+1), pos(c, ss), "sends on the tailer's output channel ("+s.className(dst)+")", "the forwarder does not send on the channel tailer.New was given: the loader never sees the line")
			}
			c19LoopHygiene(s, "C19-R3", lf, rs, key, "the tailer's forwarder")
		}
		if n != 1 {
			c.Undecided("C19-R3", c19TailPath+"|forwarder", pos(c, tp.Decl), fmt.Sprintf("expected one forwarding goroutine in TailPath, found %d", n))
		}
	}
	// (b)
	if rn := c.MustFn("C19-R3", c19RuntimeNew); rn != nil {
		n := 0
		for _, lf := range rn.Lits {
			rs := c19LineLoop(lf)
			if rs == nil {
				continue
			}
			n++
			c.Analysed(lf)
			g := lf.Graph()
			key := lf.Key + "|fan-out"
			lineObj := identObj(lf.Info(), rs.Key)
			// inner loops over a map directly inside the line loop
			var inner []*ast.RangeStmt
			ast.Inspect(rs.Body, func(x ast.Node) bool {
				if _, isLit := x.(*ast.FuncLit); isLit {
					return false
				}
				if in, ok := x.(*ast.RangeStmt); ok {
					if _, isMap := lf.Info().TypeOf(in.X).Underlying().(*types.Map); isMap {
						inner = append(inner, in)
					}
				}
				return true
			})
			sends := sendsOfLines(g)
			if len(inner) != 1 || len(sends) == 0 {
				c.Fail("C19-R3", key+"|per handle", pos(c, rs), fmt.Sprintf("the fan-out loop contains %d loops over a map and %d sends of lines: a line is not delivered to every loaded program", len(inner), len(sends)))
				continue
			}
			in := inner[0]
			mapRef := s.ref1(lf, in.X)
			if p, ok := g.PointOf(in.X); ok {
				cnt, ok2 := iterationCount(g, rs, []core.Point{p})
				c.Verdict(ok2 && cnt.Min == 1 && cnt.Max == 1, "C19-R3", key+"|handle loop once per line", pos(c, in), "the loop over "+mapRef+" is entered exactly once per line", "the loop over the handle map is entered "+cnt.String()+" times per received line: programs miss lines or see them twice")
			} else {
				c.Undecided("C19-R3", key+"|handle loop once per line", pos(c, in), "cannot locate the inner loop in the CFG")
			}
			cnt, ok := iterationCount(g, in, core.HitPoints(sends))
			c.Verdict(ok && cnt.Min == 1 && cnt.Max == 1, "C19-R3", key+"|once per handle", pos(c, in), "exactly one send per handle and line", "for one handle a line is sent "+cnt.String()+" times: a loaded program misses lines or processes them twice")
			for i, sh := range sends {
				ss := sh.N.(*ast.SendStmt)
				c.Verdict(lineObj != nil && identObj(lf.Info(), ss.Value) == lineObj, "C19-R3", fmt.Sprintf("%s|send#%d value", key, i+1), pos(c, ss), "sends the received line", "the fan-out sends something other than the line it received")
				c19SendPlain(s, lf, ss, fmt.Sprintf("%s|send#%d unconditional", key, i+1), "the loader's fan-out")
				c.Verdict(c19HandleChan(s, lf, in, ss.Chan), "C19-R3", fmt.Sprintf("%s|send#%d channel", key, i+1), pos(c, ss), "sends on the channel of the handle being visited", "the send inside the loop over the handle map does not use the visited handle's channel: some program never receives the line")
			}
			c19LoopHygiene(s, "C19-R3", lf, rs, key, "the loader's fan-out")
			if ee := earlyLoopExits(c, g, in); len(ee) > 0 {
				c.Fail("C19-R3", key+"|all handles", pos(c, in), "the loop over the handle map can be left early ("+ee[0]+"): the remaining programs do not receive the line")
			} else {
				c.Ok("C19-R3", key+"|all handles", pos(c, in), "every handle is visited")
			}
		}
		if n != 1 {
			c.Undecided("C19-R3", c19RuntimeNew+"|fan-out", pos(c, rn.Decl), fmt.Sprintf("expected one goroutine ranging over the lines channel, found %d", n))
		}
	}
	// (c)
	if vr := c.MustFn("C19-R3", c19VMRun); vr != nil {
		rs := c19LineLoop(vr)
		if rs == nil {
			c.Undecided("C19-R3", c19VMRun, pos(c, vr.Decl), "no single loop over a line channel in VM.Run")
		} else {
			g := vr.Graph()
			calls := g.CallsTo(c19ProcessLine)
			cnt, ok := iterationCount(g, rs, core.HitPoints(calls))
			c.Verdict(ok && cnt.Min == 1 && cnt.Max == 1, "C19-R3", c19VMRun+"|once", pos(c, rs), "exactly one ProcessLogLine per received line", "VM.Run processes a received line "+cnt.String()+" times")
			for i, h := range calls {
				call := h.N.(*ast.CallExpr)
				okv := false
				for _, a := range call.Args {
					if o := identObj(vr.Info(), a); o != nil && o == identObj(vr.Info(), rs.Key) {
						okv = true
					}
				}
				c.Verdict(okv, "C19-R3", fmt.Sprintf("%s|call#%d value", c19VMRun, i+1), pos(c, call), "processes the received line", "VM.Run does not pass the received line to ProcessLogLine")
			}
			c19LoopHygiene(s, "C19-R3", vr, rs, c19VMRun, "VM.Run")
		}
	}
	c.Floor("C19-R3", 19)
}

// c19HandleChan: ch is `M[k].f` or `v.f` for the map M ranged over by in with key k / value v.
func c19HandleChan(s *c19State, f *core.Func, in *ast.RangeStmt, ch ast.Expr) bool {
	sel, ok := core.Unparen(ch).(*ast.SelectorExpr)
	if !ok {
		return false
	}
	info := f.Info()
	switch b := core.Unparen(sel.X).(type) {
	case *ast.IndexExpr:
		k := identObj(info, b.Index)
		return k != nil && in.Key != nil && k == identObj(info, in.Key) && s.ref1(f, b.X) == s.ref1(f, in.X) && s.ref1(f, in.X) != ""
	case *ast.Ident:
		v := identObj(info, b)
		return v != nil && in.Value != nil && v == identObj(info, in.Value)
	}
	return false
}

// ---------------------------------------------------------------------------
// R4: the join chain
// ---------------------------------------------------------------------------

type c19G struct {
	host *core.Func  // function containing the go statement
	stmt *ast.GoStmt //
	body *core.Func  // literal or declared function run by the goroutine
}

func c19Goroutines(c *core.Check, decl *core.Func) []c19G {
	var out []c19G
	for _, h := range append([]*core.Func{decl}, decl.Lits...) {
		for _, gs := range c19GoStmts(h) {
			var body *core.Func
			if lit, ok := core.Unparen(gs.Call.Fun).(*ast.FuncLit); ok {
				body = c.Prog.FuncOf[lit]
			} else {
				body = h.CalleeFunc(gs.Call)
			}
			out = append(out, c19G{h, gs, body})
		}
	}
	return out
}

// wgCalls finds the calls of a WaitGroup method in f whose receiver resolves to ref ("" = any).
func (s *c19State) wgCalls(f *core.Func, method, ref string) []core.Hit {
	return f.Graph().Calls(func(id string, call *ast.CallExpr) bool {
		if id != method {
			return false
		}
		return ref == "" || s.ref1(f, core.RecvExpr(call)) == ref
	})
}

// addBefore: every path to point p of f has passed Add on the WaitGroup ref;
// when f is a literal deferred or called in place by its parent, the paths of the parent count.
func (s *c19State) addBefore(f *core.Func, p core.Point, ref string) ([]string, bool) {
	g := f.Graph()
	adds := core.HitPoints(s.wgCalls(f, c19WgAdd, ref))
	tr, found := c19Search(g, nil, []core.Point{p}, adds, nil)
	if !found {
		return nil, true
	}
	if f.Lit != nil && f.Parent != nil {
		if pp, ok := f.Parent.Graph().PointOf(f.Lit); ok {
			if _, isGo := pp.Node().(*ast.GoStmt); !isGo {
				return s.addBefore(f.Parent, pp, ref)
			}
		}
	}
	return tr, false
}

func c19R4(s *c19State) {
	c := s.c
	c.Rule("C19-R4", "JOIN-CHAIN: (a) every goroutine started by tailer.New, TailPath, pollLogPattern, fileStream.stream, runtime.New and CompileAndRun calls Done on exactly one WaitGroup on every way out, and Add on that WaitGroup precedes the go statement on every path; stream goroutines are counted in the tailer's WaitGroup, VM goroutines in the loader's; (b) tailer.New: one goroutine calls the tailer's cancel on every path, waiting only for init-done and the tailer's WaitGroup; the other closes the output channel on every path, only after Wait on the tailer's WaitGroup, waiting only for init-done, the tailer's own context and that WaitGroup; context and cancel come from one context.WithCancel; (c) runtime.New: after the line loop every path closes a channel on which the reload goroutine's select returns, and closes every handle's channel in a loop over the handle map; the goroutine that releases the server's WaitGroup does so only after Wait on the loader's WaitGroup; (d) init-done channels are closed on every return that follows a go statement; (e) CompileAndRun gives VM.Run the channel it stores in the handle; (f) Server.Run returns only after Wait on the WaitGroup that both tailer.New and runtime.New receive, both receive the same line channel, and mtail.New starts both before succeeding")

	// (a) counted goroutines
	wgOf := map[string]string{} // goroutine key -> WaitGroup ref
	for _, key := range []string{c19TailerNew, c19TailPath, c19PollPattern, c19FsStream, c19RuntimeNew, c19CompileRun} {
		d := c.MustFn("C19-R4", key)
		if d == nil {
			continue
		}
		for i, gr := range c19Goroutines(c, d) {
			gk := fmt.Sprintf("%s|go#%d", key, i+1)
			if gr.body == nil {
				c.Undecided("C19-R4", gk, pos(c, gr.stmt), "cannot resolve the function the goroutine runs")
				continue
			}
			c.Analysed(gr.body, gr.host)
			bg := gr.body.Graph()
			dones := s.wgCalls(gr.body, c19WgDone, "")
			refSet := map[string]bool{}
			for _, h := range dones {
				refSet[s.ref1(gr.body, core.RecvExpr(h.N.(*ast.CallExpr)))] = true
			}
			if len(refSet) != 1 {
				c.Fail("C19-R4", gk+"|counted", pos(c, gr.stmt), fmt.Sprintf("the goroutine calls Done on %d WaitGroups %v: nothing can wait for it (or it releases two waiters), so shutdown either hangs or returns before the goroutine's lines are processed", len(refSet), sortedKeys(refSet)))
				continue
			}
			ref := sortedKeys(refSet)[0]
			wgOf[gk] = ref
			gk2 := gk + "|wg=" + ref
			if tr, found := c19Search(bg, nil, core.ExitPoints(normalExits(bg)), core.HitPoints(dones), nil); found {
				c.Fail("C19-R4", gk2+"|Done", pos(c, gr.stmt), "the goroutine can end without calling Done on "+ref+": Wait on it blocks for ever and the one-shot run does not return", tr...)
			} else {
				c.Ok("C19-R4", gk2+"|Done", pos(c, gr.stmt), "Done on every way out")
			}
			hp, ok := gr.host.Graph().PointOf(gr.stmt)
			if !ok {
				c.Undecided("C19-R4", gk2+"|Add", pos(c, gr.stmt), "go statement not found in the CFG")
				continue
			}
			if tr, ok := s.addBefore(gr.host, hp, ref); !ok {
				c.Fail("C19-R4", gk2+"|Add", pos(c, gr.stmt), "the goroutine is started on a path that has not called Add on "+ref+": Wait can return before the goroutine has run, so the run ends with lines unprocessed (or Done panics)", tr...)
			} else {
				c.Ok("C19-R4", gk2+"|Add", pos(c, gr.stmt), "Add precedes go")
			}
		}
	}
	c.Extra["c19_goroutine_waitgroups"] = wgOf

	tn := c.MustFn("C19-R4", c19TailerNew)
	rn := c.MustFn("C19-R4", c19RuntimeNew)
	if tn == nil || rn == nil {
		return
	}

	// (b) tailer.New
	tailerWG := ""
	if tp := c.Prog.Fn(c19TailPath); tp != nil {
		for i, h := range tp.Graph().CallsTo(c19LogstreamNew) {
			call := h.N.(*ast.CallExpr)
			ln := c.Prog.Fn(c19LogstreamNew)
			if ln == nil {
				continue
			}
			for _, pi := range c19ParamsOfType(ln, func(t types.Type) bool {
				p, ok := t.(*types.Pointer)
				return ok && c19IsNamed(p.Elem(), "sync", "WaitGroup")
			}) {
				tailerWG = s.ref1(tp, call.Args[pi])
				c.Ok("C19-R4", fmt.Sprintf("%s|logstream.New call#%d wg", c19TailPath, i+1), pos(c, call), "streams are counted in "+tailerWG)
			}
		}
	}
	if tailerWG == "" {
		c.Undecided("C19-R4", c19TailPath+"|stream WaitGroup", "-", "cannot find the WaitGroup TailPath hands to logstream.New")
		return
	}
	for k, ref := range wgOf {
		if strings.HasPrefix(k, c19FsStream+"|") || strings.HasPrefix(k, c19TailPath+"|") || strings.HasPrefix(k, c19PollPattern+"|") {
			c.Verdict(ref == tailerWG, "C19-R4", k+"|in tailer WaitGroup", "-", "counted in "+tailerWG, "this goroutine is counted in "+ref+", not in the WaitGroup the tailer waits on before cancelling and closing ("+tailerWG+"): the shared channel can be closed while the goroutine still has lines to send")
		}
	}
	var ctxRef, cancelRef string
	core.InspectNoLit(tn.Body, func(n ast.Node) bool {
		if as, ok := n.(*ast.AssignStmt); ok && len(as.Lhs) == 2 && len(as.Rhs) == 1 {
			if call, ok := core.Unparen(as.Rhs[0]).(*ast.CallExpr); ok && tn.CalleeID(call) == "context.WithCancel" {
				ctxRef, cancelRef = s.ref1(tn, as.Lhs[0]), s.ref1(tn, as.Lhs[1])
			}
		}
		return true
	})
	var linesParam types.Object
	for _, pi := range c19ParamsOfType(tn, c19IsChan) {
		linesParam = c19ParamObjAt(tn, pi)
	}
	nCancel, nClose := 0, 0
	initRefs := s.closedIn(tn)
	for _, lf := range goLits(c, tn) {
		lg := lf.Graph()
		exits := core.ExitPoints(normalExits(lg))
		bl := s.blocking(lf)
		cancels := lg.Find(func(n ast.Node) bool {
			call, ok := n.(*ast.CallExpr)
			if !ok {
				return false
			}
			t := lf.Info().TypeOf(call.Fun)
			return t != nil && c19IsNamed(t, "context", "CancelFunc") && s.ref1(lf, call.Fun) == cancelRef && cancelRef != ""
		})
		cls := s.events(lf, func(h *core.Func, call *ast.CallExpr) bool {
			if h.CalleeID(call) != "builtin.close" || len(call.Args) != 1 {
				return false
			}
			o := s.chanObj(h.Info(), call.Args[0])
			return o != nil && s.same(o, linesParam)
		})
		check := func(kind string, evs []core.Hit, allowed func(c19Blk) bool, failEnd, failWait string) {
			key := lf.Key + "|" + kind
			if tr, found := c19Search(lg, nil, exits, core.HitPoints(evs), nil); found {
				c.Fail("C19-R4", key+"|always", pos(c, lf.Lit), failEnd, tr...)
			} else {
				c.Ok("C19-R4", key+"|always", pos(c, lf.Lit), "on every path")
			}
			bad := false
			for _, b := range bl {
				if allowed(b) {
					continue
				}
				if tr, found := c19Search(lg, nil, []core.Point{b.P}, core.HitPoints(evs), nil); found {
					bad = true
					c.Fail("C19-R4", key+"|waits only for the streams", pos(c, b.N), failWait+" ("+b.String()+")", tr...)
				}
			}
			if !bad {
				c.Ok("C19-R4", key+"|waits only for the streams", pos(c, lf.Lit), "no other wait before it")
			}
		}
		if len(cancels) > 0 {
			nCancel++
			check("cancel", cancels, func(b c19Blk) bool {
				return (b.What == "recv" && initRefs[b.Ref]) || (b.What == "wait" && b.Ref == tailerWG)
			}, "the tailer's watcher goroutine can end without cancelling the tailer: nothing else cancels it in a one-shot run, so the output channel is never closed and the run does not return",
				"before cancelling, the tailer's watcher waits for something that a finished one-shot run does not provide")
			waitsPts := core.HitPoints(s.wgCalls(lf, c19WgWait, tailerWG))
			if tr, found := c19Search(lg, nil, core.HitPoints(cancels), waitsPts, nil); found {
				c.Note("C19-R4", lf.Key+"|cancel|after Wait", pos(c, lf.Lit), "the tailer can be cancelled before its streams are done (not needed for one-shot file streams, which read on to end of file): "+strings.Join(tr, " > "))
			}
		}
		if len(cls) > 0 {
			nClose++
			check("close output", cls, func(b c19Blk) bool {
				return (b.What == "recv" && initRefs[b.Ref]) || (b.What == "wait" && b.Ref == tailerWG) ||
					(b.What == "recv" && b.Ref == "done("+ctxRef+")" && ctxRef != "")
			}, "the tailer's closing goroutine can end without closing the output channel: the loader's line loop never ends and the run does not return",
				"before closing the output channel the tailer waits for something other than init-done, its own cancellation and its streams")
			waitsPts := core.HitPoints(s.wgCalls(lf, c19WgWait, tailerWG))
			if tr, found := c19Search(lg, nil, core.HitPoints(cls), waitsPts, nil); found {
				c.Fail("C19-R4", lf.Key+"|close output|after Wait", pos(c, cls[0].N), "the output channel can be closed without first waiting for "+tailerWG+": a forwarder still holding a line then sends on a closed channel (panic) or the line is lost", tr...)
			} else {
				c.Ok("C19-R4", lf.Key+"|close output|after Wait", pos(c, cls[0].N), "Wait on "+tailerWG+" precedes the close")
			}
		}
	}
	switch {
	case nCancel == 1 && nClose == 1 && ctxRef != "":
		c.Ok("C19-R4", c19TailerNew+"|roles", pos(c, tn.Decl), "one cancelling and one closing goroutine, context "+ctxRef+" / cancel "+cancelRef)
	default:
		// is the cancel function called / the output channel closed anywhere else?
		otherCancel, otherClose := 0, len(s.closesOfClass(linesParam))
		for _, sf := range shipped(c) {
			sf := sf
			core.InspectNoLit(sf.Body, func(n ast.Node) bool {
				if call, ok := n.(*ast.CallExpr); ok && cancelRef != "" {
					if t := sf.Info().TypeOf(call.Fun); t != nil && c19IsNamed(t, "context", "CancelFunc") && s.ref1(sf, call.Fun) == cancelRef {
						otherCancel++
					}
				}
				return true
			})
		}
		if ctxRef == "" {
			c.Undecided("C19-R4", c19TailerNew+"|roles", pos(c, tn.Decl), "tailer.New does not derive its context and cancel function from one context.WithCancel call")
		} else if (nCancel == 0 && otherCancel == 0) || (nClose == 0 && otherClose == 0) {
			c.Fail("C19-R4", c19TailerNew+"|roles", pos(c, tn.Decl), fmt.Sprintf("shipped code calls the tailer's cancel function (%s) at %d places and closes the tailer's output channel at %d places: in a one-shot run nobody ends the tailer, the loader's line loop never ends and Server.Run never returns", cancelRef, otherCancel, otherClose))
		} else {
			c.Undecided("C19-R4", c19TailerNew+"|roles", pos(c, tn.Decl), fmt.Sprintf("expected one goroutine of tailer.New calling %s and one closing the output channel, found %d and %d (other sites: %d cancels, %d closes)", cancelRef, nCancel, nClose, otherCancel, otherClose))
		}
	}

	// (d) init-done
	c19InitDone(s, tn)
	c19InitDone(s, rn)

	c19R4Runtime(s, rn)
	c19R4Server(s, tn, rn)
	c.Floor("C19-R4", 38)
}

// c19InitDone: a channel the goroutines of f receive from and f itself closes (the init-done idiom) is closed on every return of f that follows a go statement.
func c19InitDone(s *c19State, f *core.Func) {
	c := s.c
	g := f.Graph()
	refs := map[string]bool{}
	closed := s.closedIn(f)
	for _, lf := range f.Lits {
		for _, b := range s.blocking(lf) {
			if b.What == "recv" && closed[b.Ref] {
				refs[b.Ref] = true
			}
		}
	}
	if len(refs) == 0 {
		c.Undecided("C19-R4", f.Key+"|init-done", pos(c, f.Decl), "the goroutines started here do not wait for an init-done channel")
		return
	}
	for _, ref := range sortedKeys(refs) {
		var cls []core.Point
		for _, h := range g.CallsTo("builtin.close") {
			if s.ref1(f, h.N.(*ast.CallExpr).Args[0]) == ref {
				cls = append(cls, h.P)
			}
		}
		var gos []core.Point
		for _, gs := range c19GoStmts(f) {
			if p, ok := g.PointOf(gs); ok {
				gos = append(gos, p)
			}
		}
		// deferred literals that start goroutines
		core.InspectNoLit(f.Body, func(n ast.Node) bool {
			if ds, ok := n.(*ast.DeferStmt); ok {
				if lit, ok := core.Unparen(ds.Call.Fun).(*ast.FuncLit); ok {
					if lf := c.Prog.FuncOf[lit]; lf != nil && len(c19GoStmts(lf)) > 0 {
						if p, ok := g.PointOf(ds); ok {
							gos = append(gos, p)
						}
					}
				}
			}
			return true
		})
		key := f.Key + "|init-done " + ref
		bad := false
		for _, gp := range gos {
			gp := gp
			_, toGo := c19Search(g, nil, []core.Point{gp}, cls, nil)
			tr, toExit := c19Search(g, &gp, core.ExitPoints(normalExits(g)), cls, nil)
			if toGo && toExit {
				bad = true
				c.Fail("C19-R4", key, ppos(c, gp, f), "the function can return after starting a goroutine without closing "+ref+": the goroutine waits for it for ever, and so does everything that joins it", tr...)
				break
			}
		}
		if !bad {
			c.Ok("C19-R4", key, pos(c, f.Decl), fmt.Sprintf("closed on every return that follows one of %d go statements", len(gos)))
		}
	}
}

// closedIn lists the refs of the channels that f's own body closes (directly or by defer).
func (s *c19State) closedIn(f *core.Func) map[string]bool {
	out := map[string]bool{}
	for _, h := range f.Graph().CallsTo("builtin.close") {
		if r := s.ref1(f, h.N.(*ast.CallExpr).Args[0]); r != "" {
			out[r] = true
		}
	}
	return out
}

// c19R4Runtime: links (c) and (e).
func c19R4Runtime(s *c19State, rn *core.Func) {
	c := s.c
	initRefs := s.closedIn(rn)
	var fan, sig, rel []*core.Func
	gors := c19Goroutines(c, rn)
	loaderWG := ""
	for _, gr := range gors {
		if gr.body == nil || gr.body.Lit == nil {
			continue
		}
		lf := gr.body
		if c19LineLoop(lf) != nil {
			fan = append(fan, lf)
			for _, h := range s.wgCalls(lf, c19WgDone, "") {
				loaderWG = s.ref1(lf, core.RecvExpr(h.N.(*ast.CallExpr)))
			}
		}
	}
	for _, gr := range gors {
		if gr.body == nil || gr.body.Lit == nil || c19LineLoop(gr.body) != nil {
			continue
		}
		lf := gr.body
		hasSel := false
		for _, b := range s.blocking(lf) {
			if b.What == "select" {
				hasSel = true
			}
		}
		if hasSel {
			sig = append(sig, lf)
		} else if len(s.wgCalls(lf, c19WgWait, "")) > 0 {
			rel = append(rel, lf)
		}
	}
	if len(fan) != 1 || loaderWG == "" {
		c.Undecided("C19-R4", c19RuntimeNew+"|fan-out", pos(c, rn.Decl), fmt.Sprintf("expected one goroutine with the line loop counted in one WaitGroup, found %d", len(fan)))
		return
	}
	ff := fan[0]
	fg := ff.Graph()
	rs := c19LineLoop(ff)
	_, _, done := loopBlocks(fg, rs)
	if done == nil {
		c.Undecided("C19-R4", ff.Key+"|after the loop", pos(c, rs), "loop exit not found in the CFG")
		return
	}
	after := &core.Point{B: done, I: -1}
	fexits := core.ExitPoints(normalExits(fg))

	// the reload goroutine(s) end on a channel the fan-out closes
	for _, lf := range sig {
		c.Analysed(lf)
		lg := lf.Graph()
		bl := s.blocking(lf)
		for i, b := range bl {
			if b.What != "select" {
				if b.What == "recv" && initRefs[b.Ref] {
					continue
				}
				if _, found := c19Search(lg, nil, []core.Point{b.P}, nil, nil); found {
					c.Fail("C19-R4", fmt.Sprintf("%s|wait#%d", lf.Key, i+1), pos(c, b.N), "a goroutine counted in the loader's WaitGroup waits on "+b.String()+", which the end of a one-shot run does not release: Server.Run never returns")
				}
				continue
			}
			sel := b.N.(*ast.SelectStmt)
			key := fmt.Sprintf("%s|select#%d", lf.Key, i+1)
			okExit := ""
			for _, cl := range sel.Body.List {
				cc := cl.(*ast.CommClause)
				var rcv *ast.UnaryExpr
				if cc.Comm != nil {
					ast.Inspect(cc.Comm, func(n ast.Node) bool {
						if u, ok := n.(*ast.UnaryExpr); ok && u.Op == token.ARROW {
							rcv = u
						}
						return true
					})
				}
				if rcv == nil {
					continue
				}
				ro := s.chanObj(lf.Info(), rcv.X)
				if ro == nil {
					continue
				}
				// the fan-out closes this channel on every path after its loop
				var cls []core.Point
				for _, h := range fg.CallsTo("builtin.close") {
					if o := s.chanObj(ff.Info(), h.N.(*ast.CallExpr).Args[0]); o != nil && s.same(o, ro) {
						cls = append(cls, h.P)
					}
				}
				if len(cls) == 0 {
					continue
				}
				if _, found := c19Search(fg, after, fexits, cls, nil); found {
					continue
				}
				// the clause body returns without waiting again
				var start *core.Point
				for _, blk := range lg.C.Blocks {
					if blk.Kind == cfg.KindSelectCaseBody && blk.Stmt == ast.Stmt(cc) {
						start = &core.Point{B: blk, I: -1}
					}
				}
				if start == nil {
					continue
				}
				waits := c19Pts(bl, nil)
				if _, found := c19Search(lg, start, waits, core.ExitPoints(normalExits(lg)), nil); found {
					continue
				}
				okExit = s.className(ro)
			}
			c.Verdict(okExit != "", "C19-R4", key+"|ends with the loader", pos(c, sel), "returns when "+okExit+" is closed, which the fan-out does on every path after its loop",
				"no case of this select both receives from a channel that the fan-out closes on every path after the line loop and returns: the reload goroutine outlives the run, the loader's WaitGroup never drains and Server.Run never returns")
		}
	}
	if len(sig) == 0 {
		c.Note("C19-R4", c19RuntimeNew+"|reload goroutine", pos(c, rn.Decl), "no goroutine with a select found in runtime.New")
	}

	// every handle's channel is closed after the loop
	{
		key := ff.Key + "|closes every VM channel"
		var loops []*ast.RangeStmt
		core.InspectNoLit(ff.Body, func(n ast.Node) bool {
			if in, ok := n.(*ast.RangeStmt); ok && in.Pos() > rs.End() {
				if _, isMap := ff.Info().TypeOf(in.X).Underlying().(*types.Map); isMap {
					loops = append(loops, in)
				}
			}
			return true
		})
		good := false
		why := "after the line loop there is no loop over the handle map that closes the visited handle's channel"
		for _, in := range loops {
			var cls []core.Point
			for _, h := range fg.CallsTo("builtin.close") {
				call := h.N.(*ast.CallExpr)
				if call.Pos() > in.Body.Pos() && call.End() < in.Body.End() && isChanOfLogLine(ff.Info(), call.Args[0]) && c19HandleChan(s, ff, in, call.Args[0]) {
					cls = append(cls, h.P)
				}
			}
			if len(cls) == 0 {
				continue
			}
			p, ok := fg.PointOf(in.X)
			if !ok {
				continue
			}
			if tr, found := c19Search(fg, after, fexits, []core.Point{p}, nil); found {
				why = "after the line loop the goroutine can end without entering the loop that closes the VM channels (" + strings.Join(tr, " > ") + ")"
				continue
			}
			cnt, okc := iterationCount(fg, in, cls)
			if !okc || cnt.Min != 1 {
				why = "the loop over the handle map closes the visited handle's channel " + cnt.String() + " times per handle"
				continue
			}
			if ee := earlyLoopExits(c, fg, in); len(ee) > 0 {
				why = "the loop that closes the VM channels can be left early: " + ee[0]
				continue
			}
			good = true
		}
		c.Verdict(good, "C19-R4", key, pos(c, rs), "every handle's channel is closed on every path after the line loop", why+": a VM's loop over its channel never ends, the loader's WaitGroup never drains and Server.Run never returns")
	}

	// the goroutine that releases the server's WaitGroup
	nrel := 0
	for _, lf := range rel {
		dones := s.wgCalls(lf, c19WgDone, "")
		if len(dones) == 0 {
			continue
		}
		outer := s.ref1(lf, core.RecvExpr(dones[0].N.(*ast.CallExpr)))
		if outer == loaderWG {
			continue
		}
		nrel++
		c.Analysed(lf)
		lg := lf.Graph()
		key := lf.Key + "|release " + outer
		waits := core.HitPoints(s.wgCalls(lf, c19WgWait, loaderWG))
		var targets []core.Point
		for _, d := range dones {
			if d.InDefer {
				targets = core.ExitPoints(normalExits(lg))
				break
			}
			targets = append(targets, d.P)
		}
		if tr, found := c19Search(lg, nil, targets, waits, nil); found {
			c.Fail("C19-R4", key+"|after Wait", pos(c, lf.Lit), "the loader releases "+outer+" without first waiting for "+loaderWG+": Server.Run can return while VMs are still processing lines, so the final metrics miss lines", tr...)
		} else {
			c.Ok("C19-R4", key+"|after Wait", pos(c, lf.Lit), "Wait on "+loaderWG+" precedes Done on "+outer)
		}
		bad := false
		for _, b := range s.blocking(lf) {
			if (b.What == "recv" && initRefs[b.Ref]) || (b.What == "wait" && b.Ref == loaderWG) {
				continue
			}
			bad = true
			c.Fail("C19-R4", key+"|waits only for the loader", pos(c, b.N), "the goroutine that releases the server's WaitGroup also waits on "+b.String()+", which the end of a one-shot run does not provide")
		}
		if !bad {
			c.Ok("C19-R4", key+"|waits only for the loader", pos(c, lf.Lit), "waits for init-done and "+loaderWG+" only")
		}
	}
	c.Verdict(nrel == 1, "C19-R4", c19RuntimeNew+"|release goroutine", pos(c, rn.Decl), "one goroutine joins the loader's WaitGroup to the server's",
		fmt.Sprintf("%d goroutines in runtime.New wait for %s and then release the caller's WaitGroup (want 1): the server cannot wait for the VMs", nrel, loaderWG))

	// (e) CompileAndRun
	if car := c.MustFn("C19-R4", c19CompileRun); car != nil {
		vr := c.Prog.Fn(c19VMRun)
		for i, gr := range c19Goroutines(c, car) {
			if gr.body == nil || gr.body != vr {
				continue
			}
			key := fmt.Sprintf("%s|go#%d VM channel", c19CompileRun, i+1)
			var handleField types.Object
			for fo, n := range s.fieldName {
				if strings.HasPrefix(n, "internal/runtime.vmHandle.") && c19IsChan(fo.Type()) {
					handleField = fo
				}
			}
			ok := false
			for _, a := range gr.stmt.Call.Args {
				if o := s.chanObj(gr.host.Info(), a); o != nil && handleField != nil && s.same(o, handleField) {
					ok = true
				}
			}
			c.Verdict(ok, "C19-R4", key, pos(c, gr.stmt), "VM.Run receives the channel stored in the handle", "the VM is started on a channel that is not the one stored in its handle: the fan-out's lines never reach it and nobody closes its channel")
		}
	}
}

// c19R4Server: link (f).
func c19R4Server(s *c19State, tn, rn *core.Func) {
	c := s.c
	run := c.MustFn("C19-R4", c19ServerRun)
	sn := c.MustFn("C19-R4", c19ServerNew)
	if run == nil || sn == nil {
		return
	}
	isWG := func(t types.Type) bool {
		p, ok := t.(*types.Pointer)
		return ok && c19IsNamed(p.Elem(), "sync", "WaitGroup")
	}
	wgRef := map[string]string{}
	var chanObjs []types.Object
	for _, f := range []*core.Func{tn, rn} {
		for _, pi := range c19ParamsOfType(f, isWG) {
			if o := c19ParamObjAt(f, pi); o != nil {
				id := ast.NewIdent(o.Name())
				_ = id
				// resolve through the call sites
				set := map[string]bool{}
				for _, st := range s.sitesOf(f) {
					for _, r := range s.refs(st.f, st.call.Args[pi]) {
						set[r] = true
					}
				}
				wgRef[f.Key] = strings.Join(sortedKeys(set), "|")
			}
		}
		for _, pi := range c19ParamsOfType(f, c19IsChan) {
			chanObjs = append(chanObjs, c19ParamObjAt(f, pi))
		}
	}
	same := wgRef[tn.Key] != "" && wgRef[tn.Key] == wgRef[rn.Key]
	c.Verdict(same, "C19-R4", "server|one WaitGroup", pos(c, sn.Decl), "tailer.New and runtime.New both receive "+wgRef[tn.Key],
		fmt.Sprintf("tailer.New is counted in %q and runtime.New in %q: Server.Run cannot wait for both", wgRef[tn.Key], wgRef[rn.Key]))
	c.Verdict(len(chanObjs) == 2 && s.same(chanObjs[0], chanObjs[1]), "C19-R4", "server|one line channel", pos(c, sn.Decl), "tailer output and loader input are the same channel ("+s.className(chanObjs[0])+")",
		"the channel the tailer sends on and closes is not the one the loader ranges over: no line reaches a program and the loader never ends")
	g := run.Graph()
	waits := core.HitPoints(s.wgCalls(run, c19WgWait, wgRef[tn.Key]))
	if tr, found := c19Search(g, nil, core.ExitPoints(normalExits(g)), waits, nil); found {
		c.Fail("C19-R4", c19ServerRun+"|waits", pos(c, run.Decl), "Server.Run can return without Wait on "+wgRef[tn.Key]+": the one-shot run ends before every line is processed", tr...)
	} else {
		c.Ok("C19-R4", c19ServerRun+"|waits", pos(c, run.Decl), "Wait on "+wgRef[tn.Key]+" on every path")
	}
	for _, b := range s.blocking(run) {
		if b.What == "wait" && b.Ref == wgRef[tn.Key] {
			continue
		}
		c.Fail("C19-R4", c19ServerRun+"|waits only for the pipeline", pos(c, b.N), "Server.Run also waits on "+b.String()+", which a finished one-shot run does not release")
	}
	// mtail.New starts both components before succeeding
	ng := sn.Graph()
	var okRets []core.Point
	for _, e := range normalExits(ng) {
		if e.Kind == "return" && returnsNil(sn.Info(), e.Ret) {
			okRets = append(okRets, e.P)
		}
	}
	for _, k := range []string{c19InitRuntime, c19InitTailer} {
		calls := core.HitPoints(ng.CallsTo(k))
		if tr, found := c19Search(ng, nil, okRets, calls, nil); found || len(okRets) == 0 {
			c.Fail("C19-R4", c19ServerNew+"|starts "+k, pos(c, sn.Decl), "mtail.New can succeed without calling "+k+": the pipeline is incomplete and Run returns at once or never", tr...)
		} else {
			c.Ok("C19-R4", c19ServerNew+"|starts "+k, pos(c, sn.Decl), "called on every successful path")
		}
	}
}

// ---------------------------------------------------------------------------
// R5: the reader always offers Read a non-empty slice
// ---------------------------------------------------------------------------

// c19Lin is a linear form over the atoms L=len(buf), K=cap(buf), S=size.
type c19Lin struct {
	l, k, s, d int64
	ok         bool
}

func (a c19Lin) add(b c19Lin, sign int64) c19Lin {
	return c19Lin{a.l + sign*b.l, a.k + sign*b.k, a.s + sign*b.s, a.d + sign*b.d, a.ok && b.ok}
}

func (a c19Lin) String() string {
	var parts []string
	add := func(c int64, n string) {
		if c != 0 {
			parts = append(parts, fmt.Sprintf("%+d*%s", c, n))
		}
	}
	add(a.l, "len")
	add(a.k, "cap")
	add(a.s, "size")
	if a.d != 0 || len(parts) == 0 {
		parts = append(parts, fmt.Sprintf("%+d", a.d))
	}
	return strings.Join(parts, "")
}

type c19LinCtx struct {
	f       *core.Func
	s       *c19State
	bufRef  string
	sizeRef string
	depth   int
}

func (lc *c19LinCtx) lin(e ast.Expr) c19Lin {
	info := lc.f.Info()
	e = core.Unparen(e)
	if v, ok := constInt(info, e); ok {
		return c19Lin{d: v, ok: true}
	}
	switch x := e.(type) {
	case *ast.BinaryExpr:
		a, b := lc.lin(x.X), lc.lin(x.Y)
		switch x.Op {
		case token.ADD:
			return a.add(b, 1)
		case token.SUB:
			return a.add(b, -1)
		case token.MUL:
			if a.ok && a.l == 0 && a.k == 0 && a.s == 0 {
				return c19Lin{b.l * a.d, b.k * a.d, b.s * a.d, b.d * a.d, b.ok}
			}
			if b.ok && b.l == 0 && b.k == 0 && b.s == 0 {
				return c19Lin{a.l * b.d, a.k * b.d, a.s * b.d, a.d * b.d, a.ok}
			}
		}
	case *ast.CallExpr:
		if id, ok := core.Unparen(x.Fun).(*ast.Ident); ok && len(x.Args) == 1 {
			if b, isB := info.Uses[id].(*types.Builtin); isB && lc.s.ref1(lc.f, x.Args[0]) == lc.bufRef {
				switch b.Name() {
				case "len":
					return c19Lin{l: 1, ok: true}
				case "cap":
					return c19Lin{k: 1, ok: true}
				}
			}
		}
	case *ast.SelectorExpr:
		if lc.s.ref1(lc.f, x) == lc.sizeRef {
			return c19Lin{s: 1, ok: true}
		}
	case *ast.Ident:
		if o := identObj(info, x); o != nil && lc.depth < 4 {
			if d := c19SingleDef(lc.f, o); d != nil {
				lc.depth++
				r := lc.lin(d)
				lc.depth--
				return r
			}
		}
	}
	return c19Lin{}
}

func c19R5(s *c19State) {
	c := s.c
	c.Rule("C19-R5", "READ-PROGRESS: in LineReader.ReadAndSend the slice handed to Read is buf[len(buf):cap(buf)]; on every path to the Read either the test `cap(buf)-len(buf) < size` was false or buf was replaced by append(make([]byte, 0, C), buf...) with a linear C for which C - len(buf) >= size holds for EVERY buffer state 0 <= len <= cap with cap-len < size and size >= 1 (decided exactly on the coefficients); every caller of NewLineReader passes a positive constant size. Otherwise Read can be given an empty slice, returns (0, nil) for ever and a one-shot stream never reaches end of file")
	f := c.MustFn("C19-R5", c19ReadAndSend)
	if f == nil {
		return
	}
	g := f.Graph()
	var read *ast.CallExpr
	var readP core.Point
	nread := 0
	for _, h := range g.Calls(func(id string, call *ast.CallExpr) bool {
		return id == "io.Reader.Read" || strings.HasSuffix(id, ".Read")
	}) {
		read, readP = h.N.(*ast.CallExpr), h.P
		nread++
	}
	if nread != 1 || len(read.Args) != 1 {
		c.Undecided("C19-R5", c19ReadAndSend+"|read", pos(c, f.Decl), fmt.Sprintf("expected one Read call, found %d", nread))
		return
	}
	sl, ok := core.Unparen(read.Args[0]).(*ast.SliceExpr)
	if !ok || sl.Low == nil || sl.High == nil {
		c.Undecided("C19-R5", c19ReadAndSend+"|read", pos(c, read), "the argument of Read is not a slice expression buf[lo:hi]")
		return
	}
	bufRef := s.ref1(f, sl.X)
	// the size field: the int field of the reader other than the offset, used in the guard; found below
	lcFor := func(sizeRef string) *c19LinCtx { return &c19LinCtx{f: f, s: s, bufRef: bufRef, sizeRef: sizeRef} }
	lo, hi := lcFor("").lin(sl.Low), lcFor("").lin(sl.High)
	if !(lo.ok && hi.ok && lo == (c19Lin{l: 1, ok: true}) && hi == (c19Lin{k: 1, ok: true})) {
		c.Undecided("C19-R5", c19ReadAndSend+"|read", pos(c, read), "the slice handed to Read is not buf[len(buf):cap(buf)]")
		return
	}
	c.Ok("C19-R5", c19ReadAndSend+"|read slice", pos(c, read), "Read receives "+bufRef+"[len:cap]")

	// the growth guard
	var guard *ast.IfStmt
	var sizeRef string
	for _, is := range ifsWhere(f, func(is *ast.IfStmt) bool { return is.Pos() < read.Pos() }) {
		be, ok := core.Unparen(is.Cond).(*ast.BinaryExpr)
		if !ok {
			continue
		}
		var room, size ast.Expr
		switch be.Op {
		case token.LSS:
			room, size = be.X, be.Y
		case token.GTR:
			room, size = be.Y, be.X
		default:
			continue
		}
		if _, isSel := core.Unparen(size).(*ast.SelectorExpr); !isSel {
			continue
		}
		sr := s.ref1(f, size)
		if r := lcFor(sr).lin(room); r.ok && r == (c19Lin{l: -1, k: 1, ok: true}) {
			guard, sizeRef = is, sr
		}
	}
	if guard == nil {
		c.Undecided("C19-R5", c19ReadAndSend+"|guard", pos(c, f.Decl), "no test of the form `cap(buf)-len(buf) < <size field>` before the Read")
		return
	}
	lc := lcFor(sizeRef)
	// assignments to buf inside the guard
	var grows []core.Hit
	var capExpr ast.Expr
	for _, h := range g.Find(func(n ast.Node) bool {
		as, ok := n.(*ast.AssignStmt)
		return ok && len(as.Lhs) == 1 && len(as.Rhs) == 1 && s.ref1(f, as.Lhs[0]) == bufRef && as.Pos() > guard.Body.Pos() && as.End() < guard.Body.End()
	}) {
		as := h.N.(*ast.AssignStmt)
		// append(make([]byte, 0, C), buf...)
		if call, ok := core.Unparen(as.Rhs[0]).(*ast.CallExpr); ok && f.CalleeID(call) == "builtin.append" && len(call.Args) == 2 && call.Ellipsis.IsValid() && s.ref1(f, call.Args[1]) == bufRef {
			if mk, ok := core.Unparen(call.Args[0]).(*ast.CallExpr); ok && f.CalleeID(mk) == "builtin.make" && len(mk.Args) == 3 {
				if z, isC := constInt(f.Info(), mk.Args[1]); isC && z == 0 {
					grows = append(grows, h)
					capExpr = mk.Args[2]
				}
			}
		}
	}
	if len(grows) != 1 {
		c.Undecided("C19-R5", c19ReadAndSend+"|growth", pos(c, guard), fmt.Sprintf("expected one `buf = append(make([]byte, 0, C), buf...)` inside the guard, found %d", len(grows)))
		return
	}
	// every path through the guard's true branch to the Read passes the growth
	if start, ok := branchStart(g, guard, true); ok {
		if tr, found := c19Search(g, start, []core.Point{readP}, core.HitPoints(grows), nil); found {
			c.Fail("C19-R5", c19ReadAndSend+"|growth on every path", pos(c, guard), "the buffer can be found too small and still reach Read without being grown: Read gets a slice shorter than size, possibly empty", tr...)
		} else {
			c.Ok("C19-R5", c19ReadAndSend+"|growth on every path", pos(c, guard), "the growth dominates the Read on the too-small branch")
		}
	}
	// every path to the Read passes the guard
	if cp, ok := g.PointOf(guard.Cond); ok {
		if tr, found := c19Search(g, nil, []core.Point{readP}, []core.Point{cp}, nil); found {
			c.Fail("C19-R5", c19ReadAndSend+"|guard on every path", pos(c, read), "Read can be reached without testing the room left in the buffer", tr...)
		} else {
			c.Ok("C19-R5", c19ReadAndSend+"|guard on every path", pos(c, read), "room tested before every Read")
		}
	}
	C := lc.lin(capExpr)
	key := c19ReadAndSend + "|room after growth"
	if !C.ok {
		c.Undecided("C19-R5", key, pos(c, capExpr), "the capacity "+exprStr(capExpr)+" is not linear in len(buf), cap(buf) and the size field")
	} else {
		// f = C - L - S over L=l, K=l+m, S=m+1+n, l,m,n >= 0
		fl, fk, fs, fd := C.l-1, C.k, C.s-1, C.d
		cl, cm, cn, c0 := fl+fk, fk+fs, fs, fs+fd
		c.Extra["c19_growth_capacity"] = map[string]any{"C": C.String(), "coefficients_over_l_m_n_const": []int64{cl, cm, cn, c0}}
		if cl >= 0 && cm >= 0 && cn >= 0 && c0 >= 0 {
			c.Ok("C19-R5", key, pos(c, capExpr), "C = "+C.String()+": C-len >= size for every buffer state")
		} else {
			// counterexample
			l, m, n := int64(0), int64(0), int64(0)
			switch {
			case c0 < 0:
			case cn < 0:
				n = (-c0)/(-cn) + 1
			case cm < 0:
				m = (-c0)/(-cm) + 1
			default:
				l = (-c0)/(-cl) + 1
			}
			L, K, S := l, l+m, m+1+n
			room := C.l*L + C.k*K + C.s*S + C.d - L
			// is a capacity-dropping reslice present?
			drops := false
			for _, sf := range shipped(c) {
				if sf.Decl.Recv == nil || f.Decl.Recv == nil || sf.Pkg != f.Pkg {
					continue
				}
				core.InspectNoLit(sf.Body, func(n ast.Node) bool {
					if as, ok := n.(*ast.AssignStmt); ok && len(as.Lhs) == 1 && len(as.Rhs) == 1 {
						if se, ok := core.Unparen(as.Rhs[0]).(*ast.SliceExpr); ok && se.Low != nil && s.ref1(sf, as.Lhs[0]) == bufRef && s.ref1(sf, se.X) == bufRef {
							if v, isC := constInt(sf.Info(), se.Low); !isC || v != 0 {
								drops = true
							}
						}
					}
					return true
				})
			}
			msg := fmt.Sprintf("the grown buffer's capacity C = %s does not always leave `size` bytes of room: with len(buf)=%d cap(buf)=%d size=%d the slice handed to Read has %d bytes", C.String(), L, K, S, room)
			if drops || K > 0 {
				c.Fail("C19-R5", key, pos(c, capExpr), msg+" (the buffer is resliced from its read offset after each read, so a read that fills it exactly and ends on a newline leaves len = cap = 0); Read then returns (0, nil) for ever, the one-shot stream never sees io.EOF, the rest of the file is never processed and the run does not return")
			} else {
				c.Undecided("C19-R5", key, pos(c, capExpr), msg+"; cannot show that this buffer state is reachable")
			}
		}
	}
	// positive size at every constructor call
	if nl := c.MustFn("C19-R5", c19NewLineReader); nl != nil {
		// which parameter initialises the size field?
		sizeIdx := -1
		ast.Inspect(nl.Body, func(n ast.Node) bool {
			if kv, ok := n.(*ast.KeyValueExpr); ok {
				if k, ok := kv.Key.(*ast.Ident); ok {
					if fo := nl.Info().Uses[k]; fo != nil && s.fieldName[fo] == sizeRef {
						if po := identObj(nl.Info(), kv.Value); po != nil {
							if _, idx := c19ParamOwner(nl, po); idx >= 0 {
								sizeIdx = idx
							}
						}
					}
				}
			}
			return true
		})
		if sizeIdx < 0 {
			c.Undecided("C19-R5", c19NewLineReader+"|size", pos(c, nl.Decl), "cannot find the parameter that initialises "+sizeRef)
		} else {
			for i, st := range s.sitesOf(nl) {
				v, isC := constInt(st.f.Info(), st.call.Args[sizeIdx])
				key := fmt.Sprintf("%s|NewLineReader call#%d size", st.f.Key, i+1)
				switch {
				case isC && v > 0:
					c.Ok("C19-R5", key, pos(c, st.call), fmt.Sprintf("size %d", v))
				case isC:
					c.Fail("C19-R5", key, pos(c, st.call), fmt.Sprintf("the reader is created with size %d: Read is always given an empty slice and no line is ever read", v))
				default:
					c.Undecided("C19-R5", key, pos(c, st.call), "the read size is not a constant")
				}
			}
		}
	}
	c.Floor("C19-R5", 7)
}

// ---------------------------------------------------------------------------
// R6: one stream per file — glob-derived keys are canonical
// ---------------------------------------------------------------------------

type c19Canon struct {
	status string // "canon", "raw", "unknown", "notglob"
	why    string
	glob   bool // the value derives from a filepath.Glob match
}

// canonAt classifies the string value of expression e evaluated at point p of f.
func (s *c19State) canonAt(f *core.Func, e ast.Expr, p core.Point, depth int) c19Canon {
	if depth > 8 {
		return c19Canon{status: "unknown", why: "derivation too deep"}
	}
	info := f.Info()
	e = core.Unparen(e)
	if call, ok := e.(*ast.CallExpr); ok {
		switch f.CalleeID(call) {
		case "path/filepath.Abs":
			inner := c19Canon{}
			if len(call.Args) == 1 {
				inner = s.canonAt(f, call.Args[0], p, depth+1)
			}
			return c19Canon{status: "canon", why: "result of filepath.Abs", glob: inner.glob}
		case "path/filepath.Clean":
			inner := s.canonAt(f, call.Args[0], p, depth+1)
			if inner.status == "canon" {
				return inner
			}
			return c19Canon{status: "unknown", why: "filepath.Clean of a path not known to be absolute", glob: inner.glob}
		}
		return c19Canon{status: "unknown", why: "result of " + f.CalleeID(call)}
	}
	if sel, ok := e.(*ast.SelectorExpr); ok {
		if fs, isField := info.Selections[sel]; isField && fs.Kind() == types.FieldVal {
			return s.canonField(fs.Obj(), depth)
		}
	}
	id, ok := e.(*ast.Ident)
	if !ok {
		return c19Canon{status: "unknown", why: "expression " + exprStr(e)}
	}
	obj := identObj(info, id)
	if obj == nil {
		return c19Canon{status: "unknown", why: "unresolved identifier"}
	}
	g := f.Graph()
	defs := c19Defs(f, obj)
	if f.Lit != nil && !(f.Lit.Pos() <= obj.Pos() && obj.Pos() < f.Lit.End()) {
		// captured variable: its value is the one it has where the literal is created
		for _, d := range defs {
			if f.Lit.Pos() <= d.Pos() && d.Pos() < f.Lit.End() {
				return c19Canon{status: "unknown", why: "captured variable " + obj.Name() + " is assigned inside the literal"}
			}
		}
		if f.Parent != nil {
			if pp, ok := f.Parent.Graph().PointOf(f.Lit); ok {
				return s.canonAt(f.Parent, id, pp, depth+1)
			}
		}
		return c19Canon{status: "unknown", why: "captured variable " + obj.Name()}
	}
	owner, idx := c19ParamOwner(f, obj)
	if owner == nil && f.Decl.Recv != nil {
		for _, fl := range f.Decl.Recv.List {
			for _, n := range fl.Names {
				if info.Defs[n] == obj {
					return c19Canon{status: "raw", why: "receiver value of " + f.Key + " (supplied by the caller / configuration)"}
				}
			}
		}
	}
	var defPts []core.Point
	type dp struct {
		n ast.Node
		p core.Point
	}
	var dps []dp
	for _, d := range defs {
		var q core.Point
		var ok bool
		if rs, isR := d.(*ast.RangeStmt); isR {
			// the loop variable is (re)defined on every iteration; the point where the ranged expression is evaluated stands for it
			q, ok = g.PointOf(rs.X)
		} else {
			q, ok = g.PointOf(d)
		}
		if !ok {
			return c19Canon{status: "unknown", why: "a definition of " + obj.Name() + " is not in this function's CFG"}
		}
		defPts = append(defPts, q)
		dps = append(dps, dp{d, q})
	}
	res := c19Canon{status: "canon"}
	merged := 0
	merge := func(r c19Canon) {
		merged++
		res.glob = res.glob || r.glob
		switch {
		case r.status == "raw":
			res.status, res.why = "raw", r.why
		case r.status == "unknown" && res.status != "raw":
			res.status, res.why = "unknown", r.why
		case res.why == "":
			res.why = r.why
		}
	}
	reachesFrom := func(from *core.Point) bool {
		if from != nil && from.B == p.B && from.I < p.I {
			// same block, later node: reached unless another def lies between
			for _, q := range defPts {
				if q.B == p.B && q.I > from.I && q.I < p.I {
					return false
				}
			}
			return true
		}
		_, found := g.Search(core.Query{From: from, Goal: core.At(p), Avoid: core.At(defPts...)})
		return found
	}
	// value on entry: a parameter of f, as passed by every call site
	if owner == f && reachesFrom(nil) {
		if f.Lit != nil {
			merge(c19Canon{status: "unknown", why: "parameter of a function literal"})
		} else {
			sites := s.sitesOf(f)
			if len(sites) == 0 {
				merge(c19Canon{status: "raw", why: "parameter " + obj.Name() + " of " + f.Key + " (as given by the caller / configuration)"})
			}
			for _, st := range sites {
				cp, ok := st.f.Graph().PointOf(st.call)
				if !ok || idx >= len(st.call.Args) {
					merge(c19Canon{status: "unknown", why: "call site of " + f.Key + " not in a CFG"})
					continue
				}
				merge(s.canonAt(st.f, st.call.Args[idx], cp, depth+1))
			}
		}
	}
	for _, d := range dps {
		from := d.p
		if !reachesFrom(&from) {
			continue
		}
		switch v := d.n.(type) {
		case *ast.RangeStmt:
			// element of a slice: where does the slice come from?
			r := s.canonAt(f, v.X, d.p, depth+1)
			merge(r)
		case *ast.AssignStmt:
			var rhs ast.Expr
			li := -1
			for i, l := range v.Lhs {
				if identObj(info, l) == obj {
					li = i
				}
			}
			if len(v.Lhs) == len(v.Rhs) && li >= 0 {
				rhs = v.Rhs[li]
			} else if len(v.Rhs) == 1 && li == 0 {
				rhs = v.Rhs[0] // first result of a call
			}
			if rhs == nil {
				merge(c19Canon{status: "unknown", why: "definition " + exprStr(v.Lhs[0]) + " not understood"})
				continue
			}
			if call, ok := core.Unparen(rhs).(*ast.CallExpr); ok && f.CalleeID(call) == "path/filepath.Glob" && len(call.Args) == 1 {
				r := s.canonAt(f, call.Args[0], d.p, depth+1)
				r.glob = true
				if r.status == "canon" {
					r.why = "match of filepath.Glob on a canonical pattern"
				}
				merge(r)
				continue
			}
			merge(s.canonAt(f, rhs, d.p, depth+1))
		case *ast.ValueSpec:
			done := false
			for i, n := range v.Names {
				if info.Defs[n] == obj && i < len(v.Values) {
					merge(s.canonAt(f, v.Values[i], d.p, depth+1))
					done = true
				}
			}
			if !done {
				merge(c19Canon{status: "unknown", why: "declared without a value"})
			}
		default:
			merge(c19Canon{status: "unknown", why: "definition not understood"})
		}
	}
	if merged == 0 {
		return c19Canon{status: "unknown", why: "no definition of " + obj.Name() + " reaches this use"}
	}
	return res
}

// canonField classifies the values stored in a struct field anywhere in shipped code.
func (s *c19State) canonField(fo types.Object, depth int) c19Canon {
	name := s.fieldName[fo]
	if name == "" {
		name = fo.Name()
	}
	res := c19Canon{status: "canon"}
	n := 0
	merge := func(r c19Canon) {
		n++
		res.glob = res.glob || r.glob
		switch {
		case r.status == "raw":
			res.status, res.why = "raw", "field "+name+" <- "+r.why
		case r.status == "unknown" && res.status != "raw":
			res.status, res.why = "unknown", r.why
		case res.why == "":
			res.why = r.why
		}
	}
	for _, sf := range shipped(s.c) {
		sf := sf
		core.InspectNoLit(sf.Body, func(x ast.Node) bool {
			switch v := x.(type) {
			case *ast.AssignStmt:
				if len(v.Lhs) != len(v.Rhs) {
					break
				}
				for i, l := range v.Lhs {
					if sel, ok := core.Unparen(l).(*ast.SelectorExpr); ok {
						if fs, isF := sf.Info().Selections[sel]; isF && fs.Obj() == fo {
							if p, ok := sf.Graph().PointOf(v); ok {
								merge(s.canonAt(sf, v.Rhs[i], p, depth+1))
							} else {
								merge(c19Canon{status: "unknown", why: "store to " + name + " outside a CFG"})
							}
						}
					}
				}
			case *ast.KeyValueExpr:
				if k, ok := v.Key.(*ast.Ident); ok && sf.Info().Uses[k] == fo {
					if p, ok := sf.Graph().PointOf(v); ok {
						merge(s.canonAt(sf, v.Value, p, depth+1))
					} else {
						merge(c19Canon{status: "unknown", why: "store to " + name + " outside a CFG"})
					}
				}
			}
			return true
		})
	}
	if n == 0 {
		return c19Canon{status: "raw", why: "field " + name + " is never assigned a canonical value"}
	}
	return res
}

func c19R6(s *c19State) {
	c := s.c
	c.Rule("C19-R6", "ONE-KEY-PER-FILE: at every call of TailPath whose argument derives from a filepath.Glob match, every definition of the argument that reaches the call — followed backwards through copies, loop variables, parameters (all call sites) and captured variables — is the result of filepath.Abs, or a match of filepath.Glob on a pattern that is. A spelling taken verbatim from the configuration can differ from the canonical name of the same file, the duplicate test in TailPath compares strings, and a second stream would deliver every line of the file again")
	tp := c.MustFn("C19-R6", c19TailPath)
	if tp == nil {
		return
	}
	n := 0
	for i, st := range s.sitesOf(tp) {
		cp, ok := st.f.Graph().PointOf(st.call)
		key := fmt.Sprintf("%s|TailPath call#%d", st.f.Key, i+1)
		if !ok || len(st.call.Args) != 1 {
			c.Undecided("C19-R6", key, pos(c, st.call), "call site not found in the CFG")
			continue
		}
		c.Analysed(st.f)
		r := s.canonAt(st.f, st.call.Args[0], cp, 0)
		if !r.glob {
			c.Note("C19-R6", key, pos(c, st.call), "the key does not come from a glob match (socket address or stdin): "+r.status+" "+r.why)
			continue
		}
		n++
		switch r.status {
		case "canon":
			c.Ok("C19-R6", key, pos(c, st.call), "glob-derived key is canonical: "+r.why)
		case "raw":
			c.Fail("C19-R6", key, pos(c, st.call), "a glob match can reach TailPath as a key spelled as in the configuration ("+r.why+"), never passed through filepath.Abs: a literal pattern such as /var/log//app.log or /var/log/./app.log is returned verbatim by filepath.Glob, does not equal the key /var/log/app.log under which another pattern already tails the same file, so a second stream is started and in a one-shot run every line of that file is processed twice")
		default:
			c.Undecided("C19-R6", key, pos(c, st.call), "cannot decide whether the glob-derived key is canonical: "+r.why)
		}
	}
	if n == 0 {
		c.Undecided("C19-R6", c19TailPath+"|glob keys", pos(c, tp.Decl), "no TailPath call with a glob-derived argument found")
	}
	c.Floor("C19-R6", 1)
}

// ---------------------------------------------------------------------------
// R7: a finished stream stays registered while patterns are still being added
// ---------------------------------------------------------------------------

func c19R7(s *c19State) {
	c := s.c
	c.Rule("C19-R7", "KEY-OUTLIVES-SETUP: the goroutine that TailPath starts removes the path from the stream map when the stream's channel closes. In one-shot mode a stream can finish while tailer.New is still adding the configured patterns, so with the one-shot field set every path from the goroutine's start to that delete must pass a receive from a channel that tailer.New closes only when it returns (or the delete must be unreachable in that mode); otherwise a later pattern matching the same file does not find it registered and streams it again from offset 0")
	tp := c.MustFn("C19-R7", c19TailPath)
	tn := c.MustFn("C19-R7", c19TailerNew)
	if tp == nil || tn == nil {
		return
	}
	mapRef := ""
	for _, h := range tp.Graph().Find(func(n ast.Node) bool {
		as, ok := n.(*ast.AssignStmt)
		if !ok || len(as.Lhs) != 1 {
			return false
		}
		_, isIdx := core.Unparen(as.Lhs[0]).(*ast.IndexExpr)
		return isIdx
	}) {
		ix := core.Unparen(h.N.(*ast.AssignStmt).Lhs[0]).(*ast.IndexExpr)
		if _, isMap := tp.Info().TypeOf(ix.X).Underlying().(*types.Map); isMap {
			mapRef = s.ref1(tp, ix.X)
		}
	}
	if mapRef == "" {
		c.Undecided("C19-R7", c19TailPath+"|stream map", pos(c, tp.Decl), "no insertion into a stream map found in TailPath")
		return
	}
	oneShotField := ""
	if ln := c.Prog.Fn(c19LogstreamNew); ln != nil {
		for _, h := range tp.Graph().CallsTo(c19LogstreamNew) {
			for _, pi := range c19ParamsOfType(ln, c19IsOneShotMode) {
				if fo := c19ExprObj(tp.Info(), h.N.(*ast.CallExpr).Args[pi]); fo != nil {
					oneShotField = s.fieldName[fo]
				}
			}
		}
	}
	initRefs := s.closedIn(tn)
	n := 0
	for _, lf := range goLits(c, tp) {
		lg := lf.Graph()
		dels := lg.Calls(func(id string, call *ast.CallExpr) bool {
			return id == "builtin.delete" && len(call.Args) == 2 && s.ref1(lf, call.Args[0]) == mapRef
		})
		if len(dels) == 0 {
			continue
		}
		c.Analysed(lf)
		vals := map[types.Object]c19V{}
		for fo, name := range s.fieldName {
			if name == oneShotField && name != "" {
				vals[fo] = c19V{kind: c19KBool, b: true}
			}
		}
		edge := (&c19Env{f: lf, vals: vals}).infeasible(lg)
		var gates []core.Point
		for _, b := range s.blocking(lf) {
			if b.What == "recv" && initRefs[b.Ref] {
				gates = append(gates, b.P)
			}
		}
		for i, d := range dels {
			n++
			key := fmt.Sprintf("%s|delete#%d from %s", lf.Key, i+1, mapRef)
			if tr, found := c19Search(lg, nil, []core.Point{d.P}, gates, edge); found {
				c.Fail("C19-R7", key, pos(c, d.N), "in one-shot mode the path is removed from "+mapRef+" as soon as its stream has read the file to the end, without waiting for tailer.New to finish adding patterns: when the same file is matched by a later pattern (a literal path and a glob, or a path listed twice) that pattern starts a second stream from offset 0 and every line of the file is processed again", tr...)
			} else {
				c.Ok("C19-R7", key, pos(c, d.N), "the key outlives the pattern set-up in one-shot mode")
			}
		}
	}
	if n == 0 {
		c.Undecided("C19-R7", c19TailPath+"|delete", pos(c, tp.Decl), "no goroutine of TailPath deletes from "+mapRef)
	}
	c.Floor("C19-R7", 1)
}
