package props

import (
	"fmt"
	"go/ast"
	"go/token"
	"go/types"

	"verif/sa/core"
)

// Deferred accounting.  `defer func() { if err != nil { Counter.Add(name, 1) } }()`
// moves a counter event from the return sites to the way out.  The rules that
// count events per exit (C25-R4) add, for every exit, what the deferred closures
// do on that exit; the truth of the closure's guard is decided from the
// returned expression and from the nil-ness of the guard variable on the paths
// that reach the exit.

// c25DeferredEv is a counter event inside a deferred closure of f.
type c25DeferredEv struct {
	ev     c25Ev
	at     core.Point   // the defer statement
	v      types.Object // guard variable (nil: unconditional)
	nonNil bool         // the event happens when v != nil
}

// c25Deferred finds the events of ce in the closures f defers.  undecided is
// non-empty when a deferred closure contains an event in a shape that is not
// followed.
func (ce *c25Events) deferred(f *core.Func) (out []c25DeferredEv, undecided string) {
	g := f.Graph()
	info := f.Info()
	core.InspectNoLit(f.Body, func(n ast.Node) bool {
		ds, ok := n.(*ast.DeferStmt)
		if !ok {
			return true
		}
		lit, ok := core.Unparen(ds.Call.Fun).(*ast.FuncLit)
		if !ok {
			return true
		}
		lf := ce.c.Prog.FuncOf[lit]
		if lf == nil {
			return true
		}
		evs, irr := ce.in(lf)
		if len(irr) > 0 {
			undecided = "a deferred closure calls a helper whose effect on " + ce.name + " differs between its paths"
			return true
		}
		if len(evs) == 0 {
			return true
		}
		at, okp := g.PointOf(ds)
		if !okp {
			undecided = "defer statement not found in the control-flow graph"
			return true
		}
		for _, ev := range evs {
			// the event's statement is either a top-level statement of the closure (unconditional) or the
			// only level of nesting is `if v != nil {…}` / `if v == nil {…} else {…}` on a variable of f
			ifs := lf.EnclosingIfs(ev.N.Pos())
			inLoop := false
			ast.Inspect(lit.Body, func(x ast.Node) bool {
				switch x.(type) {
				case *ast.ForStmt, *ast.RangeStmt, *ast.SwitchStmt, *ast.TypeSwitchStmt, *ast.SelectStmt:
					if x.Pos() <= ev.N.Pos() && ev.N.End() <= x.End() {
						inLoop = true
					}
				}
				return true
			})
			d := c25DeferredEv{ev: ev, at: at}
			switch {
			case inLoop || len(ifs) > 1:
				undecided = "a deferred closure counts " + ce.name + " inside a loop, switch or nested condition"
				continue
			case len(ifs) == 1:
				x, nonNilWhenTrue, okn := nilTest(info, ifs[0].If.Cond)
				if !okn || ifs[0].If.Init != nil {
					undecided = "a deferred closure counts " + ce.name + " under a condition other than a nil test of a variable: " + exprStr(ifs[0].If.Cond)
					continue
				}
				obj := identObj(info, x)
				if _, isVar := obj.(*types.Var); !isVar || obj.Parent() == nil || obj.Pkg() == nil || obj.Parent() == obj.Pkg().Scope() {
					undecided = "a deferred closure tests something other than a local variable or result of the function: " + exprStr(x)
					continue
				}
				d.v = obj
				d.nonNil = nonNilWhenTrue == ifs[0].InThen
			}
			out = append(out, d)
		}
		return true
	})
	return
}

// c25NilAt reports whether local v is known to be nil whenever control reaches
// p: every assignment to v can reach p only over an edge on which v was found
// nil (its declaration without a value leaves it nil).  ok=false: not known.
func c25NilAt(f *core.Func, v types.Object, p core.Point) bool {
	g := f.Graph()
	info := f.Info()
	// v must not be written by a nested literal or through its address
	bad := false
	ast.Inspect(f.Body, func(n ast.Node) bool {
		switch x := n.(type) {
		case *ast.UnaryExpr:
			if x.Op == token.AND && identObj(info, x.X) == v {
				bad = true
			}
		case *ast.FuncLit:
			if x != f.Lit {
				ast.Inspect(x.Body, func(y ast.Node) bool {
					if as, ok := y.(*ast.AssignStmt); ok {
						for _, l := range as.Lhs {
							if identObj(info, l) == v {
								bad = true
							}
						}
					}
					return true
				})
				return false
			}
		}
		return true
	})
	if bad {
		return false
	}
	ef := graphFacts(g, func(e ast.Expr) (condFact, bool) {
		x, nonNilWhenTrue, ok := nilTest(info, e)
		if !ok || identObj(info, x) != v {
			return condFact{}, false
		}
		return condFact{id: "v", val: "nil", eq: !nonNilWhenTrue}, true
	})
	nilEdge := ef.avoid(func(cf condFact) bool { return cf.id == "v" && cf.val == "nil" && cf.eq })
	assigns := g.Find(func(n ast.Node) bool {
		switch s := n.(type) {
		case *ast.AssignStmt:
			for _, l := range s.Lhs {
				if identObj(info, l) == v {
					return true
				}
			}
		case *ast.DeclStmt:
			if gd, ok := s.Decl.(*ast.GenDecl); ok {
				for _, sp := range gd.Specs {
					if vs, ok := sp.(*ast.ValueSpec); ok && len(vs.Values) > 0 {
						for _, nm := range vs.Names {
							if info.Defs[nm] == v {
								return true
							}
						}
					}
				}
			}
		case *ast.RangeStmt:
			if identObj(info, s.Key) == v || identObj(info, s.Value) == v {
				return true
			}
		}
		return false
	})
	for _, a := range assigns {
		// an assignment of the literal nil keeps it nil
		if as, ok := a.N.(*ast.AssignStmt); ok && len(as.Lhs) == len(as.Rhs) {
			allNil := true
			for i, l := range as.Lhs {
				if identObj(info, l) == v && !isNilIdent(info, as.Rhs[i]) {
					allNil = false
				}
			}
			if allNil {
				continue
			}
		}
		from := core.Point{B: a.P.B, I: a.P.I + 1}
		if a.P == p {
			return false
		}
		if _, found := g.Search(core.Query{From: &from, Goal: core.At(p), AvoidEdge: nilEdge}); found {
			return false
		}
	}
	// parameters and named results start with the caller's value / nil: only plain locals and results qualify
	if vv, ok := v.(*types.Var); ok && f.Type != nil && f.Type.Params != nil {
		for _, fl := range f.Type.Params.List {
			for _, nm := range fl.Names {
				if info.Defs[nm] == vv {
					return false
				}
			}
		}
	}
	return true
}

// c25DeferredAt is what the deferred events add to the count at exit e.
// undecided explains why the truth of a guard is not known at that exit.
func c25DeferredAt(f *core.Func, devs []c25DeferredEv, e core.Exit) (add core.Cnt, undecided string) {
	g := f.Graph()
	info := f.Info()
	for _, d := range devs {
		// does the defer statement lie on every path to the exit?
		if _, skips := g.Search(core.Query{Goal: core.At(e.P), Avoid: core.At(d.at)}); skips {
			if _, passes := g.Search(core.Query{From: &d.at, Goal: core.At(e.P)}); passes {
				return add, "the exit is reached both with and without the defer statement"
			}
			continue
		}
		if d.v == nil {
			add.Min++
			add.Max++
			continue
		}
		// truth of `v != nil` when the closure runs
		var nonNil, known bool
		isResult := false
		if f.Type != nil && f.Type.Results != nil {
			for _, fl := range f.Type.Results.List {
				for _, nm := range fl.Names {
					if info.Defs[nm] == d.v {
						isResult = true
					}
				}
			}
		}
		var last ast.Expr
		if e.Ret != nil && len(e.Ret.Results) > 0 {
			last = e.Ret.Results[len(e.Ret.Results)-1]
		}
		switch {
		case isResult && last != nil:
			nonNil, known = !returnsNil(info, e.Ret), true // `return x` assigns the result
		case last != nil && identObj(info, last) == d.v:
			nonNil, known = true, true // the exit returns the guard variable: the closure sees what the caller sees
			if returnsNil(info, e.Ret) {
				nonNil = false
			}
		case c25NilAt(f, d.v, e.P):
			nonNil, known = false, true
		}
		if !known {
			return add, fmt.Sprintf("whether %s is nil when the deferred closure runs is not known at this exit", d.v.Name())
		}
		if nonNil == d.nonNil {
			add.Min++
			add.Max++
		}
	}
	return add, ""
}

func c25AddCnt(a, b core.Cnt) core.Cnt {
	r := core.Cnt{Min: a.Min + b.Min, Max: a.Max + b.Max}
	if r.Min > 2 {
		r.Min = 2
	}
	if r.Max > 2 {
		r.Max = 2
	}
	return r
}
