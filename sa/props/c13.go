package props

import (
	"fmt"
	"go/ast"
	"go/constant"
	"go/token"
	"go/types"
	"os"
	"sort"
	"strings"

	"golang.org/x/tools/go/cfg"

	"verif/sa/core"
)

func init() { register("C13", c13) }

const (
	c13Collect     = "internal/exporter.(*Exporter).Collect"
	c13StoreRange  = "internal/metrics.(*Store).Range"
	c13EmitSets    = "internal/metrics.(*Metric).EmitLabelSets"
	c13Zip         = "internal/metrics.zip"
	c13Prom        = "github.com/prometheus/client_golang/prometheus."
	c13NewDesc     = c13Prom + "NewDesc"
	c13ConstMetric = c13Prom + "NewConstMetric"
	c13ConstHist   = c13Prom + "NewConstHistogram"
	c13MustMetric  = c13Prom + "MustNewConstMetric"
	c13MustHist    = c13Prom + "MustNewConstHistogram"
	c13WithTS      = c13Prom + "NewMetricWithTimestamp"
	c13DatumPkg    = "internal/metrics/datum"
	c13GetCount    = c13DatumPkg + ".GetBucketsCount"
	c13GetSum      = c13DatumPkg + ".GetBucketsSum"
	c13GetCum      = c13DatumPkg + ".GetBucketsCumByMax"
	c13BucketsGet  = c13DatumPkg + ".(*Buckets).GetBuckets"
	c13TimeUTC     = c13DatumPkg + ".Datum.TimeUTC"
)

// ---------------------------------------------------------------------------
// definitions of local variables and expression resolution
// ---------------------------------------------------------------------------

// c13def is one write to a local variable.
type c13def struct {
	node ast.Node    // *ast.AssignStmt, *ast.ValueSpec, *ast.RangeStmt, *ast.IncDecStmt
	rhs  ast.Expr    // the value when the write is 1:1; the call for a tuple assignment; nil otherwise
	idx  int         // result index for a tuple assignment, else -1
	tok  token.Token // token of the assignment (DEFINE, ASSIGN, ADD_ASSIGN, VAR for a declaration, RANGE)
}

func c13collectDefs(info *types.Info, body ast.Node) map[types.Object][]c13def {
	out := map[types.Object][]c13def{}
	obj := func(e ast.Expr) types.Object {
		id, ok := core.Unparen(e).(*ast.Ident)
		if !ok {
			return nil
		}
		if o := info.Defs[id]; o != nil {
			return o
		}
		return info.Uses[id]
	}
	ast.Inspect(body, func(n ast.Node) bool {
		switch s := n.(type) {
		case *ast.AssignStmt:
			for i, l := range s.Lhs {
				o := obj(l)
				if o == nil {
					continue
				}
				d := c13def{node: s, idx: -1, tok: s.Tok}
				if len(s.Rhs) == len(s.Lhs) {
					d.rhs = s.Rhs[i]
				} else if len(s.Rhs) == 1 {
					d.rhs, d.idx = s.Rhs[0], i
				}
				out[o] = append(out[o], d)
			}
		case *ast.ValueSpec:
			for i, nm := range s.Names {
				o := info.Defs[nm]
				if o == nil {
					continue
				}
				d := c13def{node: s, idx: -1, tok: token.VAR}
				if len(s.Values) == len(s.Names) {
					d.rhs = s.Values[i]
				} else if len(s.Values) == 1 {
					d.rhs, d.idx = s.Values[0], i
				}
				out[o] = append(out[o], d)
			}
		case *ast.RangeStmt:
			for _, e := range []ast.Expr{s.Key, s.Value} {
				if e == nil {
					continue
				}
				if o := obj(e); o != nil {
					out[o] = append(out[o], c13def{node: s, idx: -1, tok: token.RANGE})
				}
			}
		case *ast.IncDecStmt:
			if o := obj(s.X); o != nil {
				out[o] = append(out[o], c13def{node: s, idx: -1, tok: s.Tok})
			}
		}
		return true
	})
	return out
}

// c13val is an expression in the context of a function, with the parameter
// bindings of the helpers it was reached through.
type c13val struct {
	e   ast.Expr
	fn  *core.Func
	env map[types.Object]*c13val
}

type c13res struct {
	c    *core.Check
	defs map[*ast.FuncDecl]map[types.Object][]c13def
}

func (r *c13res) defsOf(fn *core.Func) map[types.Object][]c13def {
	if d, ok := r.defs[fn.Decl]; ok {
		return d
	}
	d := c13collectDefs(fn.Info(), fn.Decl.Body)
	r.defs[fn.Decl] = d
	return d
}

// singleDef returns the only value-carrying definition of a local variable
// (declarations without a value are ignored), or false.
func (r *c13res) singleDef(fn *core.Func, o types.Object) (c13def, bool) {
	v, ok := o.(*types.Var)
	if !ok || v.IsField() {
		return c13def{}, false
	}
	var found []c13def
	for _, d := range r.defsOf(fn)[o] {
		if d.tok == token.VAR && d.rhs == nil {
			continue
		}
		found = append(found, d)
	}
	if len(found) != 1 || found[0].rhs == nil || found[0].idx != -1 {
		return c13def{}, false
	}
	if t := found[0].tok; t != token.DEFINE && t != token.ASSIGN && t != token.VAR {
		return c13def{}, false
	}
	return found[0], true
}

// resolve follows parentheses, parameter bindings, helpers that consist of a
// single `return <expr>`, and (when locals is set) local variables that have
// exactly one definition.
func (r *c13res) resolve(v c13val, locals bool) c13val {
	for step := 0; step < 24; step++ {
		v.e = core.Unparen(v.e)
		switch x := v.e.(type) {
		case *ast.Ident:
			o := identObj(v.fn.Info(), x)
			if o == nil {
				return v
			}
			if b, ok := v.env[o]; ok {
				v = *b
				continue
			}
			if !locals {
				return v
			}
			d, ok := r.singleDef(v.fn, o)
			if !ok {
				return v
			}
			v = c13val{d.rhs, v.fn, v.env}
			continue
		case *ast.CallExpr:
			callee := v.fn.CalleeFunc(x)
			if callee == nil || callee.Lit != nil || x.Ellipsis.IsValid() || len(callee.Body.List) != 1 {
				return v
			}
			ret, ok := callee.Body.List[0].(*ast.ReturnStmt)
			if !ok || len(ret.Results) != 1 {
				return v
			}
			if sig, _ := callee.Obj.Type().(*types.Signature); sig == nil || sig.Variadic() {
				return v
			}
			env := map[types.Object]*c13val{}
			i := 0
			for _, fl := range callee.Type.Params.List {
				for _, nm := range fl.Names {
					if i < len(x.Args) {
						env[callee.Info().Defs[nm]] = &c13val{x.Args[i], v.fn, v.env}
					}
					i++
				}
				if len(fl.Names) == 0 {
					i++
				}
			}
			if callee.Decl.Recv != nil && len(callee.Decl.Recv.List) == 1 && len(callee.Decl.Recv.List[0].Names) == 1 {
				if re := core.RecvExpr(x); re != nil {
					env[callee.Info().Defs[callee.Decl.Recv.List[0].Names[0]]] = &c13val{re, v.fn, v.env}
				}
			}
			v = c13val{ret.Results[0], callee, env}
			continue
		}
		return v
	}
	return v
}

func (r *c13res) sub(v c13val, e ast.Expr) c13val { return c13val{e, v.fn, v.env} }

// objOf resolves v (without following local definitions) to a variable object.
func (r *c13res) objOf(v c13val) types.Object {
	v = r.resolve(v, false)
	if id, ok := v.e.(*ast.Ident); ok {
		return identObj(v.fn.Info(), id)
	}
	return nil
}

// fieldOf reports whether v denotes <base>.<field> for the given variable and struct field.
func (r *c13res) fieldOf(v c13val, base types.Object, field *types.Var) bool {
	f, b := r.selField(v)
	return f != nil && f == field && b == base && base != nil
}

// selField resolves v to a field selection and returns the field and the base variable.
func (r *c13res) selField(v c13val) (*types.Var, types.Object) {
	v = r.resolve(v, true)
	sel, ok := v.e.(*ast.SelectorExpr)
	if !ok {
		return nil, nil
	}
	f, _ := v.fn.Info().Uses[sel.Sel].(*types.Var)
	if f == nil || !f.IsField() {
		return nil, nil
	}
	bv := r.resolve(r.sub(v, sel.X), true)
	if u, ok := bv.e.(*ast.UnaryExpr); ok && u.Op == token.AND {
		bv = r.resolve(r.sub(bv, u.X), true)
	}
	if s, ok := bv.e.(*ast.StarExpr); ok {
		bv = r.resolve(r.sub(bv, s.X), true)
	}
	id, ok := bv.e.(*ast.Ident)
	if !ok {
		return f, nil
	}
	return f, identObj(bv.fn.Info(), id)
}

// callOf resolves v to a call and returns it with its callee id.
func (r *c13res) callOf(v c13val, locals bool) (*ast.CallExpr, string, c13val) {
	v = r.resolve(v, locals)
	if call, ok := v.e.(*ast.CallExpr); ok {
		return call, v.fn.CalleeID(call), v
	}
	return nil, "", v
}

func (r *c13res) constOf(v c13val) (constant.Value, bool) {
	v = r.resolve(v, true)
	tv, ok := v.fn.Info().Types[v.e]
	if !ok || tv.Value == nil {
		return nil, false
	}
	return tv.Value, true
}

func (r *c13res) show(v c13val) string { return exprStr(r.resolve(v, true).e) }

// ---------------------------------------------------------------------------
// abstract evaluation of branch conditions and pruning of the CFG
// ---------------------------------------------------------------------------

// c13abs is an abstract value: unknown, a constant, nil or non-nil.
type c13abs struct {
	kind int // 0 unknown, 1 constant, 2 nil, 3 non-nil
	val  constant.Value
}

func c13bool(b bool) c13abs { return c13abs{1, constant.MakeBool(b)} }

func (a c13abs) isBool() (bool, bool) {
	if a.kind == 1 && a.val.Kind() == constant.Bool {
		return constant.BoolVal(a.val), true
	}
	return false, false
}

type c13eval struct {
	r    *c13res
	fn   *core.Func
	hook func(e ast.Expr) (c13abs, bool) // value of a leaf expression under the configuration
}

func (ev *c13eval) expr(e ast.Expr, depth int) c13abs {
	e = core.Unparen(e)
	if depth > 12 {
		return c13abs{}
	}
	if ev.hook != nil {
		if a, ok := ev.hook(e); ok {
			return a
		}
	}
	info := ev.fn.Info()
	if isNilIdent(info, e) {
		return c13abs{kind: 2}
	}
	if tv, ok := info.Types[e]; ok && tv.Value != nil {
		return c13abs{1, tv.Value}
	}
	switch x := e.(type) {
	case *ast.UnaryExpr:
		if x.Op == token.NOT {
			if b, ok := ev.expr(x.X, depth+1).isBool(); ok {
				return c13bool(!b)
			}
		}
	case *ast.BinaryExpr:
		a, b := ev.expr(x.X, depth+1), ev.expr(x.Y, depth+1)
		switch x.Op {
		case token.LAND, token.LOR:
			av, aok := a.isBool()
			bv, bok := b.isBool()
			short := x.Op == token.LOR // value that decides
			switch {
			case aok && av == short, bok && bv == short:
				return c13bool(short)
			case aok && bok:
				return c13bool(!short)
			}
		case token.EQL, token.NEQ:
			eq, known := false, false
			switch {
			case a.kind == 1 && b.kind == 1:
				eq, known = constant.Compare(a.val, token.EQL, b.val), true
			case a.kind == 2 && b.kind == 2:
				eq, known = true, true
			case (a.kind == 2 && b.kind == 3) || (a.kind == 3 && b.kind == 2):
				eq, known = false, true
			}
			if known {
				return c13bool(eq == (x.Op == token.EQL))
			}
		}
	case *ast.Ident:
		if o := identObj(info, x); o != nil {
			if d, ok := ev.r.singleDef(ev.fn, o); ok {
				return ev.expr(d.rhs, depth+1)
			}
		}
	}
	return c13abs{}
}

type c13edge struct {
	b *cfg.Block
	i int
}

// c13dead evaluates every two-way branch of fn under ev and returns the
// successor edges that cannot be taken.
func c13dead(fn *core.Func, ev *c13eval) map[c13edge]bool {
	dead := map[c13edge]bool{}
	caseTag := map[ast.Expr]ast.Expr{}
	core.InspectNoLit(fn.Body, func(n ast.Node) bool {
		if s, ok := n.(*ast.SwitchStmt); ok && s.Tag != nil {
			for _, cl := range s.Body.List {
				for _, e := range cl.(*ast.CaseClause).List {
					caseTag[e] = s.Tag
				}
			}
		}
		return true
	})
	for _, b := range fn.Graph().C.Blocks {
		if !b.Live || len(b.Succs) != 2 || len(b.Nodes) == 0 {
			continue
		}
		cond, ok := b.Nodes[len(b.Nodes)-1].(ast.Expr)
		if !ok {
			continue
		}
		var val c13abs
		if tag, isCase := caseTag[cond]; isCase {
			t, cv := ev.expr(tag, 0), ev.expr(cond, 0)
			if t.kind == 1 && cv.kind == 1 {
				val = c13bool(constant.Compare(t.val, token.EQL, cv.val))
			}
		} else {
			val = ev.expr(cond, 0)
		}
		if bv, known := val.isBool(); known {
			if bv {
				dead[c13edge{b, 1}] = true
			} else {
				dead[c13edge{b, 0}] = true
			}
		}
	}
	return dead
}

func c13reachable(dead map[c13edge]bool, start *cfg.Block) map[*cfg.Block]bool {
	seen := map[*cfg.Block]bool{start: true}
	work := []*cfg.Block{start}
	for len(work) > 0 {
		b := work[0]
		work = work[1:]
		for i, s := range b.Succs {
			if dead[c13edge{b, i}] || seen[s] {
				continue
			}
			seen[s] = true
			work = append(work, s)
		}
	}
	return seen
}

// c13search is Graph.Search restricted to live edges; noHead additionally
// forbids the edges into the given block (a loop head).
func c13search(g *core.Graph, dead map[c13edge]bool, from *core.Point, goal, avoid func(core.Point) bool, noHead *cfg.Block) ([]string, bool) {
	tr, ok := g.Search(core.Query{From: from, Goal: goal, Avoid: avoid, AvoidEdge: func(b *cfg.Block, i int) bool {
		return dead[c13edge{b, i}] || (noHead != nil && b.Succs[i] == noHead)
	}})
	return g.Trail(tr), ok
}

// c13count counts events on the live paths from the beginning of start; the
// block stop is entered but not left.  The returned function gives the
// min/max (capped at 3) just before a point.
func c13count(dead map[c13edge]bool, start *cfg.Block, events map[core.Point]int, stop *cfg.Block) func(core.Point) (core.Cnt, bool) {
	cap3 := func(c core.Cnt) core.Cnt {
		if c.Min > 3 {
			c.Min = 3
		}
		if c.Max > 3 {
			c.Max = 3
		}
		return c
	}
	walk := func(b *cfg.Block, in core.Cnt, upto int) core.Cnt {
		for i := 0; i < upto && i < len(b.Nodes); i++ {
			n := events[core.Point{B: b, I: i}]
			in.Min += n
			in.Max += n
		}
		return cap3(in)
	}
	in := map[*cfg.Block]core.Cnt{start: {}}
	work := []*cfg.Block{start}
	for len(work) > 0 {
		b := work[0]
		work = work[1:]
		if b == stop {
			continue
		}
		out := walk(b, in[b], len(b.Nodes))
		for i, s := range b.Succs {
			if dead[c13edge{b, i}] {
				continue
			}
			old, seen := in[s]
			nv := out
			if seen {
				nv = old
				if out.Min < nv.Min {
					nv.Min = out.Min
				}
				if out.Max > nv.Max {
					nv.Max = out.Max
				}
			}
			if !seen || nv != old {
				in[s] = nv
				work = append(work, s)
			}
		}
	}
	return func(p core.Point) (core.Cnt, bool) {
		v, ok := in[p.B]
		if !ok {
			return core.Cnt{}, false
		}
		return walk(p.B, v, p.I), true
	}
}

// c13bal is the difference (label names appended) - (label values appended).
type c13bal struct {
	set, top bool
	d        int
}

func (b c13bal) String() string {
	switch {
	case !b.set:
		return "unreached"
	case b.top:
		return "differs between paths"
	}
	return fmt.Sprintf("%+d", b.d)
}

func c13balance(dead map[c13edge]bool, start *cfg.Block, delta map[core.Point]int, stop *cfg.Block) func(core.Point) c13bal {
	walk := func(b *cfg.Block, in c13bal, upto int) c13bal {
		for i := 0; i < upto && i < len(b.Nodes); i++ {
			in.d += delta[core.Point{B: b, I: i}]
		}
		return in
	}
	in := map[*cfg.Block]c13bal{start: {set: true}}
	work := []*cfg.Block{start}
	for len(work) > 0 {
		b := work[0]
		work = work[1:]
		if b == stop {
			continue
		}
		out := walk(b, in[b], len(b.Nodes))
		for i, s := range b.Succs {
			if dead[c13edge{b, i}] {
				continue
			}
			old := in[s]
			nv := old
			switch {
			case !old.set:
				nv = out
			case old.top:
			case out.top || out.d != old.d:
				nv = c13bal{set: true, top: true}
			}
			if nv != old {
				in[s] = nv
				work = append(work, s)
			}
		}
	}
	return func(p core.Point) c13bal {
		v := in[p.B]
		if !v.set || v.top {
			return v
		}
		return walk(p.B, v, p.I)
	}
}

// ---------------------------------------------------------------------------
// the context shared by the rules
// ---------------------------------------------------------------------------

type c13ctor struct {
	hit      core.Hit
	call     *ast.CallExpr
	id       string
	hist     bool
	must     bool
	pm       types.Object // variable receiving the metric
	err      types.Object // variable receiving the error
	desc     *ast.CallExpr
	descV    c13val
	name     string       // "NewConstMetric#1"
	descDefs []core.Point // assignments of the descriptor variable, when the descriptor is held in one
}

type c13send struct {
	hit  core.Hit
	stmt *ast.SendStmt
	name string
}

type c13cfg struct {
	kind          *types.Const
	omit, ts      bool
	errNil, valOK bool
}

func (k c13cfg) String() string {
	return fmt.Sprintf("kind=%s omitProgLabel=%v emitTimestamp=%v constructor-error=%v value-ok=%v", k.kind.Name(), k.omit, k.ts, !k.errNil, k.valOK)
}

type c13facts struct {
	cfg       c13cfg
	ctorReach map[int]bool
	sendReach map[int]bool // from the function entry
	bodyReach bool         // the loop body is reachable from the entry
	iterSends core.Cnt     // sends on the paths from the beginning of an iteration back to the loop head
	iterOK    bool         // ... and whether the head is reachable from the body at all
	iterSend  map[int]bool // sends reachable from the beginning of an iteration without passing the loop head
	early     []string     // a way of leaving the loop from inside an iteration
	bal       map[int]c13bal
	prog      map[int]core.Cnt
	fnExit    bool // the function can be left from inside an iteration
}

type c13ctx struct {
	c *core.Check
	r *c13res

	collect, cb *core.Func
	g           *core.Graph
	recvObj     types.Object // e
	chObj       types.Object // collector channel
	mObj        types.Object // callback's metric
	lsObj       types.Object // label set of the iteration
	loop        *ast.RangeStmt
	head, body  *cfg.Block
	done        *cfg.Block

	fKind, fName, fProgram, fSource, fKeys, fLabelValues *types.Var
	fOmit, fEmitTS                                       *types.Var
	fLabels, fDatum                                      *types.Var
	kinds                                                []*types.Const

	ctors []*c13ctor
	sends []*c13send
	errs  map[types.Object]bool
	pms   map[types.Object]bool
	oks   map[types.Object]bool // second result of the value mapping, when it has one

	keysObj, valsObj types.Object
	keyApp, valApp   []c13app
	labelsOK         bool

	facts []*c13facts
}

type c13app struct {
	hit  core.Hit
	elem ast.Expr
	tok  string // classification of the appended element
	rs   *ast.RangeStmt
}

func c13structField(c *core.Check, pkg, typ, field string) *types.Var {
	p := c.Prog.Pkgs[pkg]
	if p == nil {
		return nil
	}
	o := p.Types.Scope().Lookup(typ)
	if o == nil {
		return nil
	}
	st, ok := o.Type().Underlying().(*types.Struct)
	if !ok {
		return nil
	}
	for i := 0; i < st.NumFields(); i++ {
		if st.Field(i).Name() == field {
			return st.Field(i)
		}
	}
	return nil
}

func c13namedIs(t types.Type, pkgRel, name string) bool {
	if p, ok := t.(*types.Pointer); ok {
		t = p.Elem()
	}
	n, ok := t.(*types.Named)
	if !ok || n.Obj().Pkg() == nil {
		return false
	}
	return n.Obj().Name() == name && core.Rel(n.Obj().Pkg().Path()) == pkgRel
}

func (x *c13ctx) v(e ast.Expr) c13val { return c13val{e, x.cb, nil} }

func (x *c13ctx) anchors() bool {
	c := x.c
	const R = "C13-R0"
	c.Rule(R, "ANCHORS: Collect hands a function literal to Store.Range; the literal ranges over a channel of label sets fed by EmitLabelSets of the same metric; the struct fields and the Kind enumeration the rules speak about exist")
	x.collect = c.MustFn(R, c13Collect)
	if x.collect == nil {
		return false
	}
	info := x.collect.Info()
	bad := func(what string) bool {
		c.Undecided(R, c13Collect+"|"+what, pos(c, x.collect.Decl), what+" not found: the shape of Collect is outside the recognised family")
		return false
	}
	core.InspectNoLit(x.collect.Body, func(n ast.Node) bool {
		call, ok := n.(*ast.CallExpr)
		if !ok || x.collect.CalleeID(call) != c13StoreRange || len(call.Args) != 1 {
			return true
		}
		if lit, ok := core.Unparen(call.Args[0]).(*ast.FuncLit); ok && x.cb == nil {
			x.cb = c.Prog.FuncOf[lit]
		}
		return true
	})
	if x.cb == nil {
		return bad("function literal passed to Store.Range")
	}
	c.Analysed(x.cb)
	x.g = x.cb.Graph()
	if x.collect.Decl.Recv == nil || len(x.collect.Decl.Recv.List[0].Names) != 1 {
		return bad("named receiver of Collect")
	}
	x.recvObj = info.Defs[x.collect.Decl.Recv.List[0].Names[0]]
	if len(x.collect.Type.Params.List) != 1 || len(x.collect.Type.Params.List[0].Names) != 1 {
		return bad("collector channel parameter")
	}
	x.chObj = info.Defs[x.collect.Type.Params.List[0].Names[0]]
	if len(x.cb.Type.Params.List) != 1 || len(x.cb.Type.Params.List[0].Names) != 1 {
		return bad("metric parameter of the callback")
	}
	x.mObj = info.Defs[x.cb.Type.Params.List[0].Names[0]]
	for _, f := range []struct {
		dst             **types.Var
		pkg, typ, field string
	}{
		{&x.fKind, "internal/metrics", "Metric", "Kind"}, {&x.fName, "internal/metrics", "Metric", "Name"},
		{&x.fProgram, "internal/metrics", "Metric", "Program"}, {&x.fSource, "internal/metrics", "Metric", "Source"},
		{&x.fKeys, "internal/metrics", "Metric", "Keys"}, {&x.fLabelValues, "internal/metrics", "Metric", "LabelValues"},
		{&x.fOmit, "internal/exporter", "Exporter", "omitProgLabel"}, {&x.fEmitTS, "internal/exporter", "Exporter", "emitTimestamp"},
		{&x.fLabels, "internal/metrics", "LabelSet", "Labels"}, {&x.fDatum, "internal/metrics", "LabelSet", "Datum"},
	} {
		*f.dst = c13structField(c, f.pkg, f.typ, f.field)
		if *f.dst == nil {
			return bad("field " + f.typ + "." + f.field)
		}
	}
	// the Kind enumeration
	mp := c.Prog.Pkgs["internal/metrics"]
	for _, nm := range mp.Types.Scope().Names() {
		k, ok := mp.Types.Scope().Lookup(nm).(*types.Const)
		if ok && k.Exported() && c13namedIs(k.Type(), "internal/metrics", "Kind") {
			x.kinds = append(x.kinds, k)
		}
	}
	sort.Slice(x.kinds, func(i, j int) bool {
		return constant.Compare(x.kinds[i].Val(), token.LSS, x.kinds[j].Val())
	})
	if len(x.kinds) == 0 {
		return bad("constants of type metrics.Kind")
	}
	// the label-set loop
	var loops []*ast.RangeStmt
	for _, rs := range rangeStmts(x.cb) {
		if ch, ok := info.TypeOf(rs.X).Underlying().(*types.Chan); ok && c13namedIs(ch.Elem(), "internal/metrics", "LabelSet") {
			loops = append(loops, rs)
		}
	}
	if len(loops) == 2 {
		// a second loop that receives from the same channel inside the first and throws the elements away
		outer, inner := loops[0], loops[1]
		if !(outer.Body.Pos() <= inner.Pos() && inner.End() <= outer.Body.End()) {
			outer, inner = inner, outer
		}
		nested := outer.Body.Pos() <= inner.Pos() && inner.End() <= outer.Body.End()
		discards := inner.Key == nil || exprStr(inner.Key) == "_"
		if nested && discards && hbSameExpr(info, outer.X, inner.X) {
			c.Fail(R, c13Collect+"|label sets discarded", pos(c, inner), "inside the loop over a metric's label sets a second loop receives the remaining label sets from the same channel and discards them: every label set that follows the one taking this branch is left out of the scrape although it is representable")
			return false
		}
	}
	if len(loops) != 1 || loops[0].Key == nil {
		return bad("exactly one range over a channel of label sets")
	}
	x.loop = loops[0]
	x.lsObj = identObj(info, x.loop.Key)
	x.head, x.body, x.done = loopBlocks(x.g, x.loop)
	if x.lsObj == nil || x.head == nil || x.body == nil || x.done == nil {
		return bad("blocks of the label-set loop")
	}
	// constructors
	x.errs, x.pms, x.oks = map[types.Object]bool{}, map[types.Object]bool{}, map[types.Object]bool{}
	cnt := map[string]int{}
	for _, h := range x.g.CallsTo(c13ConstMetric, c13ConstHist, c13MustMetric, c13MustHist) {
		call := h.N.(*ast.CallExpr)
		id := x.cb.CalleeID(call)
		short := strings.TrimPrefix(id, c13Prom)
		cnt[short]++
		ct := &c13ctor{hit: h, call: call, id: id, hist: strings.HasSuffix(id, "Histogram"), must: strings.Contains(id, ".Must"),
			name: fmt.Sprintf("%s#%d", short, cnt[short])}
		if as, ok := h.P.Node().(*ast.AssignStmt); ok && len(as.Rhs) == 1 && core.Unparen(as.Rhs[0]) == ast.Expr(call) {
			if len(as.Lhs) >= 1 {
				ct.pm = identObj(info, as.Lhs[0])
			}
			if len(as.Lhs) == 2 {
				ct.err = identObj(info, as.Lhs[1])
			}
		}
		if ct.pm != nil {
			x.pms[ct.pm] = true
		}
		if ct.err != nil {
			x.errs[ct.err] = true
		}
		x.ctors = append(x.ctors, ct)
	}
	if len(x.ctors) == 0 {
		return bad("a call of prometheus.NewConstMetric / NewConstHistogram in the callback")
	}
	// the error variables may only be written by the constructors
	for o := range x.errs {
		for _, d := range x.r.defsOf(x.cb)[o] {
			if d.tok == token.VAR && d.rhs == nil {
				continue
			}
			okDef := false
			if call, isCall := core.Unparen(d.rhs).(*ast.CallExpr); isCall && d.idx == 1 {
				for _, ct := range x.ctors {
					if ct.call == call {
						okDef = true
					}
				}
			}
			if !okDef {
				return bad("error variable " + o.Name() + " written only by the sample constructors")
			}
		}
	}
	// sends on the collector channel
	for i, h := range x.g.Find(func(n ast.Node) bool {
		s, ok := n.(*ast.SendStmt)
		return ok && identObj(info, s.Chan) == x.chObj && x.chObj != nil
	}) {
		x.sends = append(x.sends, &c13send{hit: h, stmt: h.N.(*ast.SendStmt), name: fmt.Sprintf("send#%d", i+1)})
	}
	// every send on the collector channel must be one of those: a send in a
	// nested literal or outside the callback is outside the recognised family
	nsend := 0
	ast.Inspect(x.collect.Decl.Body, func(n ast.Node) bool {
		if s, ok := n.(*ast.SendStmt); ok && identObj(info, s.Chan) == x.chObj {
			nsend++
		}
		return true
	})
	if nsend != len(x.sends) {
		return bad(fmt.Sprintf("all %d sends on the collector channel directly in the callback body (found %d there)", nsend, len(x.sends)))
	}
	var ks []string
	for _, k := range x.kinds {
		ks = append(ks, k.Name())
	}
	c.Ok(R, c13Collect+"|anchors", pos(c, x.cb.Lit), fmt.Sprintf("callback %s, %d sample constructors, %d sends, kinds %s", x.cb.Key, len(x.ctors), len(x.sends), strings.Join(ks, ",")))
	c.Extra["c13_kinds"] = ks
	return true
}

// descOf resolves the descriptor argument of a constructor to the NewDesc call.
func (x *c13ctx) descOf(ct *c13ctor) bool {
	if ct.desc != nil {
		return true
	}
	if len(ct.call.Args) == 0 {
		return false
	}
	call, id, v := x.r.callOf(x.v(ct.call.Args[0]), true)
	if call == nil || id != c13NewDesc || len(call.Args) != 4 {
		return false
	}
	ct.desc, ct.descV = call, v
	return true
}

// ---------------------------------------------------------------------------
// C13-R1 name mapping
// ---------------------------------------------------------------------------

func (x *c13ctx) ruleName() {
	c := x.c
	const R = "C13-R1"
	c.Rule(R, "NAME: the fully-qualified name given to prometheus.NewDesc for every sample is strings.ReplaceAll(<the callback's metric>.Name, \"-\", \"_\") (directly or through a helper whose body is that expression); nothing else is done to the name")
	for _, ct := range x.ctors {
		key := x.cb.Key + "|" + ct.name + "|name"
		if !x.descOf(ct) {
			c.Undecided(R, key, pos(c, ct.call), "the descriptor argument does not resolve to a prometheus.NewDesc call: "+x.r.show(x.v(ct.call.Args[0])))
			continue
		}
		nv := x.r.sub(ct.descV, ct.desc.Args[0])
		if x.r.fieldOf(nv, x.mObj, x.fName) {
			c.Fail(R, key, pos(c, ct.desc), "the sample is named by the raw metric name: a metric called `foo-bar` is rejected by client_golang as an invalid name and disappears from the exposition instead of being exported as foo_bar")
			continue
		}
		call, id, cv := x.r.callOf(nv, true)
		okShape := false
		var from, to constant.Value
		if call != nil && (id == "strings.ReplaceAll" && len(call.Args) == 3 || id == "strings.Replace" && len(call.Args) == 4) {
			var ok1, ok2 bool
			from, ok1 = x.r.constOf(x.r.sub(cv, call.Args[1]))
			to, ok2 = x.r.constOf(x.r.sub(cv, call.Args[2]))
			okShape = ok1 && ok2 && from.Kind() == constant.String && to.Kind() == constant.String
			if okShape && len(call.Args) == 4 {
				n, okn := x.r.constOf(x.r.sub(cv, call.Args[3]))
				nn, exact := int64(0), false
				if okn {
					nn, exact = constant.Int64Val(n)
				}
				if !okn || !exact || nn >= 0 {
					c.Fail(R, key, pos(c, call), "strings.Replace with a non-negative count replaces only the first hyphens: `a-b-c` keeps a hyphen and becomes an invalid, unexported name")
					continue
				}
			}
		}
		if !okShape {
			c.Undecided(R, key, pos(c, ct.desc), "name expression outside the recognised family: "+x.r.show(nv))
			continue
		}
		src := x.r.sub(cv, call.Args[0])
		f, b := x.r.selField(src)
		switch {
		case f == nil:
			c.Undecided(R, key, pos(c, call), "the mapped string is not a field of the metric: "+x.r.show(src))
		case f != x.fName || b != x.mObj:
			c.Fail(R, key, pos(c, call), fmt.Sprintf("the sample is named after %s, not after the Name of the metric being exported: series appear under another metric's or a wrong name", x.r.show(src)))
		case constant.StringVal(from) != "-" || constant.StringVal(to) != "_":
			c.Fail(R, key, pos(c, call), fmt.Sprintf("the name mapping replaces %q by %q instead of \"-\" by \"_\": hyphenated metric names are not exported under their underscore name", constant.StringVal(from), constant.StringVal(to)))
		default:
			c.Ok(R, key, pos(c, call), "ReplaceAll(m.Name, \"-\", \"_\")")
		}
	}
	c.Floor(R, 2)
}

// ---------------------------------------------------------------------------
// configurations
// ---------------------------------------------------------------------------

func (x *c13ctx) hook(k c13cfg) func(ast.Expr) (c13abs, bool) {
	info := x.cb.Info()
	return func(e ast.Expr) (c13abs, bool) {
		switch y := e.(type) {
		case *ast.SelectorExpr:
			f, _ := info.Uses[y.Sel].(*types.Var)
			if f == nil || !f.IsField() {
				return c13abs{}, false
			}
			base := x.r.objOf(x.v(y.X))
			switch {
			case f == x.fKind && base == x.mObj:
				return c13abs{1, k.kind.Val()}, true
			case f == x.fOmit && base == x.recvObj:
				return c13bool(k.omit), true
			case f == x.fEmitTS && base == x.recvObj:
				return c13bool(k.ts), true
			}
		case *ast.Ident:
			o := identObj(info, y)
			switch {
			case o == nil:
			case x.errs[o]:
				if k.errNil {
					return c13abs{kind: 2}, true
				}
				return c13abs{kind: 3}, true
			case x.oks[o]:
				return c13bool(k.valOK), true
			}
		}
		return c13abs{}, false
	}
}

func (x *c13ctx) configs() {
	bools := []bool{false, true}
	pt := func(hs ...core.Hit) func(core.Point) bool { return core.At(core.HitPoints(hs)...) }
	_ = pt
	sendEv := map[core.Point]int{}
	for _, s := range x.sends {
		sendEv[s.hit.P]++
	}
	delta := map[core.Point]int{}
	progEv := map[core.Point]int{}
	for _, a := range x.keyApp {
		delta[a.hit.P]++
		if a.tok == "const:prog" {
			progEv[a.hit.P]++
		}
	}
	for _, a := range x.valApp {
		delta[a.hit.P]--
	}
	exits := core.ExitPoints(normalExits(x.g))
	entry := x.g.C.Blocks[0]
	for _, kind := range x.kinds {
		for _, omit := range bools {
			for _, ts := range bools {
				for _, errNil := range bools {
					for _, valOK := range bools {
						if !valOK && len(x.oks) == 0 {
							continue
						}
						k := c13cfg{kind, omit, ts, errNil, valOK}
						dead := c13dead(x.cb, &c13eval{r: x.r, fn: x.cb, hook: x.hook(k)})
						f := &c13facts{cfg: k, ctorReach: map[int]bool{}, sendReach: map[int]bool{}, iterSend: map[int]bool{}, bal: map[int]c13bal{}, prog: map[int]core.Cnt{}}
						reach := c13reachable(dead, entry)
						for i, ct := range x.ctors {
							f.ctorReach[i] = reach[ct.hit.P.B]
						}
						for i, s := range x.sends {
							f.sendReach[i] = reach[s.hit.P.B]
						}
						f.bodyReach = reach[x.body]
						if reach[x.body] {
							cnt := c13count(dead, x.body, sendEv, x.head)
							f.iterSends, f.iterOK = cnt(core.Point{B: x.head, I: 0})
							start := core.Point{B: x.body, I: -1}
							for i, s := range x.sends {
								_, f.iterSend[i] = c13search(x.g, dead, &start, core.At(s.hit.P), nil, x.head)
							}
							goal := core.Or(core.At(exits...), func(p core.Point) bool { return p.B == x.done && p.I == 0 })
							if tr, found := c13search(x.g, dead, &start, goal, nil, x.head); found {
								f.early = tr
							}
							bal := c13balance(dead, x.body, delta, x.head)
							pc := c13count(dead, x.body, progEv, x.head)
							for i, ct := range x.ctors {
								if f.ctorReach[i] {
									f.bal[i] = bal(ct.hit.P)
									f.prog[i], _ = pc(ct.hit.P)
								}
							}
						}
						x.facts = append(x.facts, f)
					}
				}
			}
		}
	}
}

// ---------------------------------------------------------------------------
// C13-R2 kinds
// ---------------------------------------------------------------------------

// evalReturn evaluates a function with one parameter bound to a constant and
// returns the result expressions of the only reachable return.
func (x *c13ctx) evalReturn(fn *core.Func, param types.Object, val constant.Value) (*ast.ReturnStmt, string) {
	info := fn.Info()
	ev := &c13eval{r: x.r, fn: fn, hook: func(e ast.Expr) (c13abs, bool) {
		if id, ok := e.(*ast.Ident); ok && identObj(info, id) == param && param != nil {
			return c13abs{1, val}, true
		}
		return c13abs{}, false
	}}
	dead := c13dead(fn, ev)
	g := fn.Graph()
	reach := c13reachable(dead, g.C.Blocks[0])
	var rets []*ast.ReturnStmt
	for _, e := range g.Exits() {
		if !reach[e.P.B] {
			continue
		}
		if e.Kind != "return" {
			return nil, "the function can end by " + e.Kind + " for this argument"
		}
		rets = append(rets, e.Ret)
	}
	if len(rets) != 1 {
		return nil, fmt.Sprintf("%d return statements are reachable for this argument", len(rets))
	}
	return rets[0], ""
}

func (x *c13ctx) ruleKinds() {
	c := x.c
	const R = "C13-R2"
	c.Rule(R, "KIND: evaluating the callback's branches for every value of metrics.Kind: a Text metric reaches no sample constructor and no send; a Histogram reaches NewConstHistogram and never NewConstMetric; Counter, Gauge and Timer reach NewConstMetric and never NewConstHistogram, and the value type passed (the kind function evaluated for that kind) is CounterValue for Counter and GaugeValue for Gauge and Timer")
	want := map[string]string{"Counter": "CounterValue", "Gauge": "GaugeValue", "Timer": "GaugeValue"}
	table := map[string]string{}
	for _, kind := range x.kinds {
		name := kind.Name()
		key := x.cb.Key + "|kind=" + name + "|constructors"
		plain, hist, sends := map[string]bool{}, map[string]bool{}, 0
		for _, f := range x.facts {
			if f.cfg.kind != kind {
				continue
			}
			for i, ct := range x.ctors {
				if f.ctorReach[i] {
					if ct.hist {
						hist[ct.name] = true
					} else {
						plain[ct.name] = true
					}
				}
			}
			for i := range x.sends {
				if f.sendReach[i] {
					sends++
				}
			}
		}
		got := fmt.Sprintf("reaches %v %v", sortedKeys(plain), sortedKeys(hist))
		switch name {
		case "Text":
			c.Verdict(len(plain)+len(hist) == 0 && sends == 0, R, key, pos(c, x.cb.Lit), "no constructor, no send",
				"a Text metric "+got+": a string-valued metric is exposed as a number (0) although it has no numeric value")
		case "Histogram":
			switch {
			case len(plain) > 0:
				c.Fail(R, key, pos(c, x.cb.Lit), "a Histogram metric "+got+": it is exposed as a single untyped/gauge number (the value mapping has no case for a Buckets datum: 0) and its buckets, sum and count are lost")
			case len(hist) == 0:
				c.Fail(R, key, pos(c, x.cb.Lit), "a Histogram metric reaches no NewConstHistogram: histograms are missing from the exposition")
			default:
				c.Ok(R, key, pos(c, x.cb.Lit), got)
			}
		case "Counter", "Gauge", "Timer":
			switch {
			case len(hist) > 0:
				c.Fail(R, key, pos(c, x.cb.Lit), "a "+name+" metric "+got+": GetBucketsCount panics on its Int/Float datum during the scrape")
			case len(plain) == 0:
				c.Fail(R, key, pos(c, x.cb.Lit), "a "+name+" metric reaches no NewConstMetric: it is missing from the exposition")
			default:
				c.Ok(R, key, pos(c, x.cb.Lit), got)
			}
		default:
			c.Undecided(R, key, pos(c, x.cb.Lit), "metrics.Kind has a value the property statement does not know; "+got)
		}
	}
	// value type per kind
	for _, ct := range x.ctors {
		if ct.hist || len(ct.call.Args) < 3 {
			continue
		}
		av := x.v(ct.call.Args[1])
		for _, kind := range x.kinds {
			name := kind.Name()
			exp, numeric := want[name]
			key := fmt.Sprintf("%s|%s|type of %s", x.cb.Key, ct.name, name)
			var got string
			if cv, ok := x.r.constOf(av); ok {
				_ = cv
				got = c13constName(x.r.resolve(av, true))
			} else {
				call, _, cv := x.r.callOf(av, true)
				fn := (*core.Func)(nil)
				if call != nil {
					fn = cv.fn.CalleeFunc(call)
				}
				if fn == nil || len(call.Args) != 1 || !x.r.fieldOf(x.r.sub(cv, call.Args[0]), x.mObj, x.fKind) ||
					len(fn.Type.Params.List) != 1 || len(fn.Type.Params.List[0].Names) != 1 {
					if numeric {
						c.Undecided(R, key, pos(c, ct.call), "value type argument is neither a constant nor f(<metric>.Kind): "+x.r.show(av))
					}
					continue
				}
				c.Analysed(fn)
				ret, why := x.evalReturn(fn, fn.Info().Defs[fn.Type.Params.List[0].Names[0]], kind.Val())
				if ret == nil || len(ret.Results) != 1 {
					if numeric {
						c.Undecided(R, key, pos(c, fn.Decl), "cannot evaluate "+fn.Key+" for "+name+": "+why)
					}
					continue
				}
				got = c13constName(c13val{ret.Results[0], fn, nil})
			}
			table[name] = got
			if !numeric {
				continue
			}
			if got == "" {
				c.Undecided(R, key, pos(c, ct.call), "value type for "+name+" is not a named constant")
				continue
			}
			c.Verdict(got == exp, R, key, pos(c, ct.call), name+" -> "+got,
				fmt.Sprintf("a %s metric is exposed with value type %s (TYPE line `%s`), the statement requires %s", name, got, strings.ToLower(strings.TrimSuffix(got, "Value")), exp))
		}
	}
	x.c.Extra["c13_kind_table"] = table
	c.Floor(R, 8)
}

// c13constName names the constant object an expression denotes.
func c13constName(v c13val) string {
	switch e := core.Unparen(v.e).(type) {
	case *ast.Ident:
		if k, ok := v.fn.Info().Uses[e].(*types.Const); ok {
			return k.Name()
		}
	case *ast.SelectorExpr:
		if k, ok := v.fn.Info().Uses[e.Sel].(*types.Const); ok {
			return k.Name()
		}
	}
	return ""
}

// ---------------------------------------------------------------------------
// C13-R3 label assembly
// ---------------------------------------------------------------------------

// c13emptySlice reports whether e evaluates to an empty slice.
func c13emptySlice(fn *core.Func, e ast.Expr, self types.Object) bool {
	info := fn.Info()
	e = core.Unparen(e)
	if isNilIdent(info, e) {
		return true
	}
	switch y := e.(type) {
	case *ast.CompositeLit:
		return len(y.Elts) == 0
	case *ast.CallExpr:
		if fn.CalleeID(y) == "builtin.make" && len(y.Args) >= 2 {
			n, ok := constInt(info, y.Args[1])
			return ok && n == 0
		}
	case *ast.SliceExpr:
		if identObj(info, y.X) == self && y.Low == nil && y.High != nil {
			n, ok := constInt(info, y.High)
			return ok && n == 0
		}
	}
	return false
}

// classify names the source of a value appended to the name or value list.
func (x *c13ctx) classify(e ast.Expr) (string, *ast.RangeStmt) {
	info := x.cb.Info()
	v := x.r.resolve(x.v(e), true)
	if cv, ok := x.r.constOf(v); ok && cv.Kind() == constant.String {
		return "const:" + constant.StringVal(cv), nil
	}
	if f, b := x.r.selField(v); f != nil && b == x.mObj {
		return "m." + f.Name(), nil
	}
	rangeOf := func(o types.Object) (*ast.RangeStmt, string) {
		if o == nil {
			return nil, ""
		}
		ds := x.r.defsOf(x.cb)[o]
		if len(ds) != 1 || ds[0].tok != token.RANGE {
			return nil, ""
		}
		rs := ds[0].node.(*ast.RangeStmt)
		role := "val"
		if rs.Key != nil && identObj(info, rs.Key) == o {
			role = "key"
		}
		src := ""
		switch f, b := x.r.selField(x.v(rs.X)); {
		case f == x.fLabels && b == x.lsObj:
			src = "labels"
		case f == x.fKeys && b == x.mObj:
			src = "keys"
		}
		if src == "" {
			return nil, ""
		}
		return rs, src + "." + role
	}
	switch y := v.e.(type) {
	case *ast.Ident:
		if rs, what := rangeOf(identObj(info, y)); rs != nil {
			return what, rs
		}
	case *ast.IndexExpr:
		if f, b := x.r.selField(x.v(y.X)); f == x.fLabels && b == x.lsObj {
			if id, ok := core.Unparen(y.Index).(*ast.Ident); ok {
				if rs, what := rangeOf(identObj(info, id)); rs != nil && what == "keys.val" {
					return "labels.at", rs
				}
			}
		}
	}
	return "other:" + exprStr(e), nil
}

func (x *c13ctx) prepLabels() {
	c := x.c
	const R = "C13-R3"
	c.Rule(R, "LABELS: for every sample, (a) the variable-label list of its descriptor and the label values of its constructor are two local lists, the descriptor has no constant labels and is built in the same iteration after the last name was appended; (b) both lists are emptied in every iteration of the label-set loop before anything is appended; (c) names and values are appended in pairs - in each basic block the i-th name and the i-th value are (\"prog\", m.Program), or (key, value) of one range over the label set's map; (d) evaluated for both settings of omitProgLabel, at the constructor the two lists have the same length on every path and contain the prog pair exactly once when it is not omitted and never when it is")
	info := x.cb.Info()
	x.labelsOK = true
	for _, ct := range x.ctors {
		key := x.cb.Key + "|" + ct.name + "|lists"
		if !x.descOf(ct) {
			c.Undecided(R, key, pos(c, ct.call), "descriptor does not resolve to NewDesc")
			x.labelsOK = false
			continue
		}
		ko := x.r.objOf(x.r.sub(ct.descV, ct.desc.Args[2]))
		var vo types.Object
		first := 3
		if ct.hist {
			first = 4
		}
		if ct.call.Ellipsis.IsValid() && len(ct.call.Args) == first+1 {
			vo = x.r.objOf(x.v(ct.call.Args[first]))
		}
		kv, _ := ko.(*types.Var)
		vv, _ := vo.(*types.Var)
		if kv == nil || vv == nil || kv.IsField() || vv.IsField() {
			c.Undecided(R, key, pos(c, ct.call), "label names / label values are not passed as two local slice variables (names: "+exprStr(ct.desc.Args[2])+")")
			x.labelsOK = false
			continue
		}
		if (x.keysObj != nil && x.keysObj != ko) || (x.valsObj != nil && x.valsObj != vo) {
			c.Undecided(R, key, pos(c, ct.call), "the constructors use different list variables")
			x.labelsOK = false
			continue
		}
		x.keysObj, x.valsObj = ko, vo
		cl := x.r.resolve(x.r.sub(ct.descV, ct.desc.Args[3]), true)
		switch {
		case ko == vo:
			c.Fail(R, key, pos(c, ct.call), "the same list is used as label names and as label values: every label is exported as name=\"name\"")
		case isNilIdent(cl.fn.Info(), cl.e):
			c.Ok(R, key, pos(c, ct.call), fmt.Sprintf("names=%s values=%s..., no constant labels", ko.Name(), vo.Name()))
		default:
			if lit, ok := cl.e.(*ast.CompositeLit); ok && len(lit.Elts) > 0 {
				c.Fail(R, key, pos(c, ct.desc), "the descriptor carries constant labels: every sample gets labels the store does not have")
			} else {
				c.Undecided(R, key, pos(c, ct.desc), "constant-labels argument is not nil: "+exprStr(cl.e))
			}
		}
		// descriptor held in a variable: built in this iteration, after the names
		if id, ok := core.Unparen(ct.call.Args[0]).(*ast.Ident); ok {
			dobj := identObj(info, id)
			var defs []core.Point
			for _, d := range x.r.defsOf(x.cb)[dobj] {
				if d.rhs == nil {
					continue
				}
				if p, ok := x.g.PointOf(d.node); ok {
					defs = append(defs, p)
				}
			}
			ct.descDefs = defs
			dkey := x.cb.Key + "|" + ct.name + "|descriptor built per label set"
			start := core.Point{B: x.body, I: -1}
			if tr, found := c13search(x.g, nil, &start, core.At(ct.hit.P), core.At(defs...), x.head); found {
				// built once per invocation of the callback, before the loop?  Then it is one metric's descriptor
				// for all of that metric's label sets: a different design, which the pairing rules below do not model
				if _, carried := x.g.Search(core.Query{Goal: core.At(ct.hit.P), Avoid: core.At(defs...)}); !carried && len(defs) > 0 {
					c.Undecided(R, dkey, pos(c, ct.call), "the descriptor variable "+id.Name+" is built once per metric (before the loop over its label sets), not once per label set: whether its label names match the values of every label set is not decided for this design")
					continue
				}
				c.Fail(R, dkey, pos(c, ct.call), "the descriptor variable "+id.Name+" is not rebuilt on every path through an iteration: the sample can be created with a descriptor (label names) built for an earlier label set or another metric, so values appear under the wrong label names or are rejected for their number", tr...)
			} else {
				c.Ok(R, dkey, pos(c, ct.call), "descriptor assigned on every path of the iteration")
			}
		}
	}
	if !x.labelsOK || x.keysObj == nil {
		x.labelsOK = false
		return
	}
	// events
	unknown := 0
	resets := map[types.Object][]core.Point{}
	for _, h := range x.g.Find(func(n ast.Node) bool {
		switch n.(type) {
		case *ast.AssignStmt, *ast.ValueSpec:
			return true
		}
		return false
	}) {
		switch s := h.N.(type) {
		case *ast.ValueSpec:
			for i, nm := range s.Names {
				o := info.Defs[nm]
				if o != x.keysObj && o != x.valsObj {
					continue
				}
				if len(s.Values) == 0 || (len(s.Values) == len(s.Names) && c13emptySlice(x.cb, s.Values[i], o)) {
					resets[o] = append(resets[o], h.P)
				} else {
					unknown++
					c.Undecided(R, x.cb.Key+"|write to "+o.Name(), pos(c, s), "list initialised with something other than an empty slice")
				}
			}
		case *ast.AssignStmt:
			for i, l := range s.Lhs {
				o := identObj(info, l)
				if o == nil || (o != x.keysObj && o != x.valsObj) {
					continue
				}
				if len(s.Rhs) != len(s.Lhs) {
					unknown++
					c.Undecided(R, x.cb.Key+"|write to "+o.Name(), pos(c, s), "list assigned from a multi-value expression")
					continue
				}
				rhs := core.Unparen(s.Rhs[i])
				if c13emptySlice(x.cb, rhs, o) {
					resets[o] = append(resets[o], h.P)
					continue
				}
				call, isCall := rhs.(*ast.CallExpr)
				if isCall && x.cb.CalleeID(call) == "builtin.append" && len(call.Args) == 2 && !call.Ellipsis.IsValid() && identObj(info, call.Args[0]) == o {
					tok, rs := x.classify(call.Args[1])
					a := c13app{hit: h, elem: call.Args[1], tok: tok, rs: rs}
					if o == x.keysObj {
						x.keyApp = append(x.keyApp, a)
					} else {
						x.valApp = append(x.valApp, a)
					}
					continue
				}
				unknown++
				c.Undecided(R, x.cb.Key+"|write to "+o.Name(), pos(c, s), "the list is written in a way the rule does not model: "+exprStr(rhs))
			}
		}
	}
	if unknown > 0 {
		x.labelsOK = false
		return
	}
	// (b) emptied per iteration
	start := core.Point{B: x.body, I: -1}
	for _, o := range []types.Object{x.keysObj, x.valsObj} {
		apps := x.keyApp
		what := "label names"
		if o == x.valsObj {
			apps, what = x.valApp, "label values"
		}
		var pts []core.Point
		for _, a := range apps {
			pts = append(pts, a.hit.P)
		}
		key := x.cb.Key + "|" + what + " emptied per label set"
		var ctp []core.Point
		for _, ct := range x.ctors {
			ctp = append(ctp, ct.hit.P)
		}
		if tr, found := c13search(x.g, nil, &start, core.At(append(pts, ctp...)...), core.At(resets[o]...), x.head); found {
			c.Fail(R, key, pos(c, x.loop), "the list of "+what+" ("+o.Name()+") is not emptied at the beginning of every iteration of the label-set loop: the second label set of a metric is exported with the first one's "+what+" in front of its own, and client_golang rejects it (duplicate label names / wrong number of values)", tr...)
		} else {
			c.Ok(R, key, pos(c, x.loop), fmt.Sprintf("%d reset site(s) dominate every append in the iteration", len(resets[o])))
		}
	}
	// a descriptor held in a variable copies the names when it is built
	for _, ct := range x.ctors {
		if len(ct.descDefs) == 0 {
			continue
		}
		key := x.cb.Key + "|" + ct.name + "|descriptor built after the names"
		bad := false
		for _, dp := range ct.descDefs {
			from := dp
			for _, a := range x.keyApp {
				if tr, found := c13search(x.g, nil, &from, core.At(a.hit.P), nil, x.head); found {
					mid := a.hit.P
					if _, on := c13search(x.g, nil, &mid, core.At(ct.hit.P), core.At(ct.descDefs...), x.head); on {
						bad = true
						c.Fail(R, key, pos(c, a.hit.N), "a label name is appended after the descriptor was built (NewDesc copies the names): the descriptor has fewer label names than the sample has values and client_golang rejects the label set", tr...)
						break
					}
				}
			}
			if bad {
				break
			}
		}
		if !bad {
			c.Ok(R, key, pos(c, ct.call), "no name is appended between building the descriptor and using it")
		}
	}
	// (c) pairing per block
	type blk struct{ ks, vs []c13app }
	blocks := map[*cfg.Block]*blk{}
	var order []*cfg.Block
	get := func(b *cfg.Block) *blk {
		if blocks[b] == nil {
			blocks[b] = &blk{}
			order = append(order, b)
		}
		return blocks[b]
	}
	for _, a := range x.keyApp {
		get(a.hit.P.B).ks = append(get(a.hit.P.B).ks, a)
	}
	for _, a := range x.valApp {
		get(a.hit.P.B).vs = append(get(a.hit.P.B).vs, a)
	}
	sort.Slice(order, func(i, j int) bool { return order[i].Index < order[j].Index })
	var pairs []string
	np := 0
	for _, b := range order {
		bl := blocks[b]
		sort.Slice(bl.ks, func(i, j int) bool { return bl.ks[i].hit.P.I < bl.ks[j].hit.P.I })
		sort.Slice(bl.vs, func(i, j int) bool { return bl.vs[i].hit.P.I < bl.vs[j].hit.P.I })
		if len(bl.ks) != len(bl.vs) {
			continue // lengths are decided per configuration under (d)
		}
		for i := range bl.ks {
			np++
			k, v := bl.ks[i], bl.vs[i]
			key := fmt.Sprintf("%s|pair#%d", x.cb.Key, np)
			pairs = append(pairs, k.tok+" = "+v.tok)
			switch {
			case k.tok == "const:prog" && v.tok == "m.Program",
				k.tok == "labels.key" && v.tok == "labels.val" && k.rs == v.rs,
				k.tok == "keys.val" && v.tok == "labels.at" && k.rs == v.rs:
				c.Ok(R, key, pos(c, k.hit.N), k.tok+" paired with "+v.tok)
			case strings.HasPrefix(k.tok, "other:") || strings.HasPrefix(v.tok, "other:"):
				c.Undecided(R, key, pos(c, k.hit.N), "label name "+exprStr(k.elem)+" / value "+exprStr(v.elem)+": source not recognised")
			case strings.HasPrefix(k.tok, "const:") && v.tok == "m.Program":
				c.Fail(R, key, pos(c, k.hit.N), fmt.Sprintf("the program label is called %q, not \"prog\"", strings.TrimPrefix(k.tok, "const:")))
			case k.tok == "const:prog":
				c.Fail(R, key, pos(c, v.hit.N), "the prog label does not carry the metric's Program but "+exprStr(v.elem))
			default:
				c.Fail(R, key, pos(c, k.hit.N), fmt.Sprintf("label name %s (%s) is paired with value %s (%s): the exported label does not carry the value the store holds under that key", exprStr(k.elem), k.tok, exprStr(v.elem), v.tok))
			}
		}
	}
	c.Extra["c13_label_pairs"] = pairs
}

func (x *c13ctx) ruleLabels() {
	c := x.c
	const R = "C13-R3"
	if !x.labelsOK {
		c.Floor(R, 6)
		return
	}
	for i, ct := range x.ctors {
		for _, omit := range []bool{false, true} {
			key := fmt.Sprintf("%s|%s|omitProgLabel=%v", x.cb.Key, ct.name, omit)
			n, status, detail := 0, "ok", ""
			for _, f := range x.facts {
				if f.cfg.omit != omit || !f.ctorReach[i] {
					continue
				}
				n++
				b, p := f.bal[i], f.prog[i]
				wantProg := 1
				if omit {
					wantProg = 0
				}
				switch {
				case status == "fail":
				case b.set && !b.top && b.d != 0:
					status = "fail"
					detail = fmt.Sprintf("at %s the descriptor has %+d label names relative to the label values passed (%s): client_golang rejects every such label set (inconsistent label cardinality) and it is missing from the exposition", ct.name, b.d, f.cfg)
				case !b.set || b.top:
					if status == "ok" {
						status, detail = "undecided", "number of names minus number of values "+b.String()+" ("+f.cfg.String()+")"
					}
				case p.Min != wantProg || p.Max != wantProg:
					status = "fail"
					if omit {
						detail = "the prog label is added " + p.String() + " times although the exporter is configured to omit it (" + f.cfg.String() + ")"
					} else {
						detail = "the prog label is added " + p.String() + " times on the paths to the constructor although it is not omitted; the statement requires it exactly once (" + f.cfg.String() + ")"
					}
				}
			}
			switch {
			case n == 0:
				c.Undecided(R, key, pos(c, ct.call), "constructor unreachable in every configuration")
			case status == "fail":
				c.Fail(R, key, pos(c, ct.call), detail)
			case status == "undecided":
				c.Undecided(R, key, pos(c, ct.call), detail)
			default:
				c.Ok(R, key, pos(c, ct.call), fmt.Sprintf("equal lengths and the prog pair as configured in %d configurations", n))
			}
		}
	}
	c.Floor(R, 10)
}

// ---------------------------------------------------------------------------
// C13-R4 histogram arguments
// ---------------------------------------------------------------------------

// typeCase finds, in a function whose body starts with a type switch over its
// first parameter, the statements executed for the dynamic type *T and the
// variable bound to the value.
func (x *c13ctx) typeCase(fn *core.Func, T types.Type) ([]ast.Stmt, types.Object, string) {
	info := fn.Info()
	if len(fn.Body.List) == 0 || len(fn.Type.Params.List) == 0 || len(fn.Type.Params.List[0].Names) == 0 {
		return nil, nil, "empty body or no parameter"
	}
	param := info.Defs[fn.Type.Params.List[0].Names[0]]
	ts, ok := fn.Body.List[0].(*ast.TypeSwitchStmt)
	if !ok {
		return nil, nil, "the body does not start with a type switch"
	}
	var ta *ast.TypeAssertExpr
	switch a := ts.Assign.(type) {
	case *ast.AssignStmt:
		if len(a.Rhs) == 1 {
			ta, _ = core.Unparen(a.Rhs[0]).(*ast.TypeAssertExpr)
		}
	case *ast.ExprStmt:
		ta, _ = core.Unparen(a.X).(*ast.TypeAssertExpr)
	}
	if ta == nil || identObj(info, ta.X) != param {
		return nil, nil, "the type switch is not over the first parameter"
	}
	var def *ast.CaseClause
	for _, cl := range ts.Body.List {
		cc := cl.(*ast.CaseClause)
		if cc.List == nil {
			def = cc
			continue
		}
		for _, te := range cc.List {
			ct := info.TypeOf(te)
			if ct == nil {
				continue
			}
			if types.Identical(ct, T) || (types.IsInterface(ct) && types.Implements(T, ct.Underlying().(*types.Interface))) {
				return cc.Body, info.Implicits[cc], ""
			}
		}
	}
	if def != nil {
		return def.Body, info.Implicits[def], ""
	}
	return fn.Body.List[1:], nil, ""
}

func (x *c13ctx) datumType(name string) types.Type {
	p := x.c.Prog.Pkgs[c13DatumPkg]
	if p == nil {
		return nil
	}
	o := p.Types.Scope().Lookup(name)
	if o == nil {
		return nil
	}
	return types.NewPointer(o.Type())
}

// getter checks that v is <base>.<field>, or a call of a method on base all of
// whose returns are <receiver>.<field>.
func (x *c13ctx) getter(v c13val, base types.Object, field *types.Var) (bool, string) {
	if x.r.fieldOf(v, base, field) {
		return true, "field " + field.Name()
	}
	call, _, cv := x.r.callOf(v, true)
	if call == nil {
		return false, "is " + x.r.show(v)
	}
	callee := cv.fn.CalleeFunc(call)
	re := core.RecvExpr(call)
	if callee == nil || re == nil || x.r.objOf(x.r.sub(cv, re)) != base || callee.Decl.Recv == nil || len(callee.Decl.Recv.List[0].Names) != 1 {
		return false, "is " + exprStr(call)
	}
	x.c.Analysed(callee)
	recv := callee.Info().Defs[callee.Decl.Recv.List[0].Names[0]]
	n := 0
	bad := ""
	core.InspectNoLit(callee.Body, func(nd ast.Node) bool {
		if ret, ok := nd.(*ast.ReturnStmt); ok {
			n++
			if len(ret.Results) != 1 || !x.r.fieldOf(c13val{ret.Results[0], callee, nil}, recv, field) {
				bad = callee.Key + " returns " + exprStr(ret.Results[0])
			}
		}
		return true
	})
	if n == 0 || bad != "" {
		return false, bad
	}
	return true, callee.Key + " returns the field " + field.Name()
}

func (x *c13ctx) ruleHistogram() {
	c := x.c
	const R = "C13-R4"
	c.Rule(R, "HISTOGRAM: NewConstHistogram receives GetBucketsCount, GetBucketsSum and GetBucketsCumByMax, in that order, of the Datum of the label set of the current iteration; for a *Buckets datum the first two return its Count and Sum fields; GetBucketsCumByMax collects every (upper bound, count) of GetBuckets into a map and a slice of bounds, sorts the slice ascending after the last append, and then, ranging over the sorted slice, adds the bound's own count to a running total (declared 0 outside the loop) exactly once and stores the total under that bound exactly once after the addition; GetBuckets enumerates every stored bucket")
	want := []string{c13GetCount, c13GetSum, c13GetCum}
	for _, ct := range x.ctors {
		if !ct.hist {
			continue
		}
		if len(ct.call.Args) < 4 {
			c.Undecided(R, x.cb.Key+"|"+ct.name, pos(c, ct.call), "unexpected number of arguments")
			continue
		}
		for j, role := range []string{"count", "sum", "buckets"} {
			key := x.cb.Key + "|" + ct.name + "|" + role
			call, id, cv := x.r.callOf(x.v(ct.call.Args[j+1]), true)
			switch {
			case call == nil || len(call.Args) != 1:
				c.Undecided(R, key, pos(c, ct.call.Args[j+1]), "argument is not a call of a datum accessor: "+x.r.show(x.v(ct.call.Args[j+1])))
			case id != want[j]:
				if id == want[0] || id == want[1] || id == want[2] {
					c.Fail(R, key, pos(c, call), "the histogram's "+role+" is taken from "+strings.TrimPrefix(id, c13DatumPkg+".")+": _count/_sum/_bucket of the exposition are exchanged")
				} else {
					c.Undecided(R, key, pos(c, call), "the histogram's "+role+" comes from "+id+", which the rule does not model")
				}
			default:
				f, b := x.r.selField(x.r.sub(cv, call.Args[0]))
				switch {
				case f == x.fDatum && b == x.lsObj:
					c.Ok(R, key, pos(c, call), strings.TrimPrefix(id, c13DatumPkg+".")+"(ls.Datum) of the current label set")
				case f == x.fDatum:
					c.Fail(R, key, pos(c, call), "the histogram's "+role+" is read from the datum of another label set ("+x.r.show(x.r.sub(cv, call.Args[0]))+"): count, sum and buckets of one sample describe different data")
				default:
					c.Undecided(R, key, pos(c, call), "the accessor's argument is not <label set>.Datum: "+x.r.show(x.r.sub(cv, call.Args[0])))
				}
			}
		}
	}
	bt := x.datumType("Buckets")
	fCount := c13structField(c, c13DatumPkg, "Buckets", "Count")
	fSum := c13structField(c, c13DatumPkg, "Buckets", "Sum")
	if bt == nil || fCount == nil || fSum == nil {
		c.Undecided(R, c13DatumPkg+".Buckets", "-", "type datum.Buckets with fields Count and Sum not found")
		return
	}
	for _, a := range []struct {
		key   string
		field *types.Var
		what  string
	}{{c13GetCount, fCount, "_count (and the +Inf bucket it must equal)"}, {c13GetSum, fSum, "_sum"}} {
		fn := c.MustFn(R, a.key)
		if fn == nil {
			continue
		}
		key := a.key + "|*Buckets"
		body, bound, why := x.typeCase(fn, bt)
		if why != "" || len(body) != 1 {
			c.Undecided(R, key, pos(c, fn.Decl), "case for *Buckets is not a single return: "+why)
			continue
		}
		ret, ok := body[0].(*ast.ReturnStmt)
		if !ok || len(ret.Results) != 1 || bound == nil {
			c.Undecided(R, key, pos(c, fn.Decl), "case for *Buckets is not a single return of one value")
			continue
		}
		good, how := x.getter(c13val{ret.Results[0], fn, nil}, bound, a.field)
		c.Verdict(good, R, key, pos(c, ret), how, "for a histogram datum the exported "+a.what+" is not the datum's "+a.field.Name()+" field: "+how)
	}
	x.ruleCumulative(bt)
	c.Floor(R, 10)
}

func c13within(n ast.Node, lo, hi token.Pos) bool { return lo <= n.Pos() && n.End() <= hi }

func (x *c13ctx) ruleCumulative(bt types.Type) {
	c := x.c
	const R = "C13-R4"
	fn := c.MustFn(R, c13GetCum)
	if fn == nil {
		return
	}
	K := func(s string) string { return c13GetCum + "|" + s }
	info := fn.Info()
	g := fn.Graph()
	body, bound, why := x.typeCase(fn, bt)
	if why != "" || len(body) == 0 || bound == nil {
		c.Undecided(R, K("shape"), pos(c, fn.Decl), "no case for *Buckets with a bound variable: "+why)
		return
	}
	lo, hi := body[0].Pos(), body[len(body)-1].End()
	inCase := func(hs []core.Hit) []core.Hit {
		var out []core.Hit
		for _, h := range hs {
			if c13within(h.N, lo, hi) {
				out = append(out, h)
			}
		}
		return out
	}
	local := func(e ast.Expr) types.Object {
		o, _ := identObj(info, e).(*types.Var)
		if o == nil || o.IsField() {
			return nil
		}
		return o
	}
	// the returned map
	var result types.Object
	nret := 0
	for _, e := range g.Exits() {
		if e.Kind == "return" && c13within(e.Ret, lo, hi) {
			nret++
			if len(e.Ret.Results) == 1 {
				result = local(e.Ret.Results[0])
			}
		}
	}
	if nret != 1 || result == nil {
		c.Undecided(R, K("shape"), pos(c, fn.Decl), "the *Buckets case does not end in one return of a local map")
		return
	}
	// running total
	accs := inCase(g.Find(func(n ast.Node) bool {
		as, ok := n.(*ast.AssignStmt)
		if !ok || len(as.Lhs) != 1 || len(as.Rhs) != 1 || local(as.Lhs[0]) == nil {
			return false
		}
		if b, isB := local(as.Lhs[0]).Type().Underlying().(*types.Basic); !isB || b.Info()&types.IsInteger == 0 {
			return false
		}
		if as.Tok == token.ADD_ASSIGN {
			return true
		}
		be, isBin := core.Unparen(as.Rhs[0]).(*ast.BinaryExpr)
		return as.Tok == token.ASSIGN && isBin && be.Op == token.ADD && (local(be.X) == local(as.Lhs[0]) || local(be.Y) == local(as.Lhs[0]))
	}))
	stores := inCase(g.Find(func(n ast.Node) bool {
		as, ok := n.(*ast.AssignStmt)
		if !ok || len(as.Lhs) != 1 || len(as.Rhs) != 1 {
			return false
		}
		ix, isIx := core.Unparen(as.Lhs[0]).(*ast.IndexExpr)
		return isIx && local(ix.X) != nil && types.Identical(local(ix.X).Type(), result.Type())
	}))
	if len(accs) == 0 {
		c.Fail(R, K("running total"), pos(c, fn.Decl), "no running total is accumulated: the map handed to NewConstHistogram holds each bucket's own count, so the exposed le-buckets are not cumulative and the +Inf bucket differs from _count")
		return
	}
	if len(accs) > 1 {
		c.Undecided(R, K("running total"), pos(c, accs[1].N), "more than one accumulation statement")
		return
	}
	accStmt := accs[0].N.(*ast.AssignStmt)
	acc := local(accStmt.Lhs[0])
	var term ast.Expr
	if accStmt.Tok == token.ADD_ASSIGN {
		term = accStmt.Rhs[0]
	} else {
		be := core.Unparen(accStmt.Rhs[0]).(*ast.BinaryExpr)
		term = be.Y
		if local(be.Y) == acc {
			term = be.X
		}
	}
	// the accumulation loop
	var loop *ast.RangeStmt
	var forLoop ast.Stmt
	core.InspectNoLit(fn.Body, func(n ast.Node) bool {
		switch s := n.(type) {
		case *ast.RangeStmt:
			if c13within(accStmt, s.Body.Pos(), s.Body.End()) {
				loop, forLoop = s, nil
			}
		case *ast.ForStmt:
			if c13within(accStmt, s.Body.Pos(), s.Body.End()) {
				loop, forLoop = nil, s
			}
		}
		return true
	})
	if forLoop != nil {
		c.Undecided(R, K("order of accumulation"), pos(c, forLoop), "the running total is accumulated in a three-clause for loop; only range loops are modelled")
		return
	}
	if loop == nil {
		c.Fail(R, K("order of accumulation"), pos(c, accStmt), "the running total is not accumulated in a loop over the bounds")
		return
	}
	sorted := local(loop.X)
	okSlice := false
	if sorted != nil {
		if sl, isSl := sorted.Type().Underlying().(*types.Slice); isSl {
			if b, isB := sl.Elem().Underlying().(*types.Basic); isB && b.Kind() == types.Float64 {
				okSlice = true
			}
		}
	}
	if !okSlice {
		c.Fail(R, K("order of accumulation"), pos(c, loop), "the running total is accumulated ranging over "+exprStr(loop.X)+", i.e. in storage (or map) order, not over the upper bounds sorted ascending: for a histogram datum whose ranges are not stored in ascending order (datum.MakeBuckets/NewBuckets accept any order) the exposed bucket counts are wrong per le, can decrease with increasing le, and the +Inf bucket differs from _count")
		return
	}
	elem := types.Object(nil)
	if loop.Value != nil {
		elem = local(loop.Value)
	}
	// writes to the slice and sort calls
	var sliceWrites, sliceAppends []core.Hit
	for _, h := range g.Find(func(n ast.Node) bool {
		as, ok := n.(*ast.AssignStmt)
		if !ok {
			return false
		}
		for _, l := range as.Lhs {
			if local(l) == sorted {
				return true
			}
			if ix, isIx := core.Unparen(l).(*ast.IndexExpr); isIx && local(ix.X) == sorted {
				return true
			}
		}
		return false
	}) {
		as := h.N.(*ast.AssignStmt)
		if len(as.Lhs) == 1 && len(as.Rhs) == 1 && c13emptySlice(fn, as.Rhs[0], sorted) {
			continue
		}
		sliceWrites = append(sliceWrites, h)
		if call, ok := core.Unparen(as.Rhs[0]).(*ast.CallExpr); ok && len(as.Lhs) == 1 && fn.CalleeID(call) == "builtin.append" && len(call.Args) == 2 && local(call.Args[0]) == sorted {
			sliceAppends = append(sliceAppends, h)
		}
	}
	var sorts []core.Hit
	descending := false
	for _, h := range g.Calls(func(id string, call *ast.CallExpr) bool {
		switch id {
		case "sort.Float64s", "slices.Sort":
			return len(call.Args) == 1 && local(call.Args[0]) == sorted
		case "sort.Sort", "sort.Stable":
			if len(call.Args) != 1 {
				return false
			}
			found := false
			ast.Inspect(call.Args[0], func(n ast.Node) bool {
				if e, ok := n.(ast.Expr); ok && local(e) == sorted {
					found = true
				}
				if inner, ok := n.(*ast.CallExpr); ok && fn.CalleeID(inner) == "sort.Reverse" {
					descending = true
				}
				return true
			})
			return found
		}
		return false
	}) {
		sorts = append(sorts, h)
	}
	headPt := func(rs *ast.RangeStmt) (core.Point, bool) {
		h, _, _ := loopBlocks(g, rs)
		if h == nil {
			return core.Point{}, false
		}
		return core.Point{B: h, I: 0}, true
	}
	hp, okHead := headPt(loop)
	if !okHead {
		c.Undecided(R, K("sorted bounds"), pos(c, loop), "loop blocks not found")
		return
	}
	switch {
	case len(sorts) == 0 || descending:
		c.Fail(R, K("sorted bounds"), pos(c, loop), "the slice of upper bounds "+sorted.Name()+" is not sorted ascending before the running total is accumulated over it (bounds are collected from a map, i.e. in random order): bucket counts are not cumulative in le order")
	default:
		if tr, found := pathAvoiding(g, nil, []core.Point{hp}, core.HitPoints(sorts)); found {
			c.Fail(R, K("sorted bounds"), pos(c, loop), "the accumulation loop can be reached without sorting the upper bounds first", tr...)
		} else {
			late := false
			for _, s := range sorts {
				from := s.P
				if tr, found := pathAvoiding(g, &from, core.HitPoints(sliceWrites), nil); found {
					late = true
					c.Fail(R, K("sorted bounds"), pos(c, s.N), "upper bounds are added to "+sorted.Name()+" after it was sorted: the accumulation order is not ascending", tr...)
					break
				}
			}
			if !late {
				c.Ok(R, K("sorted bounds"), pos(c, sorts[0].N), "sorted ascending after the last write, on every path to the accumulation loop")
			}
		}
	}
	// stores of the running total
	var cumStores, rawStores []core.Hit
	for _, s := range stores {
		as := s.N.(*ast.AssignStmt)
		if local(as.Rhs[0]) == acc {
			cumStores = append(cumStores, s)
		} else {
			rawStores = append(rawStores, s)
		}
	}
	switch {
	case len(cumStores) != 1:
		c.Verdict(false, R, K("stored per bound"), pos(c, loop), "", fmt.Sprintf("the running total is stored into the result %d times (want once, inside the accumulation loop): the exposed buckets are not the cumulative counts", len(cumStores)))
	default:
		st := cumStores[0].N.(*ast.AssignStmt)
		ix := core.Unparen(st.Lhs[0]).(*ast.IndexExpr)
		cntA, okA := iterationCount(g, loop, core.HitPoints(accs))
		cntS, okS := iterationCount(g, loop, core.HitPoints(cumStores))
		_, lb, _ := loopBlocks(g, loop)
		start := core.Point{B: lb, I: -1}
		_, storeFirst := pathAvoiding(g, &start, core.HitPoints(cumStores), core.HitPoints(accs))
		switch {
		case local(ix.X) != result:
			c.Fail(R, K("stored per bound"), pos(c, st), "the running total is stored into "+exprStr(ix.X)+", not into the map that is returned")
		case !c13within(st, loop.Body.Pos(), loop.Body.End()):
			c.Fail(R, K("stored per bound"), pos(c, st), "the running total is stored outside the accumulation loop: only one bound gets a cumulative count")
		case elem == nil || local(ix.Index) != elem:
			c.Fail(R, K("stored per bound"), pos(c, st), "the running total is stored under "+exprStr(ix.Index)+", not under the bound of the current iteration")
		case !okA || !okS || cntA.Min != 1 || cntA.Max != 1 || cntS.Min != 1 || cntS.Max != 1:
			c.Fail(R, K("stored per bound"), pos(c, st), fmt.Sprintf("per bound the total is advanced %s times and stored %s times (want exactly once each): some bound's count is skipped or its cumulative value is not exported", cntA.String(), cntS.String()))
		case storeFirst:
			c.Fail(R, K("stored per bound"), pos(c, st), "the total is stored before the bound's own count is added: every le-bucket excludes its own observations and the +Inf bucket is smaller than _count")
		default:
			c.Ok(R, K("stored per bound"), pos(c, st), "total advanced once, then stored under the bound, once per iteration")
		}
	}
	// declaration of the total
	{
		var bad string
		ninit := 0
		for _, d := range x.r.defsOf(fn)[acc] {
			if d.node == ast.Node(accStmt) {
				continue
			}
			ninit++
			switch {
			case d.rhs == nil && d.tok == token.VAR:
				// zero value
			case d.rhs != nil:
				if v, ok := constInt(info, d.rhs); !ok || v != 0 {
					bad = "the running total starts at " + exprStr(d.rhs) + ", not at 0"
				}
			default:
				bad = "the running total is written by " + exprStr(accStmt.Lhs[0]) + " in another statement"
			}
			if c13within(d.node, loop.Body.Pos(), loop.Body.End()) {
				bad = "the running total is re-initialised inside the accumulation loop: every bound gets only its own count"
			}
		}
		if ninit != 1 && bad == "" {
			bad = fmt.Sprintf("the running total has %d initialisations", ninit)
		}
		c.Verdict(bad == "", R, K("running total"), pos(c, accStmt), "declared 0 before the loop, advanced only by the accumulation statement", bad+": exposed bucket counts are not the cumulative counts")
	}
	// the term added and the collection loop
	tix, okT := core.Unparen(term).(*ast.IndexExpr)
	if _, isConst := constInt(info, term); isConst {
		c.Fail(R, K("every bucket"), pos(c, accStmt), "the total is advanced by a constant, not by the bucket's count")
		return
	}
	if !okT || local(tix.X) == nil || elem == nil || local(tix.Index) != elem {
		c.Undecided(R, K("every bucket"), pos(c, accStmt), "the term added to the total is not <map>[<current bound>]: "+exprStr(term))
		return
	}
	counts := local(tix.X)
	var fill []core.Hit
	for _, s := range rawStores {
		ix := core.Unparen(s.N.(*ast.AssignStmt).Lhs[0]).(*ast.IndexExpr)
		if local(ix.X) == counts {
			fill = append(fill, s)
		}
	}
	if len(fill) != 1 {
		c.Undecided(R, K("every bucket"), pos(c, accStmt), fmt.Sprintf("%d statements fill %s with bucket counts (want one, in the collection loop)", len(fill), counts.Name()))
		return
	}
	fs := fill[0].N.(*ast.AssignStmt)
	var l1 *ast.RangeStmt
	for _, rs := range rangeStmts(fn) {
		if c13within(fs, rs.Body.Pos(), rs.Body.End()) {
			l1 = rs
		}
	}
	fMax := c13structField(c, c13DatumPkg, "Range", "Max")
	if l1 == nil || l1.Key == nil || l1.Value == nil || fMax == nil {
		c.Undecided(R, K("every bucket"), pos(c, fs), "bucket counts are not collected in a `for range, count := range ...` loop")
		return
	}
	rObj, cObj := local(l1.Key), local(l1.Value)
	src, srcID, sv := x.r.callOf(c13val{l1.X, fn, nil}, true)
	if src == nil || srcID != c13BucketsGet || x.r.objOf(x.r.sub(sv, core.RecvExpr(src))) != bound {
		c.Undecided(R, K("every bucket"), pos(c, l1), "the collection loop does not range over GetBuckets() of the datum: "+exprStr(l1.X))
		return
	}
	fix := core.Unparen(fs.Lhs[0]).(*ast.IndexExpr)
	isMaxOf := func(e ast.Expr) bool { return x.r.fieldOf(c13val{e, fn, nil}, rObj, fMax) && rObj != nil }
	var appendOK bool
	for _, a := range sliceAppends {
		call := core.Unparen(a.N.(*ast.AssignStmt).Rhs[0]).(*ast.CallExpr)
		if c13within(a.N, l1.Body.Pos(), l1.Body.End()) && isMaxOf(call.Args[1]) {
			appendOK = true
		}
	}
	cntF, okF := iterationCount(g, l1, core.HitPoints(fill))
	cntP, okP := iterationCount(g, l1, core.HitPoints(sliceAppends))
	switch {
	case !isMaxOf(fix.Index):
		c.Fail(R, K("every bucket"), pos(c, fs), "bucket counts are keyed by "+exprStr(fix.Index)+", not by the range's upper bound (Max): the le labels of the exposition are not the upper bounds")
	case local(fs.Rhs[0]) != cObj || cObj == nil:
		c.Fail(R, K("every bucket"), pos(c, fs), "the value collected for a bound is "+exprStr(fs.Rhs[0])+", not the count of that bucket")
	case !appendOK || len(sliceAppends) != len(sliceWrites):
		c.Fail(R, K("every bucket"), pos(c, l1), "the slice of bounds that is sorted and accumulated over is not filled with the upper bound of every bucket in the collection loop: some buckets are missing from the exposition or bounds are mismatched")
	case !okF || !okP || cntF.Min != 1 || cntF.Max != 1 || cntP.Min != 1 || cntP.Max != 1:
		c.Fail(R, K("every bucket"), pos(c, l1), fmt.Sprintf("per stored bucket the count is recorded %s times and its bound %s times (want exactly once each)", cntF.String(), cntP.String()))
	default:
		c.Ok(R, K("every bucket"), pos(c, l1), "every (Max, count) of GetBuckets() is recorded once; the total advances by the bound's own count")
	}
	// GetBuckets enumerates d.Buckets
	if gb := c.MustFn(R, c13BucketsGet); gb != nil && gb.Decl.Recv != nil && len(gb.Decl.Recv.List[0].Names) == 1 {
		key := c13BucketsGet + "|enumerates"
		recv := gb.Info().Defs[gb.Decl.Recv.List[0].Names[0]]
		fB := c13structField(c, c13DatumPkg, "Buckets", "Buckets")
		fR := c13structField(c, c13DatumPkg, "BucketCount", "Range")
		fC := c13structField(c, c13DatumPkg, "BucketCount", "Count")
		var ok bool
		var why = "no range over the receiver's Buckets with `result[bc.Range] = bc.Count`"
		for _, rs := range rangeStmts(gb) {
			if !x.r.fieldOf(c13val{rs.X, gb, nil}, recv, fB) || rs.Value == nil {
				continue
			}
			bc := identObj(gb.Info(), rs.Value)
			st := gb.Graph().Find(func(n ast.Node) bool {
				as, isAs := n.(*ast.AssignStmt)
				if !isAs || len(as.Lhs) != 1 || len(as.Rhs) != 1 || !c13within(as, rs.Body.Pos(), rs.Body.End()) {
					return false
				}
				ix, isIx := core.Unparen(as.Lhs[0]).(*ast.IndexExpr)
				return isIx && x.r.fieldOf(c13val{ix.Index, gb, nil}, bc, fR) && x.r.fieldOf(c13val{as.Rhs[0], gb, nil}, bc, fC)
			})
			if len(st) == 1 {
				if cnt, okc := iterationCount(gb.Graph(), rs, core.HitPoints(st)); okc && cnt.Min == 1 && cnt.Max == 1 {
					ok = true
				} else {
					why = "a stored bucket is copied " + cnt.String() + " times per element"
				}
			}
		}
		c.Verdict(ok, R, key, pos(c, gb.Decl), "every element of d.Buckets is copied as Range -> Count", "GetBuckets does not hand out every stored bucket with its own count ("+why+"): buckets are missing from the exposition")
	}
}

// ---------------------------------------------------------------------------
// C13-R5 samples and timestamps, C13-R6 rejected label sets
// ---------------------------------------------------------------------------

// sendKind classifies the value of a send on the collector channel.
func (x *c13ctx) sendKind(s *c13send) string {
	v := x.r.resolve(x.v(s.stmt.Value), true)
	if id, ok := v.e.(*ast.Ident); ok && x.pms[identObj(v.fn.Info(), id)] {
		return "plain"
	}
	call, id, cv := x.r.callOf(v, true)
	if call == nil || id != c13WithTS || len(call.Args) != 2 {
		return "other"
	}
	if o := x.r.objOf(x.r.sub(cv, call.Args[1])); o == nil || !x.pms[o] {
		return "other"
	}
	tc, tid, tv := x.r.callOf(x.r.sub(cv, call.Args[0]), true)
	if tc == nil || !strings.HasSuffix(tid, ".TimeUTC") || core.RecvExpr(tc) == nil {
		return "stamped-other"
	}
	if !x.r.fieldOf(x.r.sub(tv, core.RecvExpr(tc)), x.lsObj, x.fDatum) {
		return "stamped-other"
	}
	return "stamped"
}

func (x *c13ctx) ruleEmit() {
	c := x.c
	const R5, R6 = "C13-R5", "C13-R6"
	c.Rule(R5, "SAMPLES/TIMESTAMPS: evaluated for emitTimestamp on and off, for every non-text kind, with the constructor succeeding: every iteration of the label-set loop performs exactly one send on the collector channel and the loop is left only when the channel is exhausted; when timestamps are on every reachable send is NewMetricWithTimestamp(<this label set's Datum>.TimeUTC(), <the sample just built>), when off it is the sample itself; the sample sent was assigned by a constructor in the same iteration")
	c.Rule(R6, "REJECTED LABEL SET: evaluated with the constructor returning an error: the iteration sends nothing and goes on to the next label set (no return, break or goto out of the loop); the constructors are the error-returning ones (not Must*); every return of the callback returns nil, so Store.Range goes on to the next metric")
	nonText := func(f *c13facts) bool { return f.cfg.kind.Name() != "Text" && f.bodyReach }
	anySend := func(f *c13facts) bool {
		for i := range x.sends {
			if f.iterSend[i] {
				return true
			}
		}
		return false
	}
	sk := map[int]string{}
	for i, s := range x.sends {
		sk[i] = x.sendKind(s)
	}
	var ctp []core.Point
	for _, ct := range x.ctors {
		ctp = append(ctp, ct.hit.P)
	}
	for _, ts := range []bool{false, true} {
		key := fmt.Sprintf("%s|emitTimestamp=%v|samples per label set", x.cb.Key, ts)
		n, bad := 0, ""
		reach := map[int]bool{}
		for _, f := range x.facts {
			if f.cfg.ts != ts || !f.cfg.errNil || !f.cfg.valOK || !nonText(f) {
				continue
			}
			n++
			for i := range x.sends {
				if f.iterSend[i] {
					reach[i] = true
				}
			}
			if bad == "" && f.iterOK && (f.iterSends.Min != 1 || f.iterSends.Max != 1) {
				bad = fmt.Sprintf("a representable label set yields %s samples instead of exactly one (%s)", f.iterSends.String(), f.cfg)
			}
			if bad == "" && f.early != nil {
				bad = fmt.Sprintf("the label-set loop can be left before the emitter's channel is exhausted (%s): the remaining label sets are not exported and the emitter goroutine stays blocked holding the metric's read lock; via %s", f.cfg, strings.Join(f.early, " > "))
			}
		}
		switch {
		case n == 0:
			c.Undecided(R5, key, pos(c, x.loop), "the loop body is unreachable in every configuration")
		default:
			c.Verdict(bad == "", R5, key, pos(c, x.loop), fmt.Sprintf("exactly one send per iteration in %d configurations", n), bad)
		}
		for i, s := range x.sends {
			if !reach[i] {
				continue
			}
			skey := fmt.Sprintf("%s|emitTimestamp=%v|%s", x.cb.Key, ts, s.name)
			switch kind := sk[i]; {
			case kind == "other":
				c.Undecided(R5, skey, pos(c, s.stmt), "the value sent is neither the sample nor NewMetricWithTimestamp(time, sample): "+exprStr(s.stmt.Value))
			case ts && kind == "plain":
				c.Fail(R5, skey, pos(c, s.stmt), "with emit_metric_timestamp on, this send is reachable and delivers the sample without its timestamp")
			case ts && kind == "stamped-other":
				c.Fail(R5, skey, pos(c, s.stmt), "the timestamp attached is not TimeUTC() of the Datum of the label set being exported: "+exprStr(s.stmt.Value))
			case !ts && kind != "plain":
				c.Fail(R5, skey, pos(c, s.stmt), "with emit_metric_timestamp off, this send is reachable and attaches a timestamp to the sample (Prometheus then applies staleness handling to a timestamp that may never move)")
			default:
				c.Ok(R5, skey, pos(c, s.stmt), kind)
			}
		}
	}
	// the sample sent was built in this iteration
	for i, s := range x.sends {
		key := x.cb.Key + "|" + s.name + "|built in this iteration"
		bad := ""
		var trail []string
		seen := false
		for _, f := range x.facts {
			if !f.cfg.errNil || !f.cfg.valOK || !nonText(f) || !f.iterSend[i] {
				continue
			}
			seen = true
			dead := c13dead(x.cb, &c13eval{r: x.r, fn: x.cb, hook: x.hook(f.cfg)})
			start := core.Point{B: x.body, I: -1}
			if tr, found := c13search(x.g, dead, &start, core.At(s.hit.P), core.At(ctp...), x.head); found {
				bad, trail = f.cfg.String(), tr
				break
			}
		}
		if seen {
			c.Verdict(bad == "", R5, key, pos(c, s.stmt), "every path of the iteration to the send passes a constructor", "a send is reachable without building a sample in the same iteration ("+bad+"): the previous label set's sample is exported again, or nil", trail...)
		}
	}
	c.Floor(R5, 6)

	// R6
	haveErr := len(x.errs) > 0
	for _, ct := range x.ctors {
		key := x.cb.Key + "|" + ct.name + "|error result"
		switch {
		case ct.must:
			c.Fail(R6, key, pos(c, ct.call), "the Must variant panics on a label set client_golang cannot represent (invalid UTF-8 value, duplicate or invalid label name): one such label set fails the whole scrape instead of being left out")
		case ct.err == nil:
			c.Fail(R6, key, pos(c, ct.call), "the constructor's error is discarded: for an unrepresentable label set a nil sample is sent to the registry")
		default:
			c.Ok(R6, key, pos(c, ct.call), "error assigned to "+ct.err.Name())
		}
	}
	if haveErr {
		for _, kind := range x.kinds {
			if kind.Name() == "Text" {
				continue
			}
			key := x.cb.Key + "|kind=" + kind.Name() + "|rejected label set"
			n, bad := 0, ""
			var trail []string
			for _, f := range x.facts {
				if f.cfg.kind != kind || f.cfg.errNil || !f.cfg.valOK || !f.bodyReach {
					continue
				}
				n++
				if bad == "" && anySend(f) {
					bad = "a label set whose constructor returned an error still reaches a send (" + f.cfg.String() + "): a nil metric is handed to the registry"
				}
				if bad == "" && f.early != nil {
					bad = "when the constructor returns an error (unrepresentable label set) the label-set loop is left instead of continuing (" + f.cfg.String() + "): the metric's remaining label sets are missing from the scrape, and the emitter goroutine stays blocked on its channel holding the metric's read lock"
					trail = f.early
				}
			}
			if n == 0 {
				c.Undecided(R6, key, pos(c, x.loop), "no configuration reaches the loop body with a constructor error")
				continue
			}
			c.Verdict(bad == "", R6, key, pos(c, x.loop), "nothing sent, next label set", bad, trail...)
		}
	}
	for i, e := range normalExits(x.g) {
		if e.Kind != "return" {
			continue
		}
		key := fmt.Sprintf("%s|return#%d", x.cb.Key, i+1)
		c.Verdict(returnsNil(x.cb.Info(), e.Ret), R6, key, ppos(c, e.P, x.cb), "returns nil", "the callback returns a non-nil error: Store.Range stops at the first error, every metric after this one is missing from the scrape")
	}
	c.Floor(R6, 7)
}

// ---------------------------------------------------------------------------
// C13-R7 value mapping
// ---------------------------------------------------------------------------

type c13valueFn struct {
	fn   *core.Func
	call *ast.CallExpr
	two  bool // (value, ok) results
}

// prepValue finds the value-mapping call of each NewConstMetric and, when it
// has a second (ok) result, the variable receiving it.
func (x *c13ctx) prepValue() map[*c13ctor]*c13valueFn {
	out := map[*c13ctor]*c13valueFn{}
	info := x.cb.Info()
	for _, ct := range x.ctors {
		if ct.hist || len(ct.call.Args) < 3 {
			continue
		}
		arg := ct.call.Args[2]
		if call, _, cv := x.r.callOf(x.v(arg), true); call != nil && cv.fn.CalleeFunc(call) != nil {
			out[ct] = &c13valueFn{fn: cv.fn.CalleeFunc(call), call: call}
			continue
		}
		// v, ok := f(ls.Datum)
		o := identObj(info, arg)
		if o == nil {
			continue
		}
		var ds []c13def
		for _, d := range x.r.defsOf(x.cb)[o] {
			if d.tok == token.VAR && d.rhs == nil {
				continue
			}
			ds = append(ds, d)
		}
		if len(ds) != 1 || ds[0].idx != 0 {
			continue
		}
		call, ok := core.Unparen(ds[0].rhs).(*ast.CallExpr)
		if !ok || x.cb.CalleeFunc(call) == nil {
			continue
		}
		var lhs []ast.Expr
		switch s := ds[0].node.(type) {
		case *ast.AssignStmt:
			lhs = s.Lhs
		case *ast.ValueSpec:
			for _, nm := range s.Names {
				lhs = append(lhs, nm)
			}
		}
		if len(lhs) != 2 {
			continue
		}
		okObj := identObj(info, lhs[1])
		if okObj == nil {
			continue
		}
		if b, isB := okObj.Type().Underlying().(*types.Basic); !isB || b.Kind() != types.Bool {
			continue
		}
		// the ok variable must have this one definition
		nd := 0
		for _, d := range x.r.defsOf(x.cb)[okObj] {
			if !(d.tok == token.VAR && d.rhs == nil) {
				nd++
			}
		}
		if nd != 1 {
			continue
		}
		x.oks[okObj] = true
		out[ct] = &c13valueFn{fn: x.cb.CalleeFunc(call), call: call, two: true}
	}
	return out
}

func (x *c13ctx) ruleValue(vf map[*c13ctor]*c13valueFn) {
	c := x.c
	const R = "C13-R7"
	c.Rule(R, "VALUE: the value given to NewConstMetric is f(<this label set's Datum>); evaluating f's type switch for every implementation of datum.Datum: an Int yields float64 of its own Get(), a Float its own Get(); a datum without a numeric value (String - a counter/gauge/timer whose variable is assigned a string has one) must not be turned into a made-up number: either f reports it (second result false) and the iteration then sends nothing and continues, or the sample is wrong; a Buckets datum only occurs under kind Histogram (C13-R2)")
	dp := c.Prog.Pkgs[c13DatumPkg]
	if dp == nil {
		c.Undecided(R, c13DatumPkg, "-", "package not loaded")
		return
	}
	iface, _ := dp.Types.Scope().Lookup("Datum").Type().Underlying().(*types.Interface)
	var impls []string
	for _, nm := range dp.Types.Scope().Names() {
		tn, ok := dp.Types.Scope().Lookup(nm).(*types.TypeName)
		if !ok || iface == nil || types.IsInterface(tn.Type()) {
			continue
		}
		if types.Implements(types.NewPointer(tn.Type()), iface) {
			impls = append(impls, nm)
		}
	}
	c.Extra["c13_datum_types"] = impls
	table := map[string]string{}
	for _, ct := range x.ctors {
		if ct.hist {
			continue
		}
		v := vf[ct]
		key := x.cb.Key + "|" + ct.name + "|value"
		if v == nil || len(v.call.Args) != 1 {
			c.Undecided(R, key, pos(c, ct.call), "the value argument is not f(datum) or `v, ok := f(datum)`: "+exprStr(ct.call.Args[2]))
			continue
		}
		c.Analysed(v.fn)
		f, b := x.r.selField(x.v(v.call.Args[0]))
		switch {
		case f == x.fDatum && b == x.lsObj:
			c.Ok(R, key, pos(c, v.call), v.fn.Key+"(ls.Datum) of the current label set")
		case f == x.fDatum:
			c.Fail(R, key, pos(c, v.call), "the value is computed from the datum of another label set: "+exprStr(v.call.Args[0]))
			continue
		default:
			c.Undecided(R, key, pos(c, v.call), "argument is not <label set>.Datum: "+exprStr(v.call.Args[0]))
			continue
		}
		for _, tname := range impls {
			T := x.datumType(tname)
			tkey := v.fn.Key + "|datum=" + tname
			body, bound, why := x.typeCase(v.fn, T)
			if why != "" || len(body) != 1 {
				c.Undecided(R, tkey, pos(c, v.fn.Decl), "cannot evaluate the mapping for *"+tname+": "+why)
				continue
			}
			ret, ok := body[0].(*ast.ReturnStmt)
			if !ok || len(ret.Results) == 0 {
				c.Undecided(R, tkey, pos(c, v.fn.Decl), "the case for *"+tname+" is not a single return")
				continue
			}
			// first result
			val := core.Unparen(ret.Results[0])
			own := false
			if conv, isCall := val.(*ast.CallExpr); isCall && len(conv.Args) == 1 {
				if tv, has := v.fn.Info().Types[conv.Fun]; has && tv.IsType() {
					if bt, isB := tv.Type.Underlying().(*types.Basic); isB && bt.Kind() == types.Float64 {
						val = core.Unparen(conv.Args[0])
					}
				}
			}
			if get, isCall := val.(*ast.CallExpr); isCall && bound != nil {
				if v.fn.CalleeID(get) == c13DatumPkg+".(*"+tname+").Get" && identObj(v.fn.Info(), core.RecvExpr(get)) == bound {
					own = true
				}
			}
			cst, isConst := v.fn.Info().Types[ret.Results[0]]
			okRes := "true"
			if len(ret.Results) == 2 {
				if bv, known := constBool(v.fn.Info(), ret.Results[1]); known {
					okRes = fmt.Sprint(bv)
				} else {
					okRes = "?"
				}
			}
			desc := exprStr(ret.Results[0])
			if len(ret.Results) == 2 {
				desc += ", " + exprStr(ret.Results[1])
			}
			table[tname] = desc
			numeric := tname == "Int" || tname == "Float"
			switch {
			case okRes == "?":
				c.Undecided(R, tkey, pos(c, ret), "second result is not a constant")
			case numeric && own && okRes == "true":
				c.Ok(R, tkey, pos(c, ret), desc)
			case numeric:
				c.Fail(R, tkey, pos(c, ret), "a "+tname+" datum is exported as `"+desc+"`, not as its own value: the sample's value differs from the store")
			case tname == "Buckets" && okRes == "true":
				c.Note(R, tkey, pos(c, ret), "a Buckets datum would be exported as `"+desc+"`; unreachable from NewConstMetric: datum type Buckets is created only for kind Histogram (ast.VarDecl.Type, codegen) and Histogram never reaches NewConstMetric (C13-R2); hand-built stores that pair other kinds with a Buckets datum are outside what is decided")
			case okRes == "false":
				// must be skipped by the caller
				bad := ""
				var trail []string
				n := 0
				for _, f := range x.facts {
					if f.cfg.valOK || f.cfg.kind.Name() == "Text" || f.cfg.kind.Name() == "Histogram" || !f.bodyReach {
						continue
					}
					n++
					sent := false
					for i := range x.sends {
						sent = sent || f.iterSend[i]
					}
					if bad == "" && sent {
						bad = "a datum reported as having no numeric value still reaches a send (" + f.cfg.String() + ")"
					}
					if bad == "" && f.early != nil {
						bad, trail = "a datum without a numeric value ends the label-set loop instead of being left out ("+f.cfg.String()+")", f.early
					}
				}
				if !v.two || n == 0 {
					c.Undecided(R, tkey, pos(c, ret), "the mapping reports `false` but the caller's use of the second result was not recognised")
				} else {
					c.Verdict(bad == "", R, tkey, pos(c, ret), "reported as not representable; the caller sends nothing and continues", bad, trail...)
				}
			case isConst && cst.Value != nil:
				c.Fail(R, tkey, pos(c, ret), "a "+tname+" datum has no case in the value mapping and is exported as the constant "+cst.Value.String()+": a non-text metric whose variable holds a string (e.g. `gauge g` with `g = $1` - the checker infers type String for it) appears in the exposition as `g 0`, a value the store never held; it should be left out like a text metric")
			default:
				c.Undecided(R, tkey, pos(c, ret), "mapping for *"+tname+" is `"+desc+"`")
			}
		}
	}
	c.Extra["c13_value_table"] = table
	c.Floor(R, 4)
}

// ---------------------------------------------------------------------------
// C13-R8 help text
// ---------------------------------------------------------------------------

func (x *c13ctx) ruleHelp() {
	c := x.c
	const R = "C13-R8"
	c.Rule(R, "HELP: the help string of every descriptor depends only on constants, the metric's Name, and variables that are latched per name - assigned only inside `if <last> != m.Name { ...; <last> = m.Name }` - so that all samples exported under one name carry the same help; client_golang's Gather rejects a sample whose help differs from the first one seen under the same name and the scrape fails")
	info := x.cb.Info()
	// latch blocks: if N != m.Name { ... N = m.Name ... }
	type latch struct {
		is *ast.IfStmt
		n  types.Object
	}
	var latches []latch
	for _, is := range ifsWhere(x.cb, func(*ast.IfStmt) bool { return true }) {
		be, ok := core.Unparen(is.Cond).(*ast.BinaryExpr)
		if !ok || be.Op != token.NEQ {
			continue
		}
		for _, p := range [][2]ast.Expr{{be.X, be.Y}, {be.Y, be.X}} {
			n, _ := identObj(info, p[0]).(*types.Var)
			if n == nil || n.IsField() || !x.r.fieldOf(x.v(p[1]), x.mObj, x.fName) {
				continue
			}
			// N = m.Name inside the then-branch, and nowhere else
			okAll, inThen := true, false
			for _, d := range x.r.defsOf(x.cb)[n] {
				switch {
				case d.rhs != nil && !c13within(d.node, x.cb.Lit.Pos(), x.cb.Lit.End()):
					if _, isC := x.collect.Info().Types[d.rhs]; !isC || x.collect.Info().Types[d.rhs].Value == nil {
						okAll = false
					}
				case d.rhs != nil && c13within(d.node, is.Body.Pos(), is.Body.End()) && x.r.fieldOf(x.v(d.rhs), x.mObj, x.fName):
					inThen = true
				case d.rhs == nil && d.tok == token.VAR:
				default:
					okAll = false
				}
			}
			if okAll && inThen {
				latches = append(latches, latch{is, n})
			}
		}
	}
	latched := func(o types.Object) bool {
		if len(latches) == 0 {
			return false
		}
		n := 0
		for _, d := range x.r.defsOf(x.cb)[o] {
			if d.rhs == nil && d.tok == token.VAR {
				continue
			}
			n++
			if !c13within(d.node, x.cb.Lit.Pos(), x.cb.Lit.End()) {
				if tv, has := x.collect.Info().Types[d.rhs]; d.rhs != nil && has && tv.Value != nil {
					continue // constant initial value in Collect
				}
				return false
			}
			in := false
			for _, l := range latches {
				if c13within(d.node, l.is.Body.Pos(), l.is.Body.End()) {
					in = true
				}
			}
			if !in {
				return false
			}
		}
		return n > 0
	}
	for _, ct := range x.ctors {
		key := x.cb.Key + "|" + ct.name + "|help"
		if !x.descOf(ct) {
			c.Undecided(R, key, pos(c, ct.call), "descriptor does not resolve to NewDesc")
			continue
		}
		hv := x.r.resolve(x.r.sub(ct.descV, ct.desc.Args[1]), true)
		status, detail := "ok", ""
		var uses []string
		var walk func(v c13val, depth int)
		walk = func(v c13val, depth int) {
			ast.Inspect(v.e, func(n ast.Node) bool {
				if status == "fail" {
					return false
				}
				switch y := n.(type) {
				case *ast.SelectorExpr:
					f, b := x.r.selField(x.r.sub(v, y))
					if f != nil && b == x.mObj {
						uses = append(uses, "m."+f.Name())
						if f != x.fName {
							status = "fail"
							detail = "the help text is built from " + exprStr(y) + " of the metric being exported: two metrics with the same name (the same variable declared in two programs, or at another line) give different help strings; client_golang rejects the second one (Register: `inconsistent label names or help strings for the same fully-qualified name`, Gather: `has help ... but should have ...`) and the whole scrape returns an error"
						}
						return false
					}
					if _, isPkg := v.fn.Info().Uses[y.Sel].(*types.Func); isPkg {
						return false
					}
				case *ast.Ident:
					o, _ := identObj(v.fn.Info(), y).(*types.Var)
					if o == nil || o.IsField() {
						return true
					}
					if b, bound := v.env[o]; bound {
						if depth < 6 {
							walk(*b, depth+1)
						}
						return true
					}
					if v.fn.Decl != x.cb.Decl {
						if status == "ok" {
							status, detail = "undecided", "help uses "+y.Name+" inside "+v.fn.Key
						}
						return true
					}
					if latched(o) {
						uses = append(uses, o.Name()+" (latched per name)")
						return true
					}
					if d, single := x.r.singleDef(x.cb, o); single && depth < 6 {
						walk(c13val{d.rhs, x.cb, nil}, depth+1)
						return true
					}
					if status == "ok" {
						status, detail = "undecided", "help uses the variable "+y.Name+", which is neither constant nor latched per metric name"
					}
				}
				return true
			})
		}
		walk(hv, 0)
		switch status {
		case "fail":
			c.Fail(R, key, pos(c, ct.desc.Args[1]), detail)
		case "undecided":
			c.Undecided(R, key, pos(c, ct.desc.Args[1]), detail)
		default:
			c.Ok(R, key, pos(c, ct.desc.Args[1]), "help depends on "+strings.Join(uses, ", "))
		}
	}
	c.Floor(R, 2)
}

// ---------------------------------------------------------------------------
// C13-R9 where the label sets come from
// ---------------------------------------------------------------------------

func (x *c13ctx) ruleSource() {
	c := x.c
	const R = "C13-R9"
	c.Rule(R, "LABEL SETS: the channel the callback ranges over is fed by `go <the callback's metric>.EmitLabelSets(ch)`, started on every path to the loop; EmitLabelSets sends, for every element lv of the receiver's LabelValues exactly once, &LabelSet{zip(<receiver>.Keys, lv.Labels), lv.Value}; zip maps keys[i] to values[i] for every index of values")
	info := x.cb.Info()
	chLoop := identObj(info, x.loop.X)
	var spawns []core.Hit
	for _, h := range x.g.Find(func(n ast.Node) bool { _, ok := n.(*ast.GoStmt); return ok }) {
		gs := h.N.(*ast.GoStmt)
		if x.cb.CalleeID(gs.Call) != c13EmitSets || len(gs.Call.Args) != 1 {
			continue
		}
		key := x.cb.Key + "|go EmitLabelSets"
		switch {
		case x.r.objOf(x.v(core.RecvExpr(gs.Call))) != x.mObj:
			c.Fail(R, key, pos(c, gs), "the label sets exported under this metric's name are those of another metric ("+exprStr(core.RecvExpr(gs.Call))+")")
		case chLoop == nil || identObj(info, gs.Call.Args[0]) != chLoop:
			c.Fail(R, key, pos(c, gs), "the emitter writes to a channel the loop does not read: no label set is exported and the scrape blocks")
		default:
			spawns = append(spawns, h)
			c.Ok(R, key, pos(c, gs), "same metric, same channel")
		}
	}
	if len(spawns) > 0 {
		hp := core.Point{B: x.head, I: 0}
		tr, found := pathAvoiding(x.g, nil, []core.Point{hp}, core.HitPoints(spawns))
		c.Verdict(!found, R, x.cb.Key+"|emitter started before the loop", pos(c, x.loop), "on every path", "the loop over the label sets can be reached without starting the emitter: the scrape blocks forever on an empty channel", tr...)
	} else {
		c.Undecided(R, x.cb.Key+"|go EmitLabelSets", pos(c, x.loop), "no `go m.EmitLabelSets(ch)` feeding the loop found")
	}
	// EmitLabelSets
	ef := c.MustFn(R, c13EmitSets)
	fLV := c13structField(c, "internal/metrics", "LabelValue", "Labels")
	fVal := c13structField(c, "internal/metrics", "LabelValue", "Value")
	if ef != nil && ef.Decl.Recv != nil && len(ef.Decl.Recv.List[0].Names) == 1 && len(ef.Type.Params.List) == 1 && len(ef.Type.Params.List[0].Names) == 1 && fLV != nil && fVal != nil {
		einfo := ef.Info()
		recv := einfo.Defs[ef.Decl.Recv.List[0].Names[0]]
		chp := einfo.Defs[ef.Type.Params.List[0].Names[0]]
		eg := ef.Graph()
		key := c13EmitSets + "|one label set per label value"
		var loop *ast.RangeStmt
		for _, rs := range rangeStmts(ef) {
			if x.r.fieldOf(c13val{rs.X, ef, nil}, recv, x.fLabelValues) {
				loop = rs
			}
		}
		sends := eg.Find(func(n ast.Node) bool {
			s, ok := n.(*ast.SendStmt)
			return ok && identObj(einfo, s.Chan) == chp
		})
		if loop == nil || loop.Value == nil {
			c.Fail(R, key, pos(c, ef.Decl), "EmitLabelSets does not range over the receiver's LabelValues: label sets are missing from every export")
		} else {
			cnt, ok := iterationCount(eg, loop, core.HitPoints(sends))
			early := earlyLoopExits(c, eg, loop)
			switch {
			case !ok || cnt.Min != 1 || cnt.Max != 1:
				c.Fail(R, key, pos(c, loop), "a label value is sent "+cnt.String()+" times to the exporters instead of exactly once: samples are missing or duplicated (a duplicate fails the whole scrape)")
			case len(early) > 0:
				c.Fail(R, key, pos(c, loop), "the loop over the label values can be left early: "+early[0])
			default:
				c.Ok(R, key, pos(c, loop), "exactly one send per element")
			}
			lv := identObj(einfo, loop.Value)
			for i, s := range sends {
				skey := fmt.Sprintf("%s|send#%d contents", c13EmitSets, i+1)
				v := x.r.resolve(c13val{s.N.(*ast.SendStmt).Value, ef, nil}, true)
				if u, isU := v.e.(*ast.UnaryExpr); isU && u.Op == token.AND {
					v = x.r.sub(v, core.Unparen(u.X))
				}
				lit, isLit := v.e.(*ast.CompositeLit)
				if !isLit || len(lit.Elts) != 2 || !c13namedIs(einfo.TypeOf(lit), "internal/metrics", "LabelSet") {
					c.Undecided(R, skey, pos(c, s.N), "the value sent is not a two-element LabelSet literal")
					continue
				}
				var labels, dat ast.Expr
				for j, e := range lit.Elts {
					if kv, isKV := e.(*ast.KeyValueExpr); isKV {
						switch einfo.Uses[kv.Key.(*ast.Ident)] {
						case types.Object(x.fLabels):
							labels = kv.Value
						case types.Object(x.fDatum):
							dat = kv.Value
						}
					} else if j == 0 {
						labels = e
					} else {
						dat = e
					}
				}
				zc, zid, zv := x.r.callOf(x.r.sub(v, labels), false)
				switch {
				case labels == nil || dat == nil || zc == nil || zid != c13Zip || len(zc.Args) != 2:
					c.Undecided(R, skey, pos(c, s.N), "labels are not built by zip(keys, values)")
				case x.r.fieldOf(x.r.sub(zv, zc.Args[0]), lv, fLV) && x.r.fieldOf(x.r.sub(zv, zc.Args[1]), recv, x.fKeys):
					c.Fail(R, skey, pos(c, zc), "zip receives the label values as keys and the metric's keys as values: every exported label has name and value exchanged")
				case !x.r.fieldOf(x.r.sub(zv, zc.Args[0]), recv, x.fKeys) || !x.r.fieldOf(x.r.sub(zv, zc.Args[1]), lv, fLV):
					c.Fail(R, skey, pos(c, zc), "the label map is not zip(<metric>.Keys, <this label value>.Labels): "+exprStr(zc))
				case !x.r.fieldOf(x.r.sub(v, dat), lv, fVal):
					c.Fail(R, skey, pos(c, s.N), "the datum of the label set is not the Value of the same label value whose labels it carries: "+exprStr(dat))
				default:
					c.Ok(R, skey, pos(c, s.N), "&LabelSet{zip(m.Keys, lv.Labels), lv.Value}")
				}
			}
		}
	} else if ef != nil {
		c.Undecided(R, c13EmitSets, pos(c, ef.Decl), "unexpected signature or LabelValue fields not found")
	}
	// zip
	if zf := c.MustFn(R, c13Zip); zf != nil {
		key := c13Zip + "|keys[i] -> values[i]"
		zi := zf.Info()
		var params []types.Object
		for _, fl := range zf.Type.Params.List {
			for _, nm := range fl.Names {
				params = append(params, zi.Defs[nm])
			}
		}
		ok, why := false, "no `for i, v := range values { r[keys[i]] = v }` found"
		if len(params) == 2 {
			for _, rs := range rangeStmts(zf) {
				if identObj(zi, rs.X) != params[1] || rs.Key == nil || rs.Value == nil {
					if identObj(zi, rs.X) == params[0] {
						why = "zip ranges over the keys: a label value list shorter than the key list panics, and values beyond it are never dropped"
					}
					continue
				}
				iObj, vObj := identObj(zi, rs.Key), identObj(zi, rs.Value)
				st := zf.Graph().Find(func(n ast.Node) bool {
					as, isAs := n.(*ast.AssignStmt)
					if !isAs || len(as.Lhs) != 1 || len(as.Rhs) != 1 || !c13within(as, rs.Body.Pos(), rs.Body.End()) {
						return false
					}
					ix, isIx := core.Unparen(as.Lhs[0]).(*ast.IndexExpr)
					if !isIx {
						return false
					}
					kx, isKx := core.Unparen(ix.Index).(*ast.IndexExpr)
					return isKx && identObj(zi, kx.X) == params[0] && identObj(zi, kx.Index) == iObj && identObj(zi, as.Rhs[0]) == vObj
				})
				if len(st) == 1 {
					if cnt, okc := iterationCount(zf.Graph(), rs, core.HitPoints(st)); okc && cnt.Min == 1 && cnt.Max == 1 {
						ok = true
					}
				}
			}
		}
		c.Verdict(ok, R, key, pos(c, zf.Decl), "r[keys[i]] = values[i] for every i", "zip does not map the i-th key to the i-th value ("+why+"): exported labels do not carry the store's values")
	}
	c.Floor(R, 5)
}

// ---------------------------------------------------------------------------
// C13-R10 configuration wiring
// ---------------------------------------------------------------------------

func (x *c13ctx) ruleWiring() {
	c := x.c
	const R = "C13-R10"
	c.Rule(R, "CONFIGURATION: the two switches the callback branches on are false by default and set only, to true, by exporter.OmitProgLabel resp. exporter.EmitTimestamp; mtail.OmitProgLabel / mtail.EmitMetricTimestamp append exactly that exporter option to the server's exporter options, which initExporter hands to exporter.New before registering the exporter with the registry served at /metrics; main appends them under `!*emit_prog_label` resp. `*emit_metric_timestamp`")
	// (a) writes to the fields
	for _, f := range []struct {
		field  *types.Var
		setter string
	}{{x.fOmit, "internal/exporter.OmitProgLabel"}, {x.fEmitTS, "internal/exporter.EmitTimestamp"}} {
		n := 0
		for _, sf := range shipped(c) {
			if core.Rel(sf.Pkg.PkgPath) != "internal/exporter" {
				continue
			}
			info := sf.Info()
			core.InspectNoLit(sf.Body, func(nd ast.Node) bool {
				switch s := nd.(type) {
				case *ast.AssignStmt:
					for i, l := range s.Lhs {
						sel, ok := core.Unparen(l).(*ast.SelectorExpr)
						if !ok || info.Uses[sel.Sel] != types.Object(f.field) {
							continue
						}
						n++
						key := fmt.Sprintf("%s|write to %s", sf.Key, f.field.Name())
						val, isC := false, false
						if len(s.Rhs) == len(s.Lhs) && s.Tok == token.ASSIGN {
							val, isC = constBool(info, s.Rhs[i])
						}
						inSetter := sf.Lit != nil && sf.Parent != nil && sf.Parent.Key == f.setter
						switch {
						case !isC:
							c.Undecided(R, key, pos(c, s), "the switch is assigned a non-constant value")
						case !val && inSetter:
							c.Fail(R, key, pos(c, s), "the option "+f.setter+" sets "+f.field.Name()+" to false: the switch can never be turned on")
						case !inSetter:
							c.Fail(R, key, pos(c, s), f.field.Name()+" is written outside "+f.setter+": the exposition no longer follows the configured option")
						default:
							c.Ok(R, key, pos(c, s), "set to true by "+f.setter)
						}
					}
				case *ast.KeyValueExpr:
					if id, ok := s.Key.(*ast.Ident); ok && info.Uses[id] == types.Object(f.field) {
						n++
						c.Fail(R, sf.Key+"|literal sets "+f.field.Name(), pos(c, s), f.field.Name()+" is initialised in a struct literal: its default is no longer `false`")
					}
				}
				return true
			})
		}
		if n == 0 {
			c.Fail(R, "internal/exporter|"+f.field.Name()+" never set", "-", "no option sets "+f.field.Name()+": the configured behaviour cannot be selected")
		}
	}
	// (b) the mtail options
	mp := c.Prog.Pkgs["internal/mtail"]
	fEOpts := c13structField(c, "internal/mtail", "Server", "eOpts")
	if mp == nil || fEOpts == nil {
		c.Undecided(R, "internal/mtail", "-", "package or Server.eOpts not found")
		return
	}
	for _, o := range []struct{ opt, want string }{{"OmitProgLabel", "internal/exporter.OmitProgLabel"}, {"EmitMetricTimestamp", "internal/exporter.EmitTimestamp"}} {
		key := "internal/mtail." + o.opt
		var spec *ast.ValueSpec
		idx := 0
		for _, file := range mp.Syntax {
			for _, d := range file.Decls {
				gd, ok := d.(*ast.GenDecl)
				if !ok || gd.Tok != token.VAR {
					continue
				}
				for _, s := range gd.Specs {
					vs := s.(*ast.ValueSpec)
					for i, nm := range vs.Names {
						if nm.Name == o.opt && len(vs.Values) == len(vs.Names) {
							spec, idx = vs, i
						}
					}
				}
			}
		}
		if spec == nil {
			c.Undecided(R, key, "-", "package-level option variable not found")
			continue
		}
		var got []string
		ast.Inspect(spec.Values[idx], func(n ast.Node) bool {
			as, ok := n.(*ast.AssignStmt)
			if !ok || len(as.Lhs) != 1 || len(as.Rhs) != 1 {
				return true
			}
			sel, isSel := core.Unparen(as.Lhs[0]).(*ast.SelectorExpr)
			if !isSel || mp.TypesInfo.Uses[sel.Sel] != types.Object(fEOpts) {
				return true
			}
			ast.Inspect(as.Rhs[0], func(m ast.Node) bool {
				if call, isCall := m.(*ast.CallExpr); isCall {
					if fo, isF := calleeObj(mp.TypesInfo, call).(*types.Func); isF && fo.Pkg() != nil && core.Rel(fo.Pkg().Path()) == "internal/exporter" {
						got = append(got, core.FuncID(fo))
					}
				}
				return true
			})
			return true
		})
		c.Verdict(len(got) == 1 && got[0] == o.want, R, key, pos(c, spec), "appends "+o.want+"() to the exporter options",
			fmt.Sprintf("the server option %s hands %v to the exporter instead of %s(): the flag switches a different behaviour (or nothing)", o.opt, got, o.want))
	}
	// (c) initExporter
	if ie := c.MustFn(R, "internal/mtail.(*Server).initExporter"); ie != nil && ie.Decl.Recv != nil && len(ie.Decl.Recv.List[0].Names) == 1 {
		recv := ie.Info().Defs[ie.Decl.Recv.List[0].Names[0]]
		key := ie.Key + "|options reach the exporter"
		news := ie.Graph().CallsTo("internal/exporter.New")
		ok := false
		for _, h := range news {
			call := h.N.(*ast.CallExpr)
			if call.Ellipsis.IsValid() && len(call.Args) > 0 && x.r.fieldOf(c13val{call.Args[len(call.Args)-1], ie, nil}, recv, fEOpts) {
				ok = true
			}
		}
		c.Verdict(ok, R, key, pos(c, ie.Decl), "exporter.New(..., m.eOpts...)", "initExporter does not pass the collected exporter options to exporter.New: OmitProgLabel / EmitTimestamp never reach the exporter")
		fE := c13structField(c, "internal/mtail", "Server", "e")
		fReg := c13structField(c, "internal/mtail", "Server", "reg")
		regs := ie.Graph().Calls(func(id string, call *ast.CallExpr) bool {
			if !strings.HasSuffix(id, ".MustRegister") && !strings.HasSuffix(id, ".Register") {
				return false
			}
			if re := core.RecvExpr(call); re == nil || !x.r.fieldOf(c13val{re, ie, nil}, recv, fReg) {
				return false
			}
			for _, a := range call.Args {
				if x.r.fieldOf(c13val{a, ie, nil}, recv, fE) {
					return true
				}
			}
			return false
		})
		rkey := ie.Key + "|exporter registered"
		var nilExits []core.Point
		for _, e := range normalExits(ie.Graph()) {
			if e.Kind != "return" || returnsNil(ie.Info(), e.Ret) {
				nilExits = append(nilExits, e.P)
			}
		}
		if tr, found := pathAvoiding(ie.Graph(), nil, nilExits, core.HitPoints(regs)); found || len(regs) == 0 {
			c.Fail(R, rkey, pos(c, ie.Decl), "initExporter can succeed without registering the exporter with the server's registry: /metrics shows no program metrics", tr...)
		} else {
			c.Ok(R, rkey, pos(c, regs[0].N), "m.reg registers m.e on every successful path")
		}
		if hs := c.MustFn(R, "internal/mtail.(*Server).initHTTPServer"); hs != nil && hs.Decl.Recv != nil && len(hs.Decl.Recv.List[0].Names) == 1 {
			hrecv := hs.Info().Defs[hs.Decl.Recv.List[0].Names[0]]
			served := false
			for _, h := range hs.Graph().Calls(func(id string, call *ast.CallExpr) bool { return strings.HasSuffix(id, "promhttp.HandlerFor") }) {
				call := h.N.(*ast.CallExpr)
				if len(call.Args) >= 1 && x.r.fieldOf(c13val{call.Args[0], hs, nil}, hrecv, fReg) {
					served = true
				}
			}
			c.Verdict(served, R, hs.Key+"|/metrics serves the registry", pos(c, hs.Decl), "promhttp.HandlerFor(m.reg, ...)", "the HTTP handler does not serve the registry the exporter is registered with")
		}
	}
	// (d) main
	if mf := c.MustFn(R, "cmd/mtail.main"); mf != nil {
		minfo := mf.Info()
		for _, o := range []struct {
			opt, flagName string
			negated       bool
		}{{"OmitProgLabel", "emit_prog_label", true}, {"EmitMetricTimestamp", "emit_metric_timestamp", false}} {
			key := "cmd/mtail.main|" + o.opt
			var uses []*ast.Ident
			core.InspectNoLit(mf.Body, func(n ast.Node) bool {
				if id, ok := n.(*ast.Ident); ok && id.Name == o.opt {
					if v, isV := minfo.Uses[id].(*types.Var); isV && v.Pkg() != nil && core.Rel(v.Pkg().Path()) == "internal/mtail" {
						uses = append(uses, id)
					}
				}
				return true
			})
			if len(uses) != 1 {
				c.Undecided(R, key, pos(c, mf.Decl), fmt.Sprintf("mtail.%s is used %d times in main (want once)", o.opt, len(uses)))
				continue
			}
			ifs := mf.EnclosingIfs(uses[0].Pos())
			if len(ifs) != 1 || !ifs[0].InThen {
				c.Undecided(R, key, pos(c, uses[0]), "the option is not appended inside the then-branch of exactly one if")
				continue
			}
			cond := core.Unparen(ifs[0].If.Cond)
			neg := false
			if u, ok := cond.(*ast.UnaryExpr); ok && u.Op == token.NOT {
				neg, cond = true, core.Unparen(u.X)
			}
			star, ok := cond.(*ast.StarExpr)
			var flagName string
			if ok {
				if fv, isV := identObj(minfo, star.X).(*types.Var); isV {
					flagName = c13flagName(mf, fv)
				}
			}
			switch {
			case flagName == "":
				c.Undecided(R, key, pos(c, ifs[0].If), "condition is not (the negation of) a flag.Bool variable: "+exprStr(ifs[0].If.Cond))
			case flagName != o.flagName:
				c.Fail(R, key, pos(c, ifs[0].If), fmt.Sprintf("mtail.%s is selected by the flag -%s instead of -%s", o.opt, flagName, o.flagName))
			case neg != o.negated:
				c.Fail(R, key, pos(c, ifs[0].If), fmt.Sprintf("mtail.%s is selected when -%s is %v: the flag has the opposite effect on the exposition", o.opt, o.flagName, !neg))
			default:
				c.Ok(R, key, pos(c, ifs[0].If), exprStr(ifs[0].If.Cond))
			}
		}
	}
	c.Floor(R, 9)
}

// calleeObj resolves the callee of a call through a types.Info.
func calleeObj(info *types.Info, call *ast.CallExpr) types.Object {
	switch f := core.Unparen(call.Fun).(type) {
	case *ast.Ident:
		return info.Uses[f]
	case *ast.SelectorExpr:
		return info.Uses[f.Sel]
	}
	return nil
}

// c13flagName returns the name given to flag.Bool in the initialiser of the package variable v.
func c13flagName(mf *core.Func, v *types.Var) string {
	name := ""
	for _, file := range mf.Pkg.Syntax {
		for _, d := range file.Decls {
			gd, ok := d.(*ast.GenDecl)
			if !ok || gd.Tok != token.VAR {
				continue
			}
			for _, s := range gd.Specs {
				vs := s.(*ast.ValueSpec)
				for i, nm := range vs.Names {
					if mf.Info().Defs[nm] != types.Object(v) || len(vs.Values) != len(vs.Names) {
						continue
					}
					call, ok := core.Unparen(vs.Values[i]).(*ast.CallExpr)
					if !ok || len(call.Args) < 1 {
						continue
					}
					if fo, isF := calleeObj(mf.Info(), call).(*types.Func); !isF || core.FuncID(fo) != "flag.Bool" {
						continue
					}
					if tv, has := mf.Info().Types[call.Args[0]]; has && tv.Value != nil && tv.Value.Kind() == constant.String {
						name = constant.StringVal(tv.Value)
					}
				}
			}
		}
	}
	return name
}

// ---------------------------------------------------------------------------

func c13(c *core.Check) {
	c.Explain = "Decides structural necessary conditions of C13 on the current source of the Prometheus collector, for every control-flow path: the store callback of Exporter.Collect is partially evaluated over the finite configuration space (every value of metrics.Kind x omitProgLabel x emitTimestamp x constructor succeeded/failed x value representable) by pruning its control-flow graph, and per configuration path rules are decided: (R1) the sample name is ReplaceAll(m.Name, '-', '_'); (R2) which constructor each kind reaches and the value type per kind; (R3) label names and values are fresh per label set, appended pairwise from the same source, of equal length at the constructor, with the prog pair exactly when not omitted; (R4) histogram count/sum/buckets come from the same label set's datum, and GetBucketsCumByMax is a prefix sum over ascending sorted bounds covering every bucket; (R5) exactly one send per representable label set, stamped exactly when timestamps are enabled with that datum's time; (R6) a label set rejected by client_golang is left out and the loop, and Store.Range, continue; (R7) the value is the datum's own value for every datum type that has one, and a datum without one is not exported as a made-up number; (R8) help text is constant per exported name; (R9) the label sets are produced one per label value with keys zipped to values; (R10) the two switches are wired to the documented options and flags. NOT decided: what client_golang's registry and the text encoder do with the samples (uniqueness checks, float formatting, label escaping), arithmetic in Observe (C21), concurrency (C11/C12), hand-built stores that pair a kind with a datum type the compiler never produces."
	c.Assume = append(c.Assume,
		"prometheus.NewDesc/NewConstMetric/NewConstHistogram/NewMetricWithTimestamp and the registry behave as documented in client_golang v1.20.4",
		"Buckets.Observe increments exactly one bucket and the count per observation (decided under C21), so the last cumulative bucket equals the count",
		"the upper bounds of one histogram datum are distinct (codegen rejects non-increasing bucket lists)",
		"the fields omitProgLabel/emitTimestamp and the error/ok variables are not changed between the branch that tests them and the statements it guards (their writers are enumerated in R10 / the anchors)")
	x := &c13ctx{c: c, r: &c13res{c: c, defs: map[*ast.FuncDecl]map[types.Object][]c13def{}}}
	if !x.anchors() {
		return
	}
	x.ruleName()
	x.prepLabels()
	vf := x.prepValue()
	x.configs()
	c.Extra["c13_configurations"] = len(x.facts)
	x.ruleKinds()
	x.ruleLabels()
	x.ruleHistogram()
	x.ruleEmit()
	x.ruleValue(vf)
	x.ruleHelp()
	x.ruleSource()
	x.ruleWiring()
	if os.Getenv("C13_DEBUG") != "" {
		for _, o := range c.Obs {
			fmt.Printf("  [%s] %s %s @ %s: %s\n", o.Status, o.Rule, o.Construct, o.Pos, o.Detail)
		}
	}
}
