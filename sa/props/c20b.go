package props

import (
	"fmt"
	"go/ast"
	"go/types"

	"verif/sa/core"
)

// C20-R1f NO-GAP: a reload retires the running version and installs its
// successor in ONE critical section of the handle lock.  If the lock is
// released in between, a line that the fan-out delivers in the gap finds no
// entry for the program and reaches neither version.
func init() { register("C20", c20NoGap) }

func c20NoGap(c *core.Check) {
	const rule = "C20-R1f"
	c.Rule(rule, "NO-GAP: in every function of package runtime that installs a handle (an indexed store into Runtime.handles) and, on a path before that, retires one (a delete from Runtime.handles or the close of a handle's line channel, in the function or in a function it calls), the removal and the installation lie in one uninterrupted hold of Runtime.handleMu's write lock: the removal is not made by a callee that takes and releases the lock itself, and no path from the removal to the installation passes a release of the lock")
	field := structField(c, "internal/runtime", "Runtime", "handles")
	if field == nil {
		c.Undecided(rule, "runtime.Runtime.handles", "-", "field not found")
		return
	}
	// functions that delete from the map themselves, and whether they operate the lock
	deleters := map[*core.Func]bool{}
	for _, sf := range shipped(c) {
		if core.Rel(sf.Pkg.PkgPath) != "internal/runtime" {
			continue
		}
		if len(mapDeletesOn(sf.Graph(), field)) > 0 || len(c20HandleCloses(sf, field)) > 0 {
			deleters[sf] = true
		}
	}
	n := 0
	for _, sf := range shipped(c) {
		if core.Rel(sf.Pkg.PkgPath) != "internal/runtime" {
			continue
		}
		g := sf.Graph()
		installs := mapStoresOn(g, field)
		if len(installs) == 0 {
			continue
		}
		c.Analysed(sf)
		held := g.MustHold()
		lockPath := ""
		for _, ev := range g.LockEvents() {
			if fieldOfNamed(sf, ev.Call, "handleMu") {
				lockPath = ev.Path
			}
		}
		var releases []core.Point
		for _, ev := range g.LockEvents() {
			if !ev.Acquire && !ev.Deferred && ev.Path == lockPath && lockPath != "" {
				releases = append(releases, ev.P)
			}
		}
		// removals: direct deletes and calls of deleting functions
		type removal struct {
			h    core.Hit
			what string
			via  *core.Func
		}
		var rems []removal
		for _, h := range mapDeletesOn(g, field) {
			rems = append(rems, removal{h, "delete", nil})
		}
		for _, h := range c20HandleCloses(sf, field) {
			rems = append(rems, removal{h, "close of the running version's channel", nil})
		}
		for _, h := range g.Find(func(x ast.Node) bool { _, ok := x.(*ast.CallExpr); return ok }) {
			call := h.N.(*ast.CallExpr)
			if cf := sf.CalleeFunc(call); cf != nil && cf != sf && deleters[cf] && !h.InGo {
				rems = append(rems, removal{h, "call of " + cf.Key, cf})
			}
		}
		ord := 0
		for _, in := range installs {
			for _, rm := range rems {
				tr, reach := g.Search(core.Query{From: &rm.h.P, Goal: core.At(in.P)})
				if !reach {
					continue
				}
				ord++
				n++
				key := fmt.Sprintf("%s|retire→install#%d", sf.Key, ord)
				if lockPath == "" {
					c.Undecided(rule, key, pos(c, rm.h.N), "the function does not operate Runtime.handleMu itself: whether its callers hold it across both steps is not followed")
					continue
				}
				heldAtRm := core.Holds(held.At(rm.h.P), lockPath, "W")
				heldAtIn := core.Holds(held.At(in.P), lockPath, "W")
				_, gap := g.Search(core.Query{From: &rm.h.P, Goal: core.At(in.P), Avoid: nil, AvoidEdge: nil})
				_ = gap
				// is there a path from the removal to the installation that passes a release?
				passesRelease := false
				for _, rp := range releases {
					if _, a := g.Search(core.Query{From: &rm.h.P, Goal: core.At(rp)}); a {
						if _, b := g.Search(core.Query{From: &rp, Goal: core.At(in.P)}); b {
							passesRelease = true
						}
					}
				}
				calleeLocks := false
				if rm.via != nil {
					for _, ev := range rm.via.Graph().LockEvents() {
						if fieldOfNamed(rm.via, ev.Call, "handleMu") {
							calleeLocks = true
						}
					}
				}
				switch {
				case heldAtRm && heldAtIn && !passesRelease && !calleeLocks:
					c.Ok(rule, key, pos(c, rm.h.N), "removal and installation under one hold of the write lock")
				case calleeLocks || !heldAtRm || passesRelease:
					why := "the lock is released between the removal and the installation"
					if calleeLocks {
						why = "the removal is made by " + rm.via.Key + ", which takes and releases the handle lock itself, and the installation takes the lock again"
					} else if !heldAtRm {
						why = "the removal is not made under the write lock that covers the installation"
					}
					c.Fail(rule, key, pos(c, rm.h.N), "a reload retires the running version and installs its successor in two critical sections ("+why+"): in between the program has no handle, and a line that the fan-out delivers then reaches neither version", g.Trail(tr)...)
				default:
					c.Undecided(rule, key, pos(c, rm.h.N), "lock state at the installation not decided")
				}
			}
		}
	}
	_ = n
	c.Floor(rule, 1)
}

// fieldOfNamed: the receiver of a lock call is a selection of the field with this name on a Runtime.
func fieldOfNamed(f *core.Func, call *ast.CallExpr, name string) bool {
	r := core.RecvExpr(call)
	if r == nil {
		return false
	}
	fv, base := hbFieldOf(f.Info(), r)
	return fv != nil && fv.Name() == name && c21Named(f.Info().TypeOf(base), "internal/runtime", "Runtime")
}

// c20HandleCloses finds close(h.<chan field>) where h is a program handle of package runtime.
func c20HandleCloses(f *core.Func, field *types.Var) []core.Hit {
	info := f.Info()
	var handleT types.Type
	if m, ok := field.Type().Underlying().(*types.Map); ok {
		handleT = m.Elem()
		if p, ok := handleT.(*types.Pointer); ok {
			handleT = p.Elem()
		}
	}
	return f.Graph().Calls(func(id string, call *ast.CallExpr) bool {
		if id != "builtin.close" || len(call.Args) != 1 {
			return false
		}
		fv, base := hbFieldOf(info, resolveAlias(f, call.Args[0]))
		if fv == nil || handleT == nil {
			return false
		}
		bt := info.TypeOf(base)
		if p, ok := bt.(*types.Pointer); ok {
			bt = p.Elem()
		}
		return types.Identical(bt, handleT)
	})
}
