package props

import (
	"fmt"
	"go/ast"
	"strings"

	"verif/sa/core"
)

func init() { register("C25", c25) }

const (
	compileAndRun = "internal/runtime.(*Runtime).CompileAndRun"
	loadProgram   = "internal/runtime.(*Runtime).LoadProgram"
	unloadProgram = "internal/runtime.(*Runtime).UnloadProgram"
	runtimeNew    = "internal/runtime.New"
	vmErrorf      = "internal/runtime/vm.(*VM).errorf"
	vmExecute     = "internal/runtime/vm.(*VM).execute"
	tailPath      = "internal/tailer.(*Tailer).TailPath"
)

func c25(c *core.Check) {
	c.Explain = "Decides, for every control-flow path of the current source, that each self-monitoring counter is bumped exactly once per event: (R1) lines_total once per line received by the loader and once-per-line forwarding in the tailer; (R2) log_lines_total incremented, keyed by the stream's own name, exactly once for every line sent by a log stream, and no other code sends lines; (R3) prog_runtime_errors_total incremented exactly once per errorf and nowhere else, and the VM stops a line only through errorf or stop; (R4) every failing exit of the program load path passes exactly one load-error increment and no load increment, every successful swap exactly one load increment, the unchanged-contents short-circuit neither; (R5) unload counted exactly with the handle deletion; (R6) log_count +1/-1 paired with map insertion/removal. Counting is a min/max dataflow over the CFG (exact on all paths); what is not decided: that the events themselves are the right ones at run time, counter arithmetic inside expvar."
	c.Assume = append(c.Assume, "expvar.Int/Map.Add are atomic and exact", "a non-literal-nil error result is treated as a failing exit")

	// R1
	c.Rule("C25-R1", "ONCE-PER-LINE: in the loader's fan-out loop `for line := range lines` every iteration passes exactly one LineCount.Add(1); the tailer's per-stream loop forwards each received line with exactly one send")
	if f := c.MustFn("C25-R1", runtimeNew); f != nil {
		found := false
		for _, lf := range goLits(c, f) {
			for _, rs := range rangeStmts(lf) {
				if !isChanOfLogLine(lf.Info(), rs.X) {
					continue
				}
				found = true
				c.Analysed(lf)
				g := lf.Graph()
				adds := expvarAdds(g, "LineCount")
				cnt, ok := iterationCount(g, rs, core.HitPoints(adds))
				c.Verdict(ok && cnt.Min == 1 && cnt.Max == 1, "C25-R1", lf.Key+"|LineCount per iteration", pos(c, rs), "exactly one", "lines_total is incremented "+cnt.String()+" times per received line")
				for _, a := range adds {
					call := a.N.(*ast.CallExpr)
					v, isC := constInt(lf.Info(), call.Args[0])
					c.Verdict(isC && v == 1, "C25-R1", lf.Key+"|LineCount delta", pos(c, call), "delta 1", "lines_total is not incremented by the constant 1")
				}
				// no LineCount.Add elsewhere
			}
		}
		if !found {
			c.Undecided("C25-R1", runtimeNew, pos(c, f.Decl), "fan-out loop over the lines channel not found")
		}
		n := 0
		for _, sf := range shipped(c) {
			for _, h := range expvarAdds(sf.Graph(), "LineCount") {
				n++
				if sf.Decl != f.Decl {
					c.Fail("C25-R1", sf.Key+"|LineCount elsewhere", pos(c, h.N), "lines_total is incremented outside the loader's fan-out loop")
				}
			}
		}
	}
	if f := c.MustFn("C25-R1", tailPath); f != nil {
		for _, lf := range goLits(c, f) {
			c.Analysed(lf)
			g := lf.Graph()
			for _, rs := range rangeStmts(lf) {
				if !isChanOfLogLine(lf.Info(), rs.X) {
					continue
				}
				cnt, ok := iterationCount(g, rs, core.HitPoints(sendsOfLines(g)))
				c.Verdict(ok && cnt.Min == 1 && cnt.Max == 1, "C25-R1", lf.Key+"|forward per iteration", pos(c, rs), "exactly one send per received line", "the tailer forwards a received line "+cnt.String()+" times")
				for _, s := range sendsOfLines(g) {
					ss := s.N.(*ast.SendStmt)
					okv := identObj(lf.Info(), ss.Value) != nil && identObj(lf.Info(), ss.Value) == identObj(lf.Info(), rs.Key)
					c.Verdict(okv, "C25-R1", lf.Key+"|forwarded value", pos(c, ss), "the received line itself is forwarded", "the tailer does not forward the line it received")
				}
			}
		}
	}
	c.Floor("C25-R1", 4)

	// R2
	c.Rule("C25-R2", "COUNT-EACH-LINE: in package logstream every send of a line is preceded (since the previous send) by exactly one logLines.Add(<name>, 1) whose key is the file name put into the line, and every such Add is followed by a send; the only other sends of lines in shipped code are the tailer's forward and the loader's fan-out")
	nsend := 0
	for _, sf := range shipped(c) {
		g := sf.Graph()
		sends := sendsOfLines(g)
		if len(sends) == 0 {
			continue
		}
		c.Analysed(sf)
		rel := core.Rel(sf.Pkg.PkgPath)
		switch {
		case rel == "internal/tailer/logstream":
			adds := expvarAdds(g, "logLines")
			msg, trail, ok := pairedEvents(g, core.HitPoints(adds), core.HitPoints(sends))
			c.Verdict(ok, "C25-R2", sf.Key+"|Add/send alternate", pos(c, sends[0].N), "each send has its own Add", "log_lines_total and delivered lines disagree: "+msg, trail...)
			for i, s := range sends {
				nsend++
				ss := s.N.(*ast.SendStmt)
				key := fmt.Sprintf("%s|send#%d key", sf.Key, i+1)
				call, _ := core.Unparen(ss.Value).(*ast.CallExpr)
				if call == nil || sf.CalleeID(call) != "internal/logline.New" || len(call.Args) != 3 {
					c.Fail("C25-R2", key, pos(c, ss), "the line sent is not built by logline.New(ctx, name, text) at the send site: cannot tie the counter key to the line's file name")
					continue
				}
				name := core.PathOf(call.Args[1])
				okKey := len(adds) > 0
				for _, a := range adds {
					ac := a.N.(*ast.CallExpr)
					d, isC := constInt(sf.Info(), ac.Args[1])
					if core.PathOf(ac.Args[0]) != name || !isC || d != 1 {
						okKey = false
					}
				}
				c.Verdict(okKey, "C25-R2", key, pos(c, ss), "counter keyed by the line's file name, delta 1", "log_lines_total is keyed by something other than the file name carried by the line, or not incremented by 1")
			}
		case sf.Decl.Name.Name == "TailPath" && rel == "internal/tailer", sf.Decl.Name.Name == "New" && rel == "internal/runtime":
			// forwarders, decided under R1
		default:
			for _, s := range sends {
				c.Fail("C25-R2", sf.Key+"|uncounted send", pos(c, s.N), "a line is sent from code that is neither a log stream reader (counted per log), the tailer's forwarder nor the loader's fan-out")
			}
		}
	}
	// logLines.Add anywhere without a send in the same function is caught by alternation only where sends exist; catch the rest
	for _, sf := range shipped(c) {
		g := sf.Graph()
		if len(sendsOfLines(g)) == 0 {
			for _, h := range expvarAdds(g, "logLines") {
				c.Fail("C25-R2", sf.Key+"|Add without send", pos(c, h.N), "log_lines_total is incremented in a function that delivers no line")
			}
		}
	}
	c.Floor("C25-R2", 4)

	// R3
	c.Rule("C25-R3", "ERRORS: ProgRuntimeErrors.Add(v.name, 1) occurs exactly once on every path through errorf and nowhere else; errorf sets v.terminate on every path; every other `terminate = true` is the stop instruction or directly follows a call of errorf")
	if f := c.MustFn("C25-R3", vmErrorf); f != nil {
		g := f.Graph()
		adds := expvarAdds(g, "ProgRuntimeErrors")
		ctr := g.Count(nil, core.HitPoints(adds), nil)
		for _, e := range normalExits(g) {
			cnt, _ := ctr.At(e.P)
			c.Verdict(cnt.Min == 1 && cnt.Max == 1, "C25-R3", vmErrorf+"|count|exit="+e.String(), ppos(c, e.P, f), "exactly one increment", "a path through errorf increments prog_runtime_errors_total "+cnt.String()+" times")
		}
		for _, a := range adds {
			call := a.N.(*ast.CallExpr)
			d, isC := constInt(f.Info(), call.Args[1])
			c.Verdict(core.PathOf(call.Args[0]) == recvIdent(f)+".name" && isC && d == 1, "C25-R3", vmErrorf+"|key", pos(c, call), "keyed by the program's own name, delta 1", "the runtime error counter is not keyed by the VM's own program name with delta 1")
		}
		term := g.Find(func(n ast.Node) bool {
			as, ok := n.(*ast.AssignStmt)
			return ok && len(as.Lhs) == 1 && strings.HasSuffix(core.PathOf(as.Lhs[0]), ".terminate") && exprStr(as.Rhs[0]) == "true"
		})
		if tr, found := pathAvoiding(g, nil, core.ExitPoints(normalExits(g)), core.HitPoints(term)); found {
			c.Fail("C25-R3", vmErrorf+"|terminates", pos(c, f.Decl), "errorf can return without stopping the line: execution continues after a counted error and may raise (and count) further errors for the same fault", tr...)
		} else {
			c.Ok("C25-R3", vmErrorf+"|terminates", pos(c, f.Decl), "terminate set on every path")
		}
	}
	for _, sf := range shipped(c) {
		g := sf.Graph()
		for _, h := range expvarAdds(g, "ProgRuntimeErrors") {
			if sf.Key != vmErrorf {
				c.Fail("C25-R3", sf.Key+"|Add elsewhere", pos(c, h.N), "prog_runtime_errors_total is incremented outside errorf")
			}
		}
		if core.Rel(sf.Pkg.PkgPath) != "internal/runtime/vm" || sf.Key == vmErrorf {
			continue
		}
		for i, h := range g.Find(func(n ast.Node) bool {
			as, ok := n.(*ast.AssignStmt)
			return ok && len(as.Lhs) == 1 && strings.HasSuffix(core.PathOf(as.Lhs[0]), ".terminate") && exprStr(as.Rhs[0]) == "true"
		}) {
			c.Analysed(sf)
			key := fmt.Sprintf("%s|terminate#%d", sf.Key, i+1)
			// allowed: inside `case code.Stop`, or every path to it passes an errorf call
			if inCase(sf, h.N, "code.Stop") {
				c.Ok("C25-R3", key, pos(c, h.N), "stop instruction")
				continue
			}
			errs := g.CallsTo(vmErrorf)
			if tr, found := pathAvoiding(g, nil, []core.Point{h.P}, core.HitPoints(errs)); found {
				c.Fail("C25-R3", key, pos(c, h.N), "the VM aborts the line without counting a runtime error", tr...)
			} else {
				c.Ok("C25-R3", key, pos(c, h.N), "follows errorf")
			}
		}
	}
	c.Floor("C25-R3", 5)

	// R4
	c.Rule("C25-R4", "LOAD-ACCOUNTING: in CompileAndRun every return of a non-nil error passes exactly one ProgLoadErrors.Add(name,1) and no ProgLoads.Add; the handle swap and every nil return after it pass exactly one ProgLoads.Add(name,1) and no ProgLoadErrors.Add; the unchanged-contents return passes neither. In LoadProgram every error return passes exactly one of {ProgLoadErrors.Add, call of CompileAndRun}")
	if f := c.MustFn("C25-R4", compileAndRun); f != nil {
		g := f.Graph()
		errAdds := expvarAdds(g, "ProgLoadErrors")
		okAdds := expvarAdds(g, "ProgLoads")
		ce := g.Count(nil, core.HitPoints(errAdds), nil)
		co := g.Count(nil, core.HitPoints(okAdds), nil)
		for _, e := range normalExits(g) {
			ne, _ := ce.At(e.P)
			no, _ := co.At(e.P)
			key := compileAndRun + "|exit=" + e.String()
			if e.Kind == "return" && !returnsNil(f.Info(), e.Ret) {
				c.Verdict(ne.Min == 1 && ne.Max == 1 && no.Max == 0, "C25-R4", key, ppos(c, e.P, f), "one load error, no load",
					fmt.Sprintf("a failing load (%s) is counted %s times in prog_load_errors_total and %s times in prog_loads_total; want exactly 1 and 0", exprStr(e.Ret.Results[len(e.Ret.Results)-1]), ne.String(), no.String()))
			} else {
				c.Verdict(ne.Max == 0 && no.Min == no.Max && no.Max <= 1, "C25-R4", key, ppos(c, e.P, f), "no load error; loads="+no.String(),
					fmt.Sprintf("a successful return passes %s load-error increments and %s load increments", ne.String(), no.String()))
			}
		}
		stores := mapStores(g, ".handles")
		for i, s := range stores {
			no, _ := co.At(s.P)
			ne, _ := ce.At(s.P)
			c.Verdict(no.Min == 1 && no.Max == 1 && ne.Max == 0, "C25-R4", fmt.Sprintf("%s|swap#%d", compileAndRun, i+1), pos(c, s.N), "exactly one load counted before the swap",
				"the handle swap is reached with "+no.String()+" load increments and "+ne.String()+" load-error increments")
		}
		if len(stores) == 0 {
			c.Undecided("C25-R4", compileAndRun+"|swap", pos(c, f.Decl), "no store into r.handles found")
		}
		// the short-circuit: return inside the if that compares content hashes
		for _, is := range ifsWhere(f, func(is *ast.IfStmt) bool { return exprCalls(f, is.Cond, "bytes.Equal") }) {
			if start, ok := branchStart(g, is, true); ok {
				all := append(core.HitPoints(errAdds), core.HitPoints(okAdds)...)
				if tr, found := pathAvoiding(g, start, all, nil); found {
					c.Fail("C25-R4", compileAndRun+"|unchanged", pos(c, is), "reloading unchanged contents bumps a load counter", tr...)
				} else {
					c.Ok("C25-R4", compileAndRun+"|unchanged", pos(c, is), "no counter on the unchanged-contents path")
				}
			}
		}
		for _, a := range append(errAdds, okAdds...) {
			call := a.N.(*ast.CallExpr)
			d, isC := constInt(f.Info(), call.Args[1])
			c.Verdict(identObj(f.Info(), call.Args[0]) == paramObj(f, "name") && isC && d == 1, "C25-R4", compileAndRun+"|key", pos(c, call), "keyed by name, delta 1", "a load counter is not keyed by the program name with delta 1")
		}
	}
	if f := c.MustFn("C25-R4", loadProgram); f != nil {
		g := f.Graph()
		ev := append(core.HitPoints(expvarAdds(g, "ProgLoadErrors")), core.HitPoints(g.CallsTo(compileAndRun))...)
		ctr := g.Count(nil, ev, nil)
		for _, e := range normalExits(g) {
			n, _ := ctr.At(e.P)
			key := loadProgram + "|exit=" + e.String()
			if e.Kind == "return" && !returnsNil(f.Info(), e.Ret) {
				c.Verdict(n.Min == 1 && n.Max == 1, "C25-R4", key, ppos(c, e.P, f), "counted once", "a failing LoadProgram exit is counted "+n.String()+" times in prog_load_errors_total")
			} else {
				c.Verdict(n.Max <= 1, "C25-R4", key, ppos(c, e.P, f), "at most one accounting event", "a LoadProgram exit passes "+n.String()+" accounting events")
			}
		}
	}
	for _, sf := range shipped(c) {
		if sf.Decl.Name.Name == "CompileAndRun" || sf.Decl.Name.Name == "LoadProgram" {
			continue
		}
		for _, v := range []string{"ProgLoadErrors", "ProgLoads"} {
			for _, h := range expvarAdds(sf.Graph(), v) {
				c.Fail("C25-R4", sf.Key+"|"+v+" elsewhere", pos(c, h.N), v+" is incremented outside the load path")
			}
		}
	}
	c.Floor("C25-R4", 12)

	// R5
	c.Rule("C25-R5", "UNLOAD: in UnloadProgram delete(r.handles, name) and ProgUnloads.Add(name,1) strictly alternate on every path, and ProgUnloads is incremented nowhere else")
	if f := c.MustFn("C25-R5", unloadProgram); f != nil {
		g := f.Graph()
		dels := g.Calls(func(id string, call *ast.CallExpr) bool {
			return id == "builtin.delete" && strings.HasSuffix(core.PathOf(call.Args[0]), ".handles")
		})
		adds := expvarAdds(g, "ProgUnloads")
		if len(dels) == 0 || len(adds) == 0 {
			c.Fail("C25-R5", unloadProgram, pos(c, f.Decl), "UnloadProgram does not both delete the handle and count the unload")
		} else {
			msg, tr, ok := pairedEvents(g, core.HitPoints(dels), core.HitPoints(adds))
			c.Verdict(ok, "C25-R5", unloadProgram+"|delete/Add", pos(c, dels[0].N), "paired", "prog_unloads_total and actual unloads disagree: "+msg, tr...)
		}
	}
	for _, sf := range shipped(c) {
		if sf.Key == unloadProgram {
			continue
		}
		for _, h := range expvarAdds(sf.Graph(), "ProgUnloads") {
			c.Fail("C25-R5", sf.Key+"|ProgUnloads elsewhere", pos(c, h.N), "prog_unloads_total is incremented outside UnloadProgram")
		}
	}
	c.Floor("C25-R5", 1)

	// R6
	c.Rule("C25-R6", "LOG-COUNT: in TailPath the insertion into the stream map and logCount.Add(1) alternate; in its per-stream goroutine the deletion and logCount.Add(-1) alternate")
	if f := c.MustFn("C25-R6", tailPath); f != nil {
		g := f.Graph()
		st := mapStores(g, ".logstreams")
		var plus, minus []core.Hit
		classify := func(gg *core.Graph, ff *core.Func) {
			for _, h := range expvarAdds(gg, "logCount") {
				d, isC := constInt(ff.Info(), h.N.(*ast.CallExpr).Args[0])
				switch {
				case isC && d == 1:
					plus = append(plus, h)
				case isC && d == -1:
					minus = append(minus, h)
				default:
					c.Fail("C25-R6", ff.Key+"|delta", pos(c, h.N), "log_count changed by something other than +1/-1")
				}
			}
		}
		classify(g, f)
		msg, tr, ok := pairedEvents(g, core.HitPoints(st), core.HitPoints(plus))
		c.Verdict(ok && len(st) > 0, "C25-R6", tailPath+"|insert/+1", pos(c, f.Decl), "paired", "log_count and the set of tailed streams disagree: "+msg, tr...)
		for _, lf := range goLits(c, f) {
			lg := lf.Graph()
			plus, minus = nil, nil
			classify(lg, lf)
			dels := lg.Calls(func(id string, call *ast.CallExpr) bool {
				return id == "builtin.delete" && strings.HasSuffix(core.PathOf(call.Args[0]), ".logstreams")
			})
			msg, tr, ok := pairedEvents(lg, core.HitPoints(dels), core.HitPoints(minus))
			c.Verdict(ok && len(dels) > 0 && len(plus) == 0, "C25-R6", lf.Key+"|delete/-1", pos(c, lf.Lit), "paired", "log_count and the set of tailed streams disagree: "+msg, tr...)
		}
	}
	c.Floor("C25-R6", 2)

	c.Rule("C25-R7", "MONOTONE: the monitoring counters (lines_total, prog_loads_total, prog_unloads_total, prog_load_errors_total, prog_runtime_errors_total, log_lines_total, log_count) are only ever changed through Add in shipped code: no Set/Init/Delete that would reset or replace a counter")
	counters := map[string]bool{"LineCount": true, "ProgLoads": true, "ProgUnloads": true, "ProgLoadErrors": true, "ProgRuntimeErrors": true, "logLines": true, "logCount": true}
	nuse := 0
	for _, sf := range shipped(c) {
		for _, h := range sf.Graph().Calls(func(id string, call *ast.CallExpr) bool {
			if !strings.HasPrefix(id, "expvar.") {
				return false
			}
			r := core.RecvExpr(call)
			if r == nil {
				return false
			}
			p := core.PathOf(r)
			if i := strings.LastIndex(p, "."); i >= 0 {
				p = p[i+1:]
			}
			return counters[p]
		}) {
			nuse++
			call := h.N.(*ast.CallExpr)
			id := sf.CalleeID(call)
			m := id[strings.LastIndex(id, ".")+1:]
			switch m {
			case "Add", "Get", "String", "Value", "Do":
			default:
				c.Fail("C25-R7", sf.Key+"|"+core.PathOf(core.RecvExpr(call))+"."+m, pos(c, call), "a monitoring counter is reset or replaced ("+m+") instead of incremented: its value no longer equals the number of events")
			}
		}
	}
	c.Ok("C25-R7", "uses", "-", fmt.Sprintf("%d method calls on the counters inspected", nuse))
	c.Floor("C25-R7", 1)
}

// mapStores finds assignments `X.<suffix>[k] = v`.
func mapStores(g *core.Graph, suffix string) []core.Hit {
	return g.Find(func(n ast.Node) bool {
		as, ok := n.(*ast.AssignStmt)
		if !ok {
			return false
		}
		for _, l := range as.Lhs {
			if ix, ok := core.Unparen(l).(*ast.IndexExpr); ok && strings.HasSuffix(core.PathOf(ix.X), suffix) {
				return true
			}
		}
		return false
	})
}

// inCase reports whether n lies in a case clause of f whose expression list mentions want (e.g. "code.Stop").
func inCase(f *core.Func, n ast.Node, want string) bool {
	res := false
	ast.Inspect(f.Body, func(x ast.Node) bool {
		cc, ok := x.(*ast.CaseClause)
		if !ok {
			return true
		}
		if cc.Pos() <= n.Pos() && n.End() <= cc.End() {
			for _, e := range cc.List {
				if exprStr(e) == want {
					// n must be directly in this clause, not in a nested switch's other clause: accept
					res = true
				}
			}
		}
		return true
	})
	return res
}
