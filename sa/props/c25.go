package props

import (
	"fmt"
	"go/ast"
	"go/types"
	"strings"

	"golang.org/x/tools/go/cfg"

	"verif/sa/core"
)

func init() { register("C25", c25) }

const (
	compileAndRun = "internal/runtime.(*Runtime).CompileAndRun"
	loadProgram   = "internal/runtime.(*Runtime).LoadProgram"
	unloadProgram = "internal/runtime.(*Runtime).UnloadProgram"
	runtimeNew    = "internal/runtime.New"
	vmErrorf      = "internal/runtime/vm.(*VM).errorf"
	vmExecute     = "internal/runtime/vm.(*VM).execute"
	tailPath      = "internal/tailer.(*Tailer).TailPath"
)

// ---------------------------------------------------------------------------
// Access descriptions: `x.f.g` as (object of x, fields f, g), following locals
// that are defined once as an identifier or field selection (`src := lr.sourcename`).

type accessDesc struct {
	Root   types.Object
	Fields []*types.Var
}

func (a *accessDesc) equal(b *accessDesc) bool {
	if a == nil || b == nil || a.Root != b.Root || len(a.Fields) != len(b.Fields) {
		return false
	}
	for i := range a.Fields {
		if a.Fields[i] != b.Fields[i] {
			return false
		}
	}
	return true
}

func (a *accessDesc) String() string {
	if a == nil {
		return "?"
	}
	s := a.Root.Name()
	for _, f := range a.Fields {
		s += "." + f.Name()
	}
	return s
}

func accessOf(f *core.Func, e ast.Expr) *accessDesc {
	info := f.Info()
	for depth := 0; depth < 8; depth++ {
		e = core.Unparen(e)
		switch x := e.(type) {
		case *ast.Ident:
			o := identObj(info, x)
			if o == nil {
				return nil
			}
			if d := singleDef(f, o); d != nil {
				switch core.Unparen(d).(type) {
				case *ast.Ident, *ast.SelectorExpr:
					if a := accessOf(f, d); a != nil {
						return a
					}
				}
			}
			return &accessDesc{Root: o}
		case *ast.SelectorExpr:
			fv := fieldOf(info, x)
			if fv == nil {
				// package-qualified identifier
				if o := info.Uses[x.Sel]; o != nil {
					if _, isPkg := identObj(info, x.X).(*types.PkgName); isPkg {
						return &accessDesc{Root: o}
					}
				}
				return nil
			}
			base := accessOf(f, x.X)
			if base == nil {
				return nil
			}
			return &accessDesc{Root: base.Root, Fields: append(append([]*types.Var{}, base.Fields...), fv)}
		case *ast.StarExpr:
			e = x.X
			continue
		default:
			return nil
		}
	}
	return nil
}

// ---------------------------------------------------------------------------
// Counter events: direct `V.Add(..)` calls on one expvar variable plus calls of
// module helpers that perform exactly one such Add on every path.

type c25Ev struct {
	P       core.Point
	N       ast.Node    // the Add call, or the call of the helper
	Key     *accessDesc // key of a Map.Add in terms of the enclosing function's objects (nil = unresolved)
	Delta   int64
	DeltaOK bool
	Via     *core.Func // helper through which the Add happens (nil = direct)
}

type c25Sum struct {
	has     bool // an Add happens in the function or its helpers
	regular bool // exactly one Add on every path to a normal exit, key/delta the same on all
	ev      c25Ev
	keyIdx  int // Key.Root is this parameter of the helper (-1 receiver, -2 other)
	cnt     core.Cnt
}

type c25Site struct {
	fn   *core.Func
	call *ast.CallExpr
}

type c25Calls map[*core.Func][]c25Site

func c25CallIndex(c *core.Check) c25Calls {
	idx := c25Calls{}
	for _, f := range shipped(c) {
		core.InspectNoLit(f.Body, func(n ast.Node) bool {
			if call, ok := n.(*ast.CallExpr); ok {
				if cf := f.CalleeFunc(call); cf != nil {
					idx[cf] = append(idx[cf], c25Site{f, call})
				}
			}
			return true
		})
	}
	return idx
}

type c25Events struct {
	c      *core.Check
	name   string
	v      types.Object
	isMap  bool
	opaque map[*core.Func]bool // callees handled explicitly by a rule, never summarised
	memo   map[*core.Func]*c25Sum
	busy   map[*core.Func]bool
	calls  c25Calls
}

func newC25Events(c *core.Check, calls c25Calls, pkgRel, name string, opaque ...*core.Func) *c25Events {
	ce := &c25Events{c: c, name: name, v: pkgVar(c, pkgRel, name), opaque: map[*core.Func]bool{}, memo: map[*core.Func]*c25Sum{}, busy: map[*core.Func]bool{}, calls: calls}
	if ce.v != nil {
		ce.isMap = strings.HasSuffix(ce.v.Type().String(), "expvar.Map")
	}
	for _, o := range opaque {
		if o != nil {
			ce.opaque[o] = true
		}
	}
	return ce
}

// onVar reports whether call is a method call of the expvar package on the variable.
func (ce *c25Events) onVar(f *core.Func, call *ast.CallExpr) (method string, ok bool) {
	id := f.CalleeID(call)
	if !strings.HasPrefix(id, "expvar.") || ce.v == nil {
		return "", false
	}
	r := core.RecvExpr(call)
	if r == nil || usedObj(f.Info(), resolveAlias(f, r)) != ce.v {
		return "", false
	}
	return id[strings.LastIndex(id, ".")+1:], true
}

// direct lists the V.Add calls of f (not in nested literals), in source order.
func (ce *c25Events) direct(f *core.Func) []core.Hit {
	return f.Graph().Calls(func(_ string, call *ast.CallExpr) bool {
		m, ok := ce.onVar(f, call)
		return ok && m == "Add"
	})
}

// in lists the counter events of f and the calls of helpers whose effect on
// the counter differs between their paths (irregular).
func (ce *c25Events) in(f *core.Func) (evs []c25Ev, irregular []core.Hit) {
	g := f.Graph()
	for _, h := range ce.direct(f) {
		call := h.N.(*ast.CallExpr)
		ev := c25Ev{P: h.P, N: call}
		di := 0
		if ce.isMap {
			di = 1
			if len(call.Args) > 0 {
				ev.Key = accessOf(f, call.Args[0])
			}
		}
		if di < len(call.Args) {
			ev.Delta, ev.DeltaOK = constInt(f.Info(), call.Args[di])
		}
		evs = append(evs, ev)
	}
	for _, h := range g.Find(func(n ast.Node) bool { _, ok := n.(*ast.CallExpr); return ok }) {
		call := h.N.(*ast.CallExpr)
		cf := f.CalleeFunc(call)
		if cf == nil || cf.Lit != nil || cf == f || ce.opaque[cf] || h.InGo {
			continue
		}
		s := ce.summary(cf)
		if !s.has {
			continue
		}
		if !s.regular {
			irregular = append(irregular, h)
			continue
		}
		ev := c25Ev{P: h.P, N: call, Delta: s.ev.Delta, DeltaOK: s.ev.DeltaOK, Via: cf}
		if s.ev.Key != nil {
			var base ast.Expr
			switch {
			case s.keyIdx == -1:
				base = core.RecvExpr(call)
			case s.keyIdx >= 0 && s.keyIdx < len(call.Args):
				base = call.Args[s.keyIdx]
			}
			if base != nil {
				if b := accessOf(f, base); b != nil {
					ev.Key = &accessDesc{Root: b.Root, Fields: append(append([]*types.Var{}, b.Fields...), s.ev.Key.Fields...)}
				}
			} else if s.keyIdx == -2 {
				if _, isLocal := s.ev.Key.Root.(*types.Var); isLocal && s.ev.Key.Root.Parent() == s.ev.Key.Root.Pkg().Scope() {
					ev.Key = s.ev.Key // package-level variable: same object everywhere
				}
			}
		}
		evs = append(evs, ev)
	}
	// source order
	for i := 1; i < len(evs); i++ {
		for j := i; j > 0 && evs[j].N.Pos() < evs[j-1].N.Pos(); j-- {
			evs[j], evs[j-1] = evs[j-1], evs[j]
		}
	}
	return
}

// c25AtExit is the count when the function leaves by e: the count before the
// exit's node plus the events inside the return statement itself
// (`return countAndPass(name, err)`).
func c25AtExit(ctr *core.Counter, e core.Exit, events []core.Point) core.Cnt {
	n, _ := ctr.At(e.P)
	for _, p := range events {
		if p == e.P {
			n.Min++
			n.Max++
		}
	}
	if n.Min > 2 {
		n.Min = 2
	}
	if n.Max > 2 {
		n.Max = 2
	}
	return n
}

func c25Points(evs []c25Ev) []core.Point {
	var ps []core.Point
	for _, e := range evs {
		ps = append(ps, e.P)
	}
	return ps
}

func (ce *c25Events) summary(h *core.Func) *c25Sum {
	if s, ok := ce.memo[h]; ok {
		return s
	}
	if ce.busy[h] {
		return &c25Sum{}
	}
	ce.busy[h] = true
	defer delete(ce.busy, h)
	s := &c25Sum{keyIdx: -2}
	evs, irr := ce.in(h)
	s.has = len(evs) > 0 || len(irr) > 0
	if s.has && len(irr) == 0 {
		g := h.Graph()
		ctr := g.Count(nil, c25Points(evs), nil)
		first := true
		for _, e := range normalExits(g) {
			if _, reach := ctr.At(e.P); !reach {
				continue
			}
			n := c25AtExit(ctr, e, c25Points(evs))
			if first {
				s.cnt, first = n, false
			} else {
				if n.Min < s.cnt.Min {
					s.cnt.Min = n.Min
				}
				if n.Max > s.cnt.Max {
					s.cnt.Max = n.Max
				}
			}
		}
		same := true
		for _, e := range evs[1:] {
			if !(e.Key.equal(evs[0].Key) || (e.Key == nil && evs[0].Key == nil)) || e.Delta != evs[0].Delta || e.DeltaOK != evs[0].DeltaOK {
				same = false
			}
		}
		if !first && s.cnt.Min == 1 && s.cnt.Max == 1 && same {
			s.regular = true
			s.ev = evs[0]
			if k := evs[0].Key; k != nil {
				switch {
				case k.Root == recvObj(h) && k.Root != nil:
					s.keyIdx = -1
				case paramIndexOf(h, k.Root) >= 0 && !assignedIn(h, k.Root):
					s.keyIdx = paramIndexOf(h, k.Root)
				}
			}
		}
	}
	ce.memo[h] = s
	return s
}

// within reports whether f is one of the anchors or a literal nested in one.
func within(f *core.Func, anchors map[*core.Func]bool) bool {
	for x := f; x != nil; x = x.Parent {
		if anchors[x] {
			return true
		}
	}
	return false
}

// strays lists the direct Adds of the counter that are outside the anchor
// functions and not in a regular helper all of whose callers are accounted for.
func (ce *c25Events) strays(anchors map[*core.Func]bool) (out []c25Site) {
	var accounted func(f *core.Func, depth int) bool
	accounted = func(f *core.Func, depth int) bool {
		if within(f, anchors) {
			return true
		}
		if f.Lit != nil || depth > 3 || !ce.summary(f).regular || len(ce.calls[f]) == 0 {
			return false
		}
		for _, s := range ce.calls[f] {
			if !accounted(s.fn, depth+1) {
				return false
			}
		}
		return true
	}
	for _, sf := range shipped(ce.c) {
		hs := ce.direct(sf)
		if len(hs) == 0 || accounted(sf, 0) {
			continue
		}
		for _, h := range hs {
			out = append(out, c25Site{sf, h.N.(*ast.CallExpr)})
		}
	}
	return
}

// undecideIrregular reports helper calls whose counter effect is path dependent,
// and Adds made inside function literals nested in f (deferred closures,
// goroutines): those run at another time than the statement that contains them,
// so the per-path count of f is not decided.
func (ce *c25Events) undecideIrregular(rule string, f *core.Func, irr []core.Hit, handled ...*core.Func) {
	own := map[*core.Func]bool{}
	for _, h := range handled {
		own[h] = true
	}
	for _, k := range ce.c.Prog.SortedFuncKeys() {
		lf := ce.c.Prog.Funcs[k]
		if lf == f || lf.Lit == nil || !within(lf, map[*core.Func]bool{f: true}) || within(lf, own) {
			continue // (literals analysed as goroutine bodies of their own are decided there)
		}
		for _, h := range ce.direct(lf) {
			ce.c.Undecided(rule, fmt.Sprintf("%s|%s in literal", lf.Key, ce.name), pos(ce.c, h.N), fmt.Sprintf("%s is changed inside a function literal of %s (deferred or concurrent code): the count per path of the enclosing function is not decided by this rule", ce.name, f.Key))
		}
	}
	for _, h := range irr {
		call := h.N.(*ast.CallExpr)
		cf := f.CalleeFunc(call)
		ce.c.Undecided(rule, fmt.Sprintf("%s|calls %s", f.Key, cf.Key), pos(ce.c, call), fmt.Sprintf("the callee changes %s on some of its paths only (or by differing keys): the per-path count in the caller is not decided by this rule", ce.name))
	}
}

// pairedEitherOrder checks that the events as and bs strictly alternate on
// every path, in one of the two orders (a then b, or b then a): at every exit
// both have occurred the same number of times.
func pairedEitherOrder(g *core.Graph, as, bs []core.Point) (msg string, trail []string, ok bool) {
	msg, trail, ok = pairedEvents(g, as, bs)
	if ok {
		return
	}
	if _, _, ok2 := pairedEvents(g, bs, as); ok2 {
		return "", nil, true
	}
	return
}

// mapStoresOn finds assignments `X.<field>[k] = v` (the map resolved through go/types).
func mapStoresOn(g *core.Graph, field *types.Var) []core.Hit {
	return g.Find(func(n ast.Node) bool {
		as, ok := n.(*ast.AssignStmt)
		if !ok || field == nil {
			return false
		}
		for _, l := range as.Lhs {
			if ix, ok := core.Unparen(l).(*ast.IndexExpr); ok && fieldOf(g.F.Info(), resolveAlias(g.F, ix.X)) == field {
				return true
			}
		}
		return false
	})
}

// mapDeletesOn finds `delete(X.<field>, k)`.
func mapDeletesOn(g *core.Graph, field *types.Var) []core.Hit {
	return g.Calls(func(id string, call *ast.CallExpr) bool {
		return id == "builtin.delete" && len(call.Args) == 2 && field != nil && fieldOf(g.F.Info(), resolveAlias(g.F, call.Args[0])) == field
	})
}

// vmNameField is the field of vm.VM that vm.New fills from its name parameter.
func vmNameField(c *core.Check) *types.Var {
	if f := c.Prog.Fn("internal/runtime/vm.New"); f != nil {
		p0 := paramAt(f, 0)
		var out *types.Var
		ast.Inspect(f.Body, func(n ast.Node) bool {
			cl, ok := n.(*ast.CompositeLit)
			if !ok {
				return true
			}
			for _, el := range cl.Elts {
				if kv, ok := el.(*ast.KeyValueExpr); ok && p0 != nil && identObj(f.Info(), kv.Value) == p0 {
					if id, ok := kv.Key.(*ast.Ident); ok {
						if fv, ok := f.Info().Uses[id].(*types.Var); ok && fv.IsField() {
							out = fv
						}
					}
				}
			}
			return true
		})
		if out != nil {
			return out
		}
	}
	return structField(c, "internal/runtime/vm", "VM", "name")
}

// terminateSets finds `X.terminate = true` (field resolved, constant true), also
// inside literals deferred by f (counted at the defer statement).
func terminateSets(g *core.Graph, field *types.Var) []core.Hit {
	f := g.F
	is := func(n ast.Node) bool {
		as, ok := n.(*ast.AssignStmt)
		if !ok || len(as.Lhs) != 1 || len(as.Rhs) != 1 || field == nil || fieldOf(f.Info(), as.Lhs[0]) != field {
			return false
		}
		v, isC := constBool(f.Info(), as.Rhs[0])
		return isC && v
	}
	out := g.Find(is)
	for _, h := range g.Find(func(n ast.Node) bool { _, ok := n.(*ast.DeferStmt); return ok }) {
		if lit, ok := core.Unparen(h.N.(*ast.DeferStmt).Call.Fun).(*ast.FuncLit); ok {
			for _, st := range lit.Body.List { // unconditional statements of the deferred literal only
				if is(st) {
					out = append(out, h)
				}
			}
		}
	}
	return out
}

func c25(c *core.Check) {
	c.Explain = "Decides, for every control-flow path of the current source, that each self-monitoring counter is bumped exactly once per event: (R1) lines_total once per line received by the loader and once-per-line forwarding in the tailer; (R2) log_lines_total incremented, keyed by the stream's own name, exactly once for every line sent by a log stream, and no other code sends lines; (R3) prog_runtime_errors_total incremented exactly once per errorf and nowhere else, and the VM stops a line only through errorf or stop; (R4) every failing exit of the program load path passes exactly one load-error increment and no load increment, every successful swap exactly one load increment, the unchanged-contents short-circuit neither; (R5) unload counted exactly with the handle deletion, under the deleted name; (R6) log_count +1/-1 paired with map insertion/removal. Counting is a min/max dataflow over the CFG (exact on all paths); an increment made by a helper function that performs exactly one Add on each of its paths counts at the helper's call sites. Variables, fields, parameters and callees are resolved through go/types, not by name. Not decided: that the events themselves are the right ones at run time, counter arithmetic inside expvar."
	c.Assume = append(c.Assume, "expvar.Int/Map.Add are atomic and exact", "a non-literal-nil error result is treated as a failing exit",
		"an increment and the event it counts may occur in either order within one function (the counters are compared with the events when the run is quiescent)")

	calls := c25CallIndex(c)
	carF := c.Prog.Fn(compileAndRun)
	lineCount := newC25Events(c, calls, "internal/runtime", "LineCount")
	progLoads := newC25Events(c, calls, "internal/runtime", "ProgLoads", carF)
	progLoadErrors := newC25Events(c, calls, "internal/runtime", "ProgLoadErrors", carF)
	progUnloads := newC25Events(c, calls, "internal/runtime", "ProgUnloads")
	progRuntimeErrors := newC25Events(c, calls, "internal/runtime/vm", "ProgRuntimeErrors")
	logLines := newC25Events(c, calls, "internal/tailer/logstream", "logLines")
	logCount := newC25Events(c, calls, "internal/tailer", "logCount")
	all := []*c25Events{lineCount, progLoads, progUnloads, progLoadErrors, progRuntimeErrors, logLines, logCount}
	for _, ce := range all {
		if ce.v == nil {
			c.Undecided("C25-R7", "counter "+ce.name, "-", "the expvar variable was not found in its package")
		}
	}
	forwarders := map[*core.Func]bool{} // functions whose sends of lines are decided under R1

	// R1
	c.Rule("C25-R1", "ONCE-PER-LINE: in the loader's fan-out loop `for line := range lines` (in the goroutine started by runtime.New) every iteration passes exactly one LineCount.Add(1), and LineCount is incremented nowhere outside that loop; the tailer's per-stream loop forwards each received line with exactly one send")
	if f := c.MustFn("C25-R1", runtimeNew); f != nil {
		found := false
		anchors := map[*core.Func]bool{}
		for _, gb := range goBodies(c, f) {
			lf := gb.Fn
			for _, rs := range rangeStmts(lf) {
				if !isChanOfLogLine(lf.Info(), rs.X) {
					continue
				}
				found = true
				anchors[lf] = true
				forwarders[lf] = true
				c.Analysed(lf)
				g := lf.Graph()
				adds, irr := lineCount.in(lf)
				lineCount.undecideIrregular("C25-R1", lf, irr)
				cnt, ok := iterationCount(g, rs, c25Points(adds))
				c.Verdict(ok && cnt.Min == 1 && cnt.Max == 1, "C25-R1", lf.Key+"|LineCount per iteration", pos(c, rs), "exactly one", "lines_total is incremented "+cnt.String()+" times per received line")
				for _, a := range adds {
					c.Verdict(a.DeltaOK && a.Delta == 1, "C25-R1", lf.Key+"|LineCount delta", pos(c, a.N), "delta 1", "lines_total is not incremented by the constant 1")
					if !(rs.Body.Pos() <= a.N.Pos() && a.N.End() <= rs.Body.End()) {
						c.Fail("C25-R1", lf.Key+"|LineCount outside loop", pos(c, a.N), "lines_total is incremented outside the loader's fan-out loop")
					}
				}
			}
		}
		if !found {
			c.Undecided("C25-R1", runtimeNew, pos(c, f.Decl), "fan-out loop over the lines channel not found in a goroutine started by New")
		} else {
			for _, s := range lineCount.strays(anchors) {
				c.Fail("C25-R1", s.fn.Key+"|LineCount elsewhere", pos(c, s.call), "lines_total is incremented outside the loader's fan-out loop")
			}
		}
	}
	if f := c.MustFn("C25-R1", tailPath); f != nil {
		for _, gb := range goBodies(c, f) {
			lf := gb.Fn
			c.Analysed(lf)
			g := lf.Graph()
			for _, rs := range rangeStmts(lf) {
				if !isChanOfLogLine(lf.Info(), rs.X) {
					continue
				}
				forwarders[lf] = true
				cnt, ok := iterationCount(g, rs, core.HitPoints(sendsOfLines(g)))
				c.Verdict(ok && cnt.Min == 1 && cnt.Max == 1, "C25-R1", lf.Key+"|forward per iteration", pos(c, rs), "exactly one send per received line", "the tailer forwards a received line "+cnt.String()+" times")
				for _, s := range sendsOfLines(g) {
					ss := s.N.(*ast.SendStmt)
					v := identObj(lf.Info(), resolveAlias(lf, ss.Value))
					okv := v != nil && v == identObj(lf.Info(), rs.Key)
					c.Verdict(okv, "C25-R1", lf.Key+"|forwarded value", pos(c, ss), "the received line itself is forwarded", "the tailer does not forward the line it received")
				}
			}
		}
	}
	c.Floor("C25-R1", 4)

	// R2
	c.Rule("C25-R2", "COUNT-EACH-LINE: in package logstream every send of a line is paired (strict alternation on every path) with exactly one logLines.Add(<name>, 1) whose key is the file name put into the line, and every such Add with a send; the only other sends of lines in shipped code are the tailer's forward and the loader's fan-out")
	logAnchors := map[*core.Func]bool{}
	for _, sf := range shipped(c) {
		g := sf.Graph()
		sends := sendsOfLines(g)
		if len(sends) == 0 {
			continue
		}
		c.Analysed(sf)
		rel := core.Rel(sf.Pkg.PkgPath)
		switch {
		case rel == "internal/tailer/logstream":
			logAnchors[sf] = true
			adds, irr := logLines.in(sf)
			logLines.undecideIrregular("C25-R2", sf, irr)
			msg, trail, ok := pairedEitherOrder(g, c25Points(adds), core.HitPoints(sends))
			c.Verdict(ok, "C25-R2", sf.Key+"|Add/send alternate", pos(c, sends[0].N), "each send has its own Add", "log_lines_total and delivered lines disagree: "+msg, trail...)
			for i, s := range sends {
				ss := s.N.(*ast.SendStmt)
				key := fmt.Sprintf("%s|send#%d key", sf.Key, i+1)
				call, _ := resolveLocal(sf, ss.Value).(*ast.CallExpr)
				if call == nil || sf.CalleeID(call) != "internal/logline.New" || len(call.Args) != 3 {
					c.Fail("C25-R2", key, pos(c, ss), "the line sent is not built by logline.New(ctx, name, text) in this function: cannot tie the counter key to the line's file name")
					continue
				}
				name := accessOf(sf, call.Args[1])
				okKey := len(adds) > 0 && name != nil
				for _, a := range adds {
					if !a.Key.equal(name) || !a.DeltaOK || a.Delta != 1 {
						okKey = false
					}
				}
				c.Verdict(okKey, "C25-R2", key, pos(c, ss), "counter keyed by the line's file name, delta 1", "log_lines_total is keyed by something other than the file name carried by the line, or not incremented by 1")
			}
		case forwarders[sf]:
			// forwarders, decided under R1
		default:
			for _, s := range sends {
				c.Fail("C25-R2", sf.Key+"|uncounted send", pos(c, s.N), "a line is sent from code that is neither a log stream reader (counted per log), the tailer's forwarder nor the loader's fan-out")
			}
		}
	}
	// delivery through a sending function of the package: one obligation per call site (the count is decided in the callee)
	for _, sf := range shipped(c) {
		if core.Rel(sf.Pkg.PkgPath) != "internal/tailer/logstream" {
			continue
		}
		n := 0
		core.InspectNoLit(sf.Body, func(x ast.Node) bool {
			if call, ok := x.(*ast.CallExpr); ok {
				if cf := sf.CalleeFunc(call); cf != nil && logAnchors[cf] {
					n++
					adds, _ := logLines.in(sf)
					own := 0
					for _, a := range adds {
						if a.Via == nil {
							own++
						}
					}
					c.Verdict(own == 0 || logAnchors[sf], "C25-R2", fmt.Sprintf("%s|delivers via %s#%d", sf.Key, cf.Key, n), pos(c, call), "line counted in the callee that sends it", "a function that delivers lines through "+cf.Key+" (which counts them) increments log_lines_total itself as well")
				}
			}
			return true
		})
	}
	// an Add in a function that sends nothing, and is not a helper of the sending functions
	for _, s := range logLines.strays(logAnchors) {
		c.Fail("C25-R2", s.fn.Key+"|Add without send", pos(c, s.call), "log_lines_total is incremented in a function that delivers no line")
	}
	c.Floor("C25-R2", 4)

	// R3
	c.Rule("C25-R3", "ERRORS: ProgRuntimeErrors.Add(v.name, 1) occurs exactly once on every path through errorf and nowhere else; errorf sets v.terminate on every path; every other `terminate = true` is reached only through the stop instruction's case (opcode == code.Stop) or after a call of errorf")
	termField := structField(c, "internal/runtime/vm", "VM", "terminate")
	if termField == nil {
		c.Undecided("C25-R3", "vm.VM.terminate", "-", "field not found")
	}
	errorfFn := c.MustFn("C25-R3", vmErrorf)
	if f := errorfFn; f != nil {
		g := f.Graph()
		adds, irr := progRuntimeErrors.in(f)
		progRuntimeErrors.undecideIrregular("C25-R3", f, irr)
		ctr := g.Count(nil, c25Points(adds), nil)
		for _, e := range normalExits(g) {
			cnt := c25AtExit(ctr, e, c25Points(adds))
			c.Verdict(cnt.Min == 1 && cnt.Max == 1, "C25-R3", vmErrorf+"|count|exit="+e.String(), ppos(c, e.P, f), "exactly one increment", "a path through errorf increments prog_runtime_errors_total "+cnt.String()+" times")
		}
		want := &accessDesc{Root: recvObj(f), Fields: []*types.Var{vmNameField(c)}}
		for _, a := range adds {
			c.Verdict(a.Key.equal(want) && want.Root != nil && a.DeltaOK && a.Delta == 1, "C25-R3", vmErrorf+"|key", pos(c, a.N), "keyed by the program's own name, delta 1", "the runtime error counter is not keyed by the VM's own program name with delta 1")
		}
		term := terminateSets(g, termField)
		if tr, found := pathAvoiding(g, nil, core.ExitPoints(normalExits(g)), core.HitPoints(term)); found {
			c.Fail("C25-R3", vmErrorf+"|terminates", pos(c, f.Decl), "errorf can return without stopping the line: execution continues after a counted error and may raise (and count) further errors for the same fault", tr...)
		} else {
			c.Ok("C25-R3", vmErrorf+"|terminates", pos(c, f.Decl), "terminate set on every path")
		}
		for _, s := range progRuntimeErrors.strays(map[*core.Func]bool{f: true}) {
			c.Fail("C25-R3", s.fn.Key+"|Add elsewhere", pos(c, s.call), "prog_runtime_errors_total is incremented outside errorf")
		}
	}
	stopGuard := newGuard(guardSpec{atom: func(f *core.Func, e ast.Expr, _ func(ast.Expr) string) (bool, bool) {
		be, ok := core.Unparen(e).(*ast.BinaryExpr)
		if !ok || (be.Op.String() != "==" && be.Op.String() != "!=") {
			return false, false
		}
		isStop := func(x ast.Expr) bool {
			k, ok := usedObj(f.Info(), x).(*types.Const)
			return ok && k.Name() == "Stop" && k.Pkg() != nil && core.Rel(k.Pkg().Path()) == "internal/runtime/code"
		}
		if !isStop(be.X) && !isStop(be.Y) {
			return false, false
		}
		return be.Op.String() == "==", be.Op.String() == "!="
	}})
	for _, sf := range shipped(c) {
		if core.Rel(sf.Pkg.PkgPath) != "internal/runtime/vm" || sf == errorfFn || errorfFn == nil {
			continue
		}
		g := sf.Graph()
		var stopEdge func(b *cfg.Block, si int) bool
		for i, h := range terminateSets(g, termField) {
			c.Analysed(sf)
			key := fmt.Sprintf("%s|terminate#%d", sf.Key, i+1)
			if stopEdge == nil {
				stopEdge = stopGuard.edges(sf, nil, 0)
			}
			errs := g.CallsTo(vmErrorf)
			// allowed: reached only through the Stop case, or every path to it passes an errorf call
			if _, viaOther := g.Search(core.Query{Goal: core.At(h.P), AvoidEdge: stopEdge}); !viaOther {
				c.Ok("C25-R3", key, pos(c, h.N), "stop instruction")
				continue
			}
			if tr, found := g.Search(core.Query{Goal: core.At(h.P), Avoid: core.At(core.HitPoints(errs)...), AvoidEdge: stopEdge}); found {
				c.Fail("C25-R3", key, pos(c, h.N), "the VM aborts the line without counting a runtime error", g.Trail(tr)...)
			} else {
				c.Ok("C25-R3", key, pos(c, h.N), "follows errorf")
			}
		}
	}
	c.Floor("C25-R3", 5)

	// R4
	c.Rule("C25-R4", "LOAD-ACCOUNTING: in CompileAndRun every return of a non-nil error passes exactly one ProgLoadErrors.Add(name,1) and no ProgLoads.Add; the handle swap and every nil return after it pass exactly one ProgLoads.Add(name,1) and no ProgLoadErrors.Add; the unchanged-contents return passes neither. In LoadProgram every error return passes exactly one of {ProgLoadErrors.Add, call of CompileAndRun}, and its own increment is keyed by the name it hands to CompileAndRun")
	handlesField := structField(c, "internal/runtime", "Runtime", "handles")
	if handlesField == nil {
		c.Undecided("C25-R4", "runtime.Runtime.handles", "-", "field not found")
	}
	loadAnchors := map[*core.Func]bool{}
	if f := c.MustFn("C25-R4", compileAndRun); f != nil {
		loadAnchors[f] = true
		g := f.Graph()
		errAdds, irr1 := progLoadErrors.in(f)
		okAdds, irr2 := progLoads.in(f)
		var modelled []*core.Func // deferred closures whose events are added per exit below
		if _, u := progLoadErrors.deferred(f); u == "" {
			if _, u2 := progLoads.deferred(f); u2 == "" {
				modelled = deferLits(c, f)
			}
		}
		progLoadErrors.undecideIrregular("C25-R4", f, irr1, modelled...)
		progLoads.undecideIrregular("C25-R4", f, irr2, modelled...)
		ce := g.Count(nil, c25Points(errAdds), nil)
		co := g.Count(nil, c25Points(okAdds), nil)
		dErr, und1 := progLoadErrors.deferred(f)
		dOk, und2 := progLoads.deferred(f)
		if und1+und2 != "" {
			c.Undecided("C25-R4", compileAndRun+"|deferred accounting", pos(c, f.Decl), und1+" "+und2)
		}
		for _, d := range append(append([]c25DeferredEv{}, dErr...), dOk...) {
			a := d.ev
			c.Verdict(a.Key != nil && a.Key.Root == paramAt(f, 0) && paramAt(f, 0) != nil && len(a.Key.Fields) == 0 && a.DeltaOK && a.Delta == 1, "C25-R4", compileAndRun+"|key (deferred)", pos(c, a.N), "keyed by name, delta 1", "a deferred load counter is not keyed by the program name with delta 1")
		}
		for _, e := range normalExits(g) {
			ne := c25AtExit(ce, e, c25Points(errAdds))
			no := c25AtExit(co, e, c25Points(okAdds))
			key := compileAndRun + "|exit=" + e.String()
			if len(dErr)+len(dOk) > 0 {
				a1, u1 := c25DeferredAt(f, dErr, e)
				a2, u2 := c25DeferredAt(f, dOk, e)
				if u1+u2 != "" {
					c.Undecided("C25-R4", key, ppos(c, e.P, f), "deferred accounting: "+u1+" "+u2)
					continue
				}
				ne, no = c25AddCnt(ne, a1), c25AddCnt(no, a2)
			}
			if e.Kind == "return" && !returnsNil(f.Info(), e.Ret) {
				c.Verdict(ne.Min == 1 && ne.Max == 1 && no.Max == 0, "C25-R4", key, ppos(c, e.P, f), "one load error, no load",
					fmt.Sprintf("a failing load (%s) is counted %s times in prog_load_errors_total and %s times in prog_loads_total; want exactly 1 and 0", exprStr(e.Ret.Results[len(e.Ret.Results)-1]), ne.String(), no.String()))
			} else {
				c.Verdict(ne.Max == 0 && no.Min == no.Max && no.Max <= 1, "C25-R4", key, ppos(c, e.P, f), "no load error; loads="+no.String(),
					fmt.Sprintf("a successful return passes %s load-error increments and %s load increments", ne.String(), no.String()))
			}
		}
		stores := mapStoresOn(g, handlesField)
		// the swap may live in a callee (`r.install(name, hash, v)`): its call is the swap point
		storers := c.Prog.Reaching(func(sf *core.Func) bool {
			if core.Rel(sf.Pkg.PkgPath) != "internal/runtime" {
				return false
			}
			if len(mapStoresOn(sf.Graph(), handlesField)) > 0 {
				return true
			}
			for _, l := range sf.Lits {
				if len(mapStoresOn(l.Graph(), handlesField)) > 0 {
					return true
				}
			}
			return false
		})
		stores = append(stores, g.Calls(func(_ string, call *ast.CallExpr) bool {
			cf := f.CalleeFunc(call)
			return cf != nil && cf != f && storers[cf]
		})...)
		for i, s := range stores {
			no, _ := co.At(s.P)
			ne, _ := ce.At(s.P)
			c.Verdict(no.Min == 1 && no.Max == 1 && ne.Max == 0, "C25-R4", fmt.Sprintf("%s|swap#%d", compileAndRun, i+1), pos(c, s.N), "exactly one load counted before the swap",
				"the handle swap is reached with "+no.String()+" load increments and "+ne.String()+" load-error increments")
		}
		if len(stores) == 0 {
			c.Undecided("C25-R4", compileAndRun+"|swap", pos(c, f.Decl), "no store into r.handles found")
		}
		// the short-circuit: edges taken only when bytes.Equal found the content hash unchanged
		same := newGuard(guardSpec{atom: func(af *core.Func, e ast.Expr, _ func(ast.Expr) string) (bool, bool) {
			if call, ok := core.Unparen(e).(*ast.CallExpr); ok && af.CalleeID(call) == "bytes.Equal" {
				return true, false
			}
			return false, false
		}})
		sameEdge := same.edges(f, nil, 0)
		nshort := 0
		allEv := append(c25Points(errAdds), c25Points(okAdds)...)
		for _, b := range g.C.Blocks {
			if !b.Live {
				continue
			}
			for si := range b.Succs {
				if !sameEdge(b, si) {
					continue
				}
				nshort++
				start := &core.Point{B: b.Succs[si], I: -1}
				at := pos(c, b.Nodes[len(b.Nodes)-1])
				if tr, found := pathAvoiding(g, start, allEv, nil); found {
					c.Fail("C25-R4", compileAndRun+"|unchanged", at, "reloading unchanged contents bumps a load counter", tr...)
				} else {
					c.Ok("C25-R4", compileAndRun+"|unchanged", at, "no counter on the unchanged-contents path")
				}
			}
		}
		if nshort == 0 {
			c.Undecided("C25-R4", compileAndRun+"|unchanged", pos(c, f.Decl), "no branch deciding on bytes.Equal of the content hashes found: the unchanged-contents short-circuit is not in a recognised shape")
		}
		name := paramAt(f, 0)
		for _, a := range append(append([]c25Ev{}, errAdds...), okAdds...) {
			c.Verdict(a.Key != nil && a.Key.Root == name && name != nil && len(a.Key.Fields) == 0 && a.DeltaOK && a.Delta == 1, "C25-R4", compileAndRun+"|key", pos(c, a.N), "keyed by name, delta 1", "a load counter is not keyed by the program name with delta 1")
		}
	}
	if f := c.MustFn("C25-R4", loadProgram); f != nil {
		loadAnchors[f] = true
		g := f.Graph()
		adds, irr := progLoadErrors.in(f)
		var modelled []*core.Func
		if _, u := progLoadErrors.deferred(f); u == "" {
			modelled = deferLits(c, f)
		}
		progLoadErrors.undecideIrregular("C25-R4", f, irr, modelled...)
		cars := g.CallsTo(compileAndRun)
		ev := append(c25Points(adds), core.HitPoints(cars)...)
		ctr := g.Count(nil, ev, nil)
		dErr, und := progLoadErrors.deferred(f)
		if und != "" {
			c.Undecided("C25-R4", loadProgram+"|deferred accounting", pos(c, f.Decl), und)
		}
		for _, e := range normalExits(g) {
			n := c25AtExit(ctr, e, ev)
			key := loadProgram + "|exit=" + e.String()
			if len(dErr) > 0 {
				a1, u1 := c25DeferredAt(f, dErr, e)
				if u1 != "" {
					c.Undecided("C25-R4", key, ppos(c, e.P, f), "deferred accounting: "+u1)
					continue
				}
				n = c25AddCnt(n, a1)
			}
			if e.Kind == "return" && !returnsNil(f.Info(), e.Ret) {
				c.Verdict(n.Min == 1 && n.Max == 1, "C25-R4", key, ppos(c, e.P, f), "counted once", "a failing LoadProgram exit is counted "+n.String()+" times in prog_load_errors_total")
			} else {
				c.Verdict(n.Max <= 1, "C25-R4", key, ppos(c, e.P, f), "at most one accounting event", "a LoadProgram exit passes "+n.String()+" accounting events")
			}
		}
		// the name LoadProgram counts its own failure under is the name CompileAndRun counts under
		for _, a := range adds {
			ok := a.DeltaOK && a.Delta == 1 && len(cars) > 0
			for _, h := range cars {
				if call := h.N.(*ast.CallExpr); len(call.Args) == 0 || !a.Key.equal(accessOf(f, call.Args[0])) {
					ok = false
				}
			}
			c.Verdict(ok, "C25-R4", loadProgram+"|key", pos(c, a.N), "keyed by the name passed to CompileAndRun, delta 1", "LoadProgram counts its load error under a key other than the program name it passes to CompileAndRun (or not by 1): the per-program load-error count disagrees with the events")
		}
	}
	for _, ce := range []*c25Events{progLoadErrors, progLoads} {
		for _, s := range ce.strays(loadAnchors) {
			c.Fail("C25-R4", s.fn.Key+"|"+ce.name+" elsewhere", pos(c, s.call), ce.name+" is incremented outside the load path")
		}
	}
	c.Floor("C25-R4", 12)

	// R5
	c.Rule("C25-R5", "UNLOAD: in UnloadProgram delete(r.handles, name) and ProgUnloads.Add(name,1) strictly alternate on every path (same name, delta 1), and ProgUnloads is incremented nowhere else")
	if f := c.MustFn("C25-R5", unloadProgram); f != nil {
		g := f.Graph()
		dels := mapDeletesOn(g, handlesField)
		adds, irr := progUnloads.in(f)
		progUnloads.undecideIrregular("C25-R5", f, irr)
		if len(dels) == 0 || len(adds) == 0 {
			if len(irr) == 0 {
				c.Fail("C25-R5", unloadProgram, pos(c, f.Decl), "UnloadProgram does not both delete the handle and count the unload")
			}
		} else {
			msg, tr, ok := pairedEitherOrder(g, core.HitPoints(dels), c25Points(adds))
			c.Verdict(ok, "C25-R5", unloadProgram+"|delete/Add", pos(c, dels[0].N), "paired", "prog_unloads_total and actual unloads disagree: "+msg, tr...)
			for _, a := range adds {
				ok := a.DeltaOK && a.Delta == 1
				for _, d := range dels {
					if !a.Key.equal(accessOf(f, d.N.(*ast.CallExpr).Args[1])) {
						ok = false
					}
				}
				if !ok {
					c.Fail("C25-R5", unloadProgram+"|key", pos(c, a.N), "prog_unloads_total is not incremented by 1 under the name whose handle is deleted: the per-program unload count disagrees with the unloads")
				}
			}
		}
		for _, s := range progUnloads.strays(map[*core.Func]bool{f: true}) {
			c.Fail("C25-R5", s.fn.Key+"|ProgUnloads elsewhere", pos(c, s.call), "prog_unloads_total is incremented outside UnloadProgram")
		}
	}
	c.Floor("C25-R5", 1)

	// R6
	c.Rule("C25-R6", "LOG-COUNT: in TailPath the insertion into the stream map and logCount.Add(1) alternate; in its per-stream goroutine the deletion and logCount.Add(-1) alternate; log_count is changed nowhere else")
	streamsField := structField(c, "internal/tailer", "Tailer", "logstreams")
	if streamsField == nil {
		c.Undecided("C25-R6", "tailer.Tailer.logstreams", "-", "field not found")
	}
	if f := c.MustFn("C25-R6", tailPath); f != nil {
		g := f.Graph()
		st := mapStoresOn(g, streamsField)
		var bodies []*core.Func
		for _, gb := range goBodies(c, f) {
			bodies = append(bodies, gb.Fn)
		}
		classify := func(ff *core.Func) (plus, minus []c25Ev) {
			evs, irr := logCount.in(ff)
			logCount.undecideIrregular("C25-R6", ff, irr, bodies...)
			for _, a := range evs {
				switch {
				case a.DeltaOK && a.Delta == 1:
					plus = append(plus, a)
				case a.DeltaOK && a.Delta == -1:
					minus = append(minus, a)
				default:
					c.Fail("C25-R6", ff.Key+"|delta", pos(c, a.N), "log_count changed by something other than +1/-1")
				}
			}
			return
		}
		plus, minus0 := classify(f)
		msg, tr, ok := pairedEitherOrder(g, core.HitPoints(st), c25Points(plus))
		c.Verdict(ok && len(st) > 0 && len(minus0) == 0, "C25-R6", tailPath+"|insert/+1", pos(c, f.Decl), "paired", "log_count and the set of tailed streams disagree: "+msg, tr...)
		anchors := map[*core.Func]bool{f: true}
		for _, gb := range goBodies(c, f) {
			lf := gb.Fn
			anchors[lf] = true
			lg := lf.Graph()
			plus, minus := classify(lf)
			dels := mapDeletesOn(lg, streamsField)
			msg, tr, ok := pairedEitherOrder(lg, core.HitPoints(dels), c25Points(minus))
			c.Verdict(ok && len(dels) > 0 && len(plus) == 0, "C25-R6", lf.Key+"|delete/-1", pos(c, lf.Body), "paired", "log_count and the set of tailed streams disagree: "+msg, tr...)
		}
		for _, s := range logCount.strays(anchors) {
			c.Fail("C25-R6", s.fn.Key+"|logCount elsewhere", pos(c, s.call), "log_count is changed outside TailPath and its per-stream goroutine")
		}
	}
	c.Floor("C25-R6", 2)

	c.Rule("C25-R7", "MONOTONE: the monitoring counters (lines_total, prog_loads_total, prog_unloads_total, prog_load_errors_total, prog_runtime_errors_total, log_lines_total, log_count) are only ever changed through Add in shipped code: no Set/Init/Delete that would reset or replace a counter")
	nuse := 0
	for _, sf := range shipped(c) {
		for _, ce := range all {
			for _, h := range sf.Graph().Calls(func(_ string, call *ast.CallExpr) bool { _, ok := ce.onVar(sf, call); return ok }) {
				nuse++
				call := h.N.(*ast.CallExpr)
				m, _ := ce.onVar(sf, call)
				switch m {
				case "Add", "Get", "String", "Value", "Do":
				default:
					c.Fail("C25-R7", sf.Key+"|"+core.PathOf(core.RecvExpr(call))+"."+m, pos(c, call), "a monitoring counter is reset or replaced ("+m+") instead of incremented: its value no longer equals the number of events")
				}
			}
		}
		// the variable itself must not be reassigned
		core.InspectNoLit(sf.Body, func(n ast.Node) bool {
			as, ok := n.(*ast.AssignStmt)
			if !ok {
				return true
			}
			for _, l := range as.Lhs {
				for _, ce := range all {
					if o := usedObj(sf.Info(), l); o != nil && o == ce.v {
						c.Fail("C25-R7", sf.Key+"|"+ce.name+" reassigned", pos(c, as), "a monitoring counter variable is replaced by a new counter: the events counted so far are lost")
					}
				}
			}
			return true
		})
	}
	c.Ok("C25-R7", "uses", "-", fmt.Sprintf("%d method calls on the counters inspected", nuse))
	c.Floor("C25-R7", 1)
}

// mapStores finds assignments `X.<suffix>[k] = v`.
func mapStores(g *core.Graph, suffix string) []core.Hit {
	return g.Find(func(n ast.Node) bool {
		as, ok := n.(*ast.AssignStmt)
		if !ok {
			return false
		}
		for _, l := range as.Lhs {
			if ix, ok := core.Unparen(l).(*ast.IndexExpr); ok && strings.HasSuffix(core.PathOf(ix.X), suffix) {
				return true
			}
		}
		return false
	})
}

// inCase reports whether n lies in a case clause of f whose expression list mentions want (e.g. "code.Stop").
func inCase(f *core.Func, n ast.Node, want string) bool {
	res := false
	ast.Inspect(f.Body, func(x ast.Node) bool {
		cc, ok := x.(*ast.CaseClause)
		if !ok {
			return true
		}
		if cc.Pos() <= n.Pos() && n.End() <= cc.End() {
			for _, e := range cc.List {
				if exprStr(e) == want {
					// n must be directly in this clause, not in a nested switch's other clause: accept
					res = true
				}
			}
		}
		return true
	})
	return res
}
