package props

import (
	"fmt"
	"go/ast"
	"go/types"
	"strings"

	"verif/sa/core"
)

// C02-R7 POSITION-KINDS.  Folding replaces an *ast.BinaryExpr by an *ast.IntLit or
// *ast.FloatLit wherever it stands, and the first optimiser pass runs before the
// checker.  If a later stage looks at the KIND of a child in some position and
// accepts a BinaryExpr there but records an error for a literal, the optimised
// compile rejects a program (`1 + 1 { … }`) that compiles without optimisation
// — for something other than a division by the literal 0.  For every such
// position the optimiser must treat the position specially (it has no parent
// information in VisitAfter, so it has to read that field of the parent kind
// somewhere).
func init() { register("C02", c02PositionKinds) }

func c02PositionKinds(c *core.Check) {
	const rule = "C02-R7"
	c.Rule(rule, "POSITION-KINDS: for every type switch in the checker's or the code generator's visit functions whose subject is a field n.F of the node visited and which accepts *ast.BinaryExpr without recording an error while *ast.IntLit (or *ast.FloatLit) falls into a clause that records one, the optimiser refers to that field of that node kind (it cannot know the position of a BinaryExpr otherwise): the fold must not turn an accepted expression into a rejected literal")
	astPkg := c.Prog.Pkgs["internal/runtime/compiler/ast"]
	if astPkg == nil {
		c.Undecided(rule, "package ast", "-", "not loaded")
		return
	}
	named := func(name string) types.Type {
		if o := astPkg.Types.Scope().Lookup(name); o != nil {
			return types.NewPointer(o.Type())
		}
		return nil
	}
	tBin, tInt, tFloat := named("BinaryExpr"), named("IntLit"), named("FloatLit")
	if tBin == nil || tInt == nil || tFloat == nil {
		c.Undecided(rule, "ast kinds", "-", "BinaryExpr/IntLit/FloatLit not found")
		return
	}
	// what the optimiser refers to
	optRefs := map[types.Object]bool{}
	nOpt := 0
	for _, sf := range shipped(c) {
		if core.Rel(sf.Pkg.PkgPath) != "internal/runtime/compiler/opt" {
			continue
		}
		nOpt++
		ast.Inspect(sf.Body, func(n ast.Node) bool {
			if sel, ok := n.(*ast.SelectorExpr); ok {
				if s := sf.Info().Selections[sel]; s != nil && s.Kind() == types.FieldVal {
					optRefs[s.Obj()] = true
				}
			}
			return true
		})
	}
	recordsError := func(f *core.Func, body []ast.Stmt) bool {
		found := false
		for _, st := range body {
			ast.Inspect(st, func(n ast.Node) bool {
				call, ok := n.(*ast.CallExpr)
				if !ok || found {
					return !found
				}
				id := f.CalleeID(call)
				if strings.HasSuffix(id, "errors.(*ErrorList).Add") {
					found = true
					return false
				}
				if cf := f.CalleeFunc(call); cf != nil && cf.Pkg == f.Pkg && cf.Body != nil {
					ast.Inspect(cf.Body, func(m ast.Node) bool {
						if c2, ok := m.(*ast.CallExpr); ok && strings.HasSuffix(cf.CalleeID(c2), "errors.(*ErrorList).Add") {
							found = true
						}
						return !found
					})
				}
				return !found
			})
		}
		return found
	}
	n := 0
	for _, key := range []string{c24VB, c24VA, codegenBefore, "internal/runtime/compiler/codegen.(*codegen).VisitAfter"} {
		f := c.Prog.Fn(key)
		if f == nil {
			c.Undecided(rule, key, "-", "visit function not found")
			continue
		}
		c.Analysed(f)
		info := f.Info()
		core.InspectNoLit(f.Body, func(x ast.Node) bool {
			ts, ok := x.(*ast.TypeSwitchStmt)
			if !ok {
				return true
			}
			// the subject x.(type) of the switch
			var subj ast.Expr
			switch a := ts.Assign.(type) {
			case *ast.ExprStmt:
				if ta, ok := a.X.(*ast.TypeAssertExpr); ok {
					subj = ta.X
				}
			case *ast.AssignStmt:
				if len(a.Rhs) == 1 {
					if ta, ok := a.Rhs[0].(*ast.TypeAssertExpr); ok {
						subj = ta.X
					}
				}
			}
			fv, base := hbFieldOf(info, subj)
			if fv == nil {
				return true
			}
			var binCl, intCl, floatCl, deflt *ast.CaseClause
			for _, cl := range ts.Body.List {
				cc := cl.(*ast.CaseClause)
				if cc.List == nil {
					deflt = cc
				}
				for _, e := range cc.List {
					t := info.TypeOf(e)
					switch {
					case t != nil && types.Identical(t, tBin):
						binCl = cc
					case t != nil && types.Identical(t, tInt):
						intCl = cc
					case t != nil && types.Identical(t, tFloat):
						floatCl = cc
					}
				}
			}
			if binCl == nil || recordsError(f, binCl.Body) {
				return true
			}
			for _, lit := range []struct {
				cl   *ast.CaseClause
				name string
			}{{intCl, "IntLit"}, {floatCl, "FloatLit"}} {
				cl := lit.cl
				if cl == nil {
					cl = deflt
				}
				if cl == nil || cl == binCl || !recordsError(f, cl.Body) {
					continue
				}
				n++
				kind := "?"
				if bt := info.TypeOf(base); bt != nil {
					kind = bt.String()
					kind = kind[strings.LastIndex(kind, ".")+1:]
				}
				k := fmt.Sprintf("%s|%s.%s|%s", f.Key, kind, fv.Name(), lit.name)
				c.Verdict(optRefs[fv], rule, k, pos(c, ts), "the optimiser reads "+kind+"."+fv.Name()+": the position is treated specially",
					"in "+kind+"."+fv.Name()+" this stage accepts an *ast.BinaryExpr but records an error for an *ast."+lit.name+", and the optimiser, whose first pass runs before the checker, folds a constant BinaryExpr into that literal wherever it stands (it never looks at "+kind+"."+fv.Name()+"): a program such as `1 + 1 { … }` compiles without optimisation and is rejected with it — not for a division by the literal 0")
			}
			return true
		})
	}
	if n == 0 {
		c.Ok(rule, "no kind-sensitive position", "-", fmt.Sprintf("no position accepts a BinaryExpr and rejects a literal (%d optimiser functions read)", nOpt))
	}
	c.Floor(rule, 1)
}
