package props

import (
	"go/ast"
	"go/token"
	"go/types"
	"sort"
	"strings"

	"verif/sa/core"
)

// recycledThread handles the design in which ProcessLogLine does not create the
// per-line thread but takes a used one (a pool, a field of the VM, a helper
// that hands one out) and resets it.  Which fields of vm.thread are given a new
// value or emptied anywhere on the way — in ProcessLogLine before the first
// instruction, in the functions that receive or return the thread there, in the
// functions ProcessLogLine defers with it — is collected; a field that is never
// reset keeps what the previous line (or another program's line) left in it:
// that is a violation.  If every field is reset somewhere, the order of the
// resets on all paths is not followed: undecided.
//
// It returns handled=true when the shape was a recycled thread (verdicts were
// recorded), false when the caller should go on with its own analysis.
func recycledThread(c *core.Check, rule string, pll *core.Func, execs []core.Hit) bool {
	info := pll.Info()
	st := threadStruct(c)
	if st == nil || len(execs) == 0 {
		return false
	}
	call := execs[0].N.(*ast.CallExpr)
	if len(call.Args) == 0 {
		return false
	}
	tv := identObj(info, call.Args[0])
	if tv == nil {
		return false
	}
	isThreadPtr := func(t types.Type) bool {
		if p, ok := t.(*types.Pointer); ok {
			t = p.Elem()
		}
		n, ok := t.(*types.Named)
		return ok && n.Underlying() == types.Type(st)
	}
	if !isThreadPtr(tv.Type()) {
		return false
	}
	// the functions through which the thread passes
	type scope struct {
		f *core.Func
		v types.Object // the variable of f that holds the thread (nil: any thread-typed variable of f)
	}
	scopes := []scope{{pll, tv}}
	seen := map[*core.Func]bool{pll: true}
	var add func(f *core.Func, depth int)
	add = func(f *core.Func, depth int) {
		if f == nil || seen[f] || depth > 2 || f.Body == nil || core.Rel(f.Pkg.PkgPath) != "internal/runtime/vm" {
			return
		}
		seen[f] = true
		scopes = append(scopes, scope{f, nil})
		core.InspectNoLit(f.Body, func(n ast.Node) bool {
			if cl, ok := n.(*ast.CallExpr); ok {
				if cf := f.CalleeFunc(cl); cf != nil && c05TouchesThread(cf, isThreadPtr) {
					add(cf, depth+1)
				}
			}
			return true
		})
	}
	execFn := pll.CalleeFunc(call)
	core.InspectNoLit(pll.Body, func(n ast.Node) bool {
		if cl, ok := n.(*ast.CallExpr); ok {
			if cf := pll.CalleeFunc(cl); cf != nil && cf != execFn && c05TouchesThread(cf, isThreadPtr) {
				add(cf, 0)
			}
		}
		return true
	})
	// field resets
	reset := map[*types.Var]string{}
	for _, sc := range scopes {
		finfo := sc.f.Info()
		holdsThread := func(e ast.Expr) bool {
			o := identObj(finfo, e)
			if o == nil {
				return false
			}
			if sc.v != nil {
				return o == sc.v
			}
			return isThreadPtr(o.Type())
		}
		fieldOfThread := func(e ast.Expr) *types.Var {
			fv, base := hbFieldOf(finfo, e)
			if fv == nil || !holdsThread(base) {
				return nil
			}
			for i := 0; i < st.NumFields(); i++ {
				if st.Field(i) == fv {
					return fv
				}
			}
			return nil
		}
		var stop token.Pos = token.NoPos
		if sc.f == pll {
			stop = call.Pos() // only what precedes the first instruction counts in ProcessLogLine itself
		}
		core.InspectNoLit(sc.f.Body, func(n ast.Node) bool {
			if stop.IsValid() && n != nil && n.Pos() >= stop {
				if _, isDefer := n.(*ast.DeferStmt); !isDefer {
					return false
				}
			}
			switch x := n.(type) {
			case *ast.AssignStmt:
				for _, l := range x.Lhs {
					if fv := fieldOfThread(l); fv != nil {
						reset[fv] = sc.f.Key
					}
				}
			case *ast.CallExpr:
				id := sc.f.CalleeID(x)
				if (id == "builtin.clear" || id == "builtin.delete") && len(x.Args) >= 1 {
					if fv := fieldOfThread(x.Args[0]); fv != nil {
						reset[fv] = sc.f.Key
					}
				}
			}
			return true
		})
	}
	// does the thread really come from somewhere else than a creation?  (the caller found no new(thread))
	var missing, have []string
	for i := 0; i < st.NumFields(); i++ {
		f := st.Field(i)
		if _, ok := reset[f]; ok {
			have = append(have, f.Name())
		} else {
			missing = append(missing, f.Name())
		}
	}
	sort.Strings(missing)
	key := processLogLine + "|recycled thread"
	if len(missing) > 0 {
		c.Fail(rule, key, pos(c, call), "ProcessLogLine runs the program on a thread it did not create in this call (a pooled or kept thread), and nothing on the way resets the thread's field(s) "+strings.Join(missing, ", ")+" (reset: "+strings.Join(have, ", ")+"): the instructions of this line see what the previous line — or, with a shared pool, another program's line — left there (capture groups, time register, stack, matched flag)")
	} else {
		c.Undecided(rule, key, pos(c, call), "ProcessLogLine runs the program on a recycled thread; every field of vm.thread is assigned or emptied somewhere on the way ("+strings.Join(have, ", ")+"), but whether that happens on every path before the first instruction is not followed for this design")
	}
	return true
}

// c05TouchesThread: the function has a parameter, receiver or result of type *thread.
func c05TouchesThread(f *core.Func, isThreadPtr func(types.Type) bool) bool {
	if f == nil || f.Obj == nil {
		return false
	}
	sig, ok := f.Obj.Type().(*types.Signature)
	if !ok {
		return false
	}
	if sig.Recv() != nil && isThreadPtr(sig.Recv().Type()) {
		return true
	}
	for i := 0; i < sig.Params().Len(); i++ {
		if isThreadPtr(sig.Params().At(i).Type()) {
			return true
		}
	}
	for i := 0; i < sig.Results().Len(); i++ {
		if isThreadPtr(sig.Results().At(i).Type()) {
			return true
		}
	}
	return false
}
